"""Symbolic sets of argument positions (finite sets + arithmetic progressions)."""
import ast

from .model import own_nodes

LIMIT = 64  # positions are compared on 0..LIMIT-1 (Excel allows 255 args; patterns are periodic)


class PosSet:
    def __init__(self, fixed=(), progs=(), all_=False):
        self.fixed = set(fixed)
        self.progs = list(progs)  # (start, step)
        self.all = all_

    @classmethod
    def from_spec(cls, s):
        if s == 'all':
            return cls(all_=True)
        if isinstance(s, dict):
            return cls(progs=[(s['from'], s.get('step', 1))])
        return cls(fixed=s)

    def members(self, n=LIMIT):
        if self.all:
            return set(range(n))
        r = {i for i in self.fixed if 0 <= i < n}
        for start, step in self.progs:
            r.update(range(start, n, step))
        return r

    def issubset(self, other):
        return self.members() <= other.members()

    def union(self, other):
        return PosSet(self.fixed | other.fixed, self.progs + other.progs,
                      self.all or other.all)

    def is_empty(self):
        return not self.members()

    def describe(self):
        if self.all:
            return 'all'
        parts = [str(i) for i in sorted(self.fixed)]
        parts += ['%d,%d,..' % (s, s + st) for s, st in self.progs]
        return '{%s}' % ', '.join(parts)


def _parent_map(root):
    pm = {}
    for n in ast.walk(root):
        for c in ast.iter_child_nodes(n):
            pm[id(c)] = n
    return pm


def positions_in(fi, within=None):
    """Positions of fi's parameters referenced in `within` (default: whole body).

    Named positional parameter i -> {i}; vararg `a`: a[k] -> {off+k},
    a[i::s] -> progression, bare / negative / unknown -> all from off.
    """
    params = fi.params
    off = len(params)
    var = fi.vararg
    root = within if within is not None else (
        fi.node.body if fi.is_lambda else fi.node)
    roots = root if isinstance(root, list) else [root]
    out = PosSet()
    for r in roots:
        pm = _parent_map(r)
        for n in ast.walk(r):
            if not (isinstance(n, ast.Name) and isinstance(n.ctx, ast.Load)):
                continue
            if n.id in params:
                out.fixed.add(params.index(n.id))
            elif var is not None and n.id == var:
                par = pm.get(id(n))
                if isinstance(par, ast.Subscript) and par.value is n:
                    sl = par.slice
                    if isinstance(sl, ast.Constant) and isinstance(sl.value, int) \
                            and sl.value >= 0:
                        out.fixed.add(off + sl.value)
                        continue
                    if isinstance(sl, ast.Slice):
                        lo = _cint(sl.lower, 0)
                        st = _cint(sl.step, 1)
                        hi = _cint(sl.upper, None)
                        if lo is not None and lo >= 0 and st is not None and \
                                st > 0 and sl.step is not False:
                            if sl.upper is None:
                                out.progs.append((off + lo, st))
                                continue
                            if hi is not None and hi >= 0:
                                out.fixed.update(
                                    off + i for i in range(lo, hi, st))
                                continue
                out.progs.append((off, 1))
    return out


def _cint(node, default):
    if node is None:
        return default
    if isinstance(node, ast.Constant) and isinstance(node.value, int):
        return node.value
    if isinstance(node, ast.UnaryOp) and isinstance(node.op, ast.USub) and \
            isinstance(node.operand, ast.Constant) and isinstance(
            node.operand.value, int):
        return -node.operand.value
    return None
