"""D5 - order determinism: a choice made from a hash-ordered collection must not escape."""
import ast

from .model import own_nodes, norm_src, AnalysisError
from .cfg import CFG

SET_METHODS = {'intersection', 'union', 'difference', 'symmetric_difference',
               'copy'}
SEQ_WRAPPERS = {'map', 'filter', 'tuple', 'list', 'iter', 'enumerate', 'zip',
                'reversed', 'chain', 'fromkeys', 'dict', 'OrderedDict',
                'deque', 'Counter'}
SANITISERS = {'sorted', 'min', 'max', 'len', 'any', 'all', 'sum', 'bool',
              'frozenset_hash', 'isinstance'}
# package functions whose result order depends on set iteration (reviewed)
UNORDERED_RESULTS = {'simple_cycles': 'cycles are produced in the iteration '
                                      'order of successor sets'}
PURE_BUILTINS = {'isinstance', 'len', 'any', 'all', 'bool', 'int', 'str',
                 'float', 'tuple', 'list', 'set', 'sorted', 'map', 'zip',
                 'getattr', 'hasattr', 'min', 'max', 'repr', 'format'}


class OrderAnalysis:
    def __init__(self, ctx):
        self.ctx, self.p, self.cg = ctx, ctx.project, ctx.cg
        self.set_attrs = self._set_attrs()

    def _set_attrs(self):
        """Attribute names that hold sets (assigned a syntactically unordered value)."""
        attrs = {}
        for f in self.p.functions.values():
            for n in own_nodes(f):
                if isinstance(n, ast.Assign):
                    for t in n.targets:
                        if isinstance(t, ast.Attribute) and self._syntactic_set(
                                n.value):
                            attrs.setdefault(t.attr, '%s:%d' % (
                                f.module.rel, n.lineno))
        return attrs

    @staticmethod
    def _syntactic_set(e):
        if isinstance(e, (ast.Set, ast.SetComp)):
            return True
        if isinstance(e, ast.Call) and isinstance(e.func, ast.Name) and \
                e.func.id in ('set', 'frozenset'):
            return True
        return False

    # -- typing -----------------------------------------------------------------
    def unordered(self, fi, e, state):
        """True if the iteration order of e may depend on hashing."""
        if e is None:
            return False
        if isinstance(e, (ast.Set, ast.SetComp)):
            return True
        if isinstance(e, ast.Name):
            return state.get(e.id, False)
        if isinstance(e, ast.Attribute):
            return e.attr in self.set_attrs
        if isinstance(e, ast.BinOp) and isinstance(
                e.op, (ast.Sub, ast.BitAnd, ast.BitOr, ast.BitXor)):
            return self.unordered(fi, e.left, state) or self.unordered(
                fi, e.right, state)
        if isinstance(e, ast.IfExp):
            return self.unordered(fi, e.body, state) or self.unordered(
                fi, e.orelse, state)
        if isinstance(e, ast.BoolOp):
            return any(self.unordered(fi, v, state) for v in e.values)
        if isinstance(e, (ast.ListComp, ast.GeneratorExp, ast.DictComp)):
            st2 = dict(state)
            u = False
            for g in e.generators:
                gu = self.unordered(fi, g.iter, st2)
                u = u or gu
                for n in ast.walk(g.target):
                    if isinstance(n, ast.Name):
                        st2[n.id] = False
            return u
        if isinstance(e, ast.Call):
            f = e.func
            name = f.id if isinstance(f, ast.Name) else (
                f.attr if isinstance(f, ast.Attribute) else None)
            if name in ('set', 'frozenset'):
                return True
            if name in SANITISERS:
                return False
            if name in UNORDERED_RESULTS:
                r = self.cg.resolve_name_expr(fi, f) if isinstance(
                    f, (ast.Name, ast.Attribute)) else None
                if r and r[0] == 'func':
                    return True
            if isinstance(f, ast.Attribute):
                if name in SET_METHODS and name != 'copy':
                    return True  # these methods exist on sets only
                if name == 'copy':
                    return self.unordered(fi, f.value, state)
                if name in ('keys', 'values', 'items'):
                    return self.unordered(fi, f.value, state)
            if name in SEQ_WRAPPERS:
                return any(self.unordered(fi, a, state) for a in e.args)
            r = self.cg.resolve_name_expr(fi, f) if isinstance(
                f, (ast.Name, ast.Attribute)) else None
            if r and r[0] in ('func', 'nested') and self.returns_set(r[1]):
                return True
            return False
        if isinstance(e, ast.Starred):
            return self.unordered(fi, e.value, state)
        return False

    def returns_set(self, g):
        """Package function all of whose returns are syntactically sets."""
        if g.is_lambda:
            rets = [g.node.body]
        else:
            rets = [n.value for n in own_nodes(g)
                    if isinstance(n, ast.Return) and n.value is not None]
        return bool(rets) and all(isinstance(r, (ast.Set, ast.SetComp)) or
                                  self._syntactic_set(r) for r in rets)

    @staticmethod
    def _elements_are_sets(it):
        """`map(set, X)` / `[set(x) for ...]`: the elements are sets."""
        while isinstance(it, ast.Call) and isinstance(it.func, ast.Name) and \
                it.func.id in ('sorted', 'list', 'tuple', 'reversed') and it.args:
            it = it.args[0]
        if isinstance(it, ast.Call) and isinstance(it.func, ast.Name) and \
                it.func.id == 'map' and it.args and isinstance(
                it.args[0], ast.Name) and it.args[0].id in ('set', 'frozenset'):
            return True
        return False

    def states(self, fi):
        cfg = CFG(fi)

        def join(a, b):
            if a == b:
                return a
            r = dict(a)
            for k, v in b.items():
                r[k] = r.get(k, False) or v
            return r

        def bind(t, val, st):
            if isinstance(t, ast.Name):
                st[t.id] = val
            elif isinstance(t, (ast.Tuple, ast.List)):
                for x in t.elts:
                    bind(x, False, st)

        def transfer(node, state):
            a = node.ast
            if a is None:
                return state
            st = dict(state)
            if node.kind == 'iter':
                bind(a.target, self._elements_are_sets(a.iter), st)
                return st
            if isinstance(a, ast.Assign):
                u = self.unordered(fi, a.value, st)
                for t in a.targets:
                    if isinstance(t, (ast.Tuple, ast.List)) and isinstance(
                            a.value, (ast.Tuple, ast.List)) and len(
                            t.elts) == len(a.value.elts):
                        for tt, vv in zip(t.elts, a.value.elts):
                            bind(tt, self.unordered(fi, vv, state), st)
                    else:
                        bind(t, u, st)
                return st
            if isinstance(a, ast.AugAssign) and isinstance(a.target, ast.Name):
                st[a.target.id] = st.get(a.target.id, False) or \
                    self.unordered(fi, a.value, st)
                return st
            if isinstance(a, ast.Expr) and isinstance(a.value, ast.Call) and \
                    isinstance(a.value.func, ast.Attribute) and isinstance(
                    a.value.func.value, ast.Name):
                # lst.extend(U) / lst.append: a list filled in U order
                m = a.value.func.attr
                nm = a.value.func.value.id
                if m in ('extend', 'update') and any(
                        self.unordered(fi, x, st) for x in a.value.args) and \
                        not st.get(nm, False) and m == 'extend':
                    st[nm] = True
                return st
            return st

        init = {}
        IN = cfg.forward(init, transfer, join)
        return cfg, IN

    # -- the rule ----------------------------------------------------------------
    def analyse(self, fi):
        """Returns (sites, findings): sites = list of dict describing every
        unordered iteration / selection examined; findings = list of dict."""
        cfg, IN = self.states(fi)
        sites, findings = [], []
        E = self.ctx.effects

        def state_of(astnode):
            n = cfg.node_of(astnode)
            return IN.get(n.id, {}) if n is not None else {}

        # (a) loops over unordered collections
        for n in own_nodes(fi):
            if isinstance(n, ast.For):
                st = state_of(n)
                if isinstance(n.iter, ast.Call) and isinstance(
                        n.iter.func, ast.Name) and n.iter.func.id == 'sorted' \
                        and n.iter.args and self.unordered(
                        fi, n.iter.args[0], st):
                    sites.append({
                        'kind': 'loop', 'line': n.lineno,
                        'iter': norm_src(n.iter), 'function': fi.fq,
                        'exits': len(self._exits(n.body)),
                        'verdict': 'hash-ordered collection is sorted before '
                                   'iteration'})
                    continue
                if not self.unordered(fi, n.iter, st):
                    continue
                site = {'kind': 'loop', 'line': n.lineno, 'iter': norm_src(n.iter),
                        'function': fi.fq}
                targets = {x.id for x in ast.walk(n.target)
                           if isinstance(x, ast.Name)}
                derived = self._derived(n.body, targets)
                exits = self._exits(n.body)
                site['exits'] = len(exits)
                verdict = 'no early exit: every element is visited'
                for ex, guards, before in exits:
                    why = self._escape(fi, n, ex, guards, before, derived, E)
                    if why:
                        findings.append({
                            'kind': 'choice-escapes', 'line': ex.lineno,
                            'loop_line': n.lineno, 'iter': norm_src(n.iter),
                            'why': why, 'function': fi})
                        verdict = 'ESCAPES: ' + why
                        break
                    verdict = 'early exit does not expose the chosen element'
                site['verdict'] = verdict
                sites.append(site)
        # (a') short-circuiting reducers over a hash-ordered collection whose
        # per-element callable has side effects: which elements are visited
        # before the reducer stops depends on the iteration order
        for n in own_nodes(fi):
            if not (isinstance(n, ast.Call) and isinstance(n.func, ast.Name)
                    and n.func.id in ('any', 'all', 'next') and n.args):
                continue
            a = n.args[0]
            st = state_of(n)
            coll, callee_exprs = None, []
            if isinstance(a, ast.Call) and isinstance(a.func, ast.Name) and \
                    a.func.id in ('map', 'filter') and len(a.args) >= 2:
                if any(self.unordered(fi, x, st) for x in a.args[1:]):
                    coll, callee_exprs = a.args[1], [a.args[0]]
            elif isinstance(a, ast.GeneratorExp):
                if any(self.unordered(fi, g.iter, st) for g in a.generators):
                    coll = a.generators[0].iter
                    callee_exprs = [c.func for c in ast.walk(a.elt)
                                    if isinstance(c, ast.Call)]
                    for g in a.generators:
                        for cond in g.ifs:
                            callee_exprs += [c.func for c in ast.walk(cond)
                                             if isinstance(c, ast.Call)]
            if coll is None:
                continue
            site = {'kind': 'reducer', 'line': n.lineno, 'expr': norm_src(n)[:80],
                    'function': fi.fq}
            impure = None
            for ce in callee_exprs:
                for g in self._callable_funcs(fi, ce):
                    sm = E.summ.get(g.fq)
                    if sm and (any(not k.startswith('^') for k in sm.mutates)
                               or sm.global_writes):
                        impure = g
            if impure is not None:
                site['verdict'] = 'ESCAPES: side effects of %s' % impure.qualname
                findings.append({
                    'kind': 'choice-escapes', 'line': n.lineno,
                    'loop_line': n.lineno, 'iter': norm_src(coll),
                    'function': fi,
                    'why': '`%s(...)` stops at the first decisive element of '
                           'the hash-ordered `%s`, and the per-element call to '
                           '%s writes to its arguments: which elements get '
                           'processed depends on the hash order' % (
                               n.func.id, norm_src(coll), impure.qualname)})
            else:
                site['verdict'] = 'per-element test has no side effects: the ' \
                                  'reduced value is order-independent'
            sites.append(site)
        # (b) first-element selections
        for n in own_nodes(fi):
            sel = self._selection(fi, n, state_of)
            if sel is None:
                continue
            coll, how = sel
            site = {'kind': 'selection', 'line': n.lineno, 'expr': norm_src(n),
                    'function': fi.fq}
            if self._len_one_guard(fi, cfg, n, coll):
                site['verdict'] = 'dominated by a len(%s) == 1 test' % norm_src(coll)
            else:
                site['verdict'] = 'UNGUARDED'
                findings.append({
                    'kind': 'selection', 'line': n.lineno,
                    'iter': norm_src(coll), 'function': fi,
                    'why': '%s picks an arbitrary element of the hash-ordered '
                           '`%s`' % (how, norm_src(coll))})
            sites.append(site)
        return sites, findings

    def _derived(self, body, seeds):
        d = set(seeds)
        changed = True
        while changed:
            changed = False
            for st in body:
                for n in ast.walk(st):
                    if isinstance(n, ast.Assign):
                        if any(isinstance(x, ast.Name) and x.id in d
                               for x in ast.walk(n.value)):
                            for t in n.targets:
                                for x in ast.walk(t):
                                    if isinstance(x, ast.Name) and x.id not in d:
                                        d.add(x.id)
                                        changed = True
                    elif isinstance(n, (ast.For, ast.comprehension)):
                        if any(isinstance(x, ast.Name) and x.id in d
                               for x in ast.walk(n.iter)):
                            for x in ast.walk(n.target):
                                if isinstance(x, ast.Name) and x.id not in d:
                                    d.add(x.id)
                                    changed = True
        return d

    def _exits(self, body, guards=()):
        """[(exit stmt, guard tests, statements before it in its block)] for
        break/return that leave *this* loop."""
        out = []

        def rec(stmts, guards, in_inner_loop):
            for i, st in enumerate(stmts):
                if isinstance(st, ast.Return):
                    out.append((st, guards, stmts[:i]))
                elif isinstance(st, ast.Break) and not in_inner_loop:
                    out.append((st, guards, stmts[:i]))
                elif isinstance(st, ast.If):
                    rec(st.body, guards + (st.test,), in_inner_loop)
                    rec(st.orelse, guards + (st.test,), in_inner_loop)
                elif isinstance(st, (ast.For, ast.While)):
                    rec(st.body, guards, True)
                    rec(st.orelse, guards, in_inner_loop)
                elif isinstance(st, ast.Try):
                    rec(st.body, guards, in_inner_loop)
                    for h in st.handlers:
                        rec(h.body, guards, in_inner_loop)
                    rec(st.orelse, guards, in_inner_loop)
                    rec(st.finalbody, guards, in_inner_loop)
                elif isinstance(st, ast.With):
                    rec(st.body, guards, in_inner_loop)

        rec(body, tuple(guards), False)
        return out

    def _uses(self, node, names):
        return any(isinstance(x, ast.Name) and x.id in names and isinstance(
            x.ctx, ast.Load) for x in ast.walk(node))

    def _escape(self, fi, loop, ex, guards, before, derived, E):
        # (i) returning data derived from the chosen element
        if isinstance(ex, ast.Return) and ex.value is not None and \
                self._uses(ex.value, derived):
            return 'the element chosen by the early `return` flows into the ' \
                   'return value `%s`' % norm_src(ex.value)
        # (iii) side effects with derived data on the exiting path
        for st in before:
            if isinstance(st, (ast.Assign, ast.AugAssign, ast.Expr, ast.Delete)) \
                    and self._uses(st, derived):
                return 'statement `%s` on the exiting path uses the chosen ' \
                       'element' % norm_src(st)[:80]
        for g in guards:
            for c in ast.walk(g):
                if isinstance(c, ast.Call) and self._uses(c, derived):
                    if self._impure_call(fi, c, E):
                        return 'the exit test calls `%s` with the chosen ' \
                               'element and that call has side effects' % \
                               norm_src(c.func)
        # (ii) break with derived names live after the loop
        if isinstance(ex, ast.Break):
            end = getattr(loop, 'end_lineno', loop.lineno)
            for n in own_nodes(fi):
                if isinstance(n, ast.Name) and isinstance(n.ctx, ast.Load) and \
                        n.id in derived and n.lineno > end:
                    # ignore if rebound by a later loop/assignment first
                    if not self._rebound_before(fi, n, end):
                        return 'loop variable `%s` is read after the loop ' \
                               '(line %d)' % (n.id, n.lineno)
            for st in loop.orelse:
                if self._uses(st, derived):
                    return 'loop variable used in the loop `else`'
        return None

    def _rebound_before(self, fi, use, after_line):
        for n in own_nodes(fi):
            if isinstance(n, ast.Name) and n.id == use.id and isinstance(
                    n.ctx, ast.Store) and after_line < n.lineno <= use.lineno:
                return True
        return False

    def _impure_call(self, fi, call, E):
        f = call.func
        if isinstance(f, ast.Name) and f.id in PURE_BUILTINS:
            return False
        for ed in self.cg._resolve_callee(fi, f, call, 'call'):
            if ed.is_ext or ed.precision != 'exact':
                continue
            s = E.summ.get(ed.dst.fq)
            if s and (any(not k.startswith('^') for k in s.mutates) or
                      s.global_writes):
                return True
        return False

    def _callable_funcs(self, fi, e, depth=0):
        """Package functions a callable expression may stand for (through local
        functools.partial bindings and lambdas)."""
        out = []
        if depth > 3:
            return out
        if isinstance(e, ast.Lambda):
            for c in ast.walk(e.body):
                if isinstance(c, ast.Call):
                    out += self._callable_funcs(fi, c.func, depth + 1)
            return out
        if isinstance(e, ast.Call) and isinstance(e.func, (ast.Name, ast.Attribute)):
            r = self.cg.resolve_name_expr(fi, e.func)
            if r and r[0] == 'ext' and r[1] == 'functools.partial' and e.args:
                return self._callable_funcs(fi, e.args[0], depth + 1)
            return out
        if isinstance(e, (ast.Name, ast.Attribute)):
            r = self.cg.resolve_name_expr(fi, e)
            if r and r[0] in ('func', 'nested'):
                return [r[1]]
            if isinstance(e, ast.Name):
                from .util import assigned_value
                for v in assigned_value(fi, e.id):
                    out += self._callable_funcs(fi, v, depth + 1)
        return out

    def _selection(self, fi, n, state_of):
        """(collection expr, description) if n selects one element of a U collection."""
        # list(U)[k] / tuple(U)[k]
        if isinstance(n, ast.Subscript) and isinstance(n.value, ast.Call) and \
                isinstance(n.value.func, ast.Name) and n.value.func.id in (
                'list', 'tuple') and n.value.args and isinstance(
                n.slice, ast.Constant):
            coll = n.value.args[0]
            if self.unordered(fi, coll, state_of(n)):
                return coll, '%s(...)[%r]' % (n.value.func.id, n.slice.value)
        if isinstance(n, ast.Call):
            f = n.func
            # next(iter(U))
            if isinstance(f, ast.Name) and f.id == 'next' and n.args and \
                    isinstance(n.args[0], ast.Call) and isinstance(
                    n.args[0].func, ast.Name) and n.args[0].func.id == 'iter' \
                    and n.args[0].args:
                coll = n.args[0].args[0]
                if self.unordered(fi, coll, state_of(n)):
                    return coll, 'next(iter(...))'
            # U.pop() with the value used
            if isinstance(f, ast.Attribute) and f.attr == 'pop' and not n.args:
                if self.unordered(fi, f.value, state_of(n)) and \
                        self._value_used(fi, n) and not self._drain_all(fi, n):
                    return f.value, '.pop()'
        return None

    def _drain_all(self, fi, call):
        """`while S: x = S.pop() ...` with no break/return: every element is
        processed, the order of a work-list over a set is immaterial."""
        text = norm_src(call.func.value)
        for n in own_nodes(fi):
            if isinstance(n, ast.While) and norm_src(n.test) == text and any(
                    x is call for s in n.body for x in ast.walk(s)):
                exits = self._exits(n.body)
                return not exits
        return False

    def _value_used(self, fi, call):
        for n in own_nodes(fi):
            if isinstance(n, ast.Expr) and n.value is call:
                return False
        return True

    def _len_one_guard(self, fi, cfg, node, coll):
        text = norm_src(coll)
        dom = cfg.dominators()
        target = cfg.node_of(node)
        if target is None:
            return False
        for cn in cfg.nodes:
            if cn.kind != 'test' or cn.ast is None:
                continue
            for c in ast.walk(cn.ast):
                if isinstance(c, ast.Compare) and len(c.ops) == 1 and \
                        isinstance(c.ops[0], ast.Eq) and isinstance(
                        c.left, ast.Call) and isinstance(c.left.func, ast.Name) \
                        and c.left.func.id == 'len' and c.left.args and \
                        norm_src(c.left.args[0]) == text and isinstance(
                        c.comparators[0], ast.Constant) and \
                        c.comparators[0].value == 1:
                    # the selection must be on the true branch of this test
                    for s, label in cn.succ:
                        if label == 'true' and (s is target or cfg.dominates(
                                s, target, dom)):
                            return True
        return False
