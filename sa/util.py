"""Small AST helpers shared by the rules."""
import ast

from .model import AnalysisError, own_nodes, norm_src


def src(node):
    return norm_src(node)


def key_of(fi, what):
    """Construct key: file::qualname::normalised construct (never a line number)."""
    return '%s::%s::%s' % (fi.module.rel, fi.qualname, what)


def mkey(module, what):
    return '%s::%s' % (module.rel, what)


def resolve(ctx, fi, expr):
    """Resolve an expression in function scope to a canonical description.

    Returns ('ext', dotted) | ('func', FuncInfo) | ('class', ClassInfo) |
    ('var', Module, name) | ('local', fi, name) | None
    """
    if isinstance(expr, (ast.Name, ast.Attribute)):
        return ctx.cg.resolve_name_expr(fi, expr)
    return None


def is_ext(ctx, fi, expr, dotted):
    r = resolve(ctx, fi, expr)
    if r and r[0] == 'ext':
        if isinstance(dotted, (tuple, list, set)):
            return r[1] in dotted
        return r[1] == dotted
    return False


def module_token(ctx, fi, expr):
    """If expr names a module-level sh.Token/XlError instance, return its TokenV."""
    from .peval import TokenV
    r = resolve(ctx, fi, expr)
    if r and r[0] == 'var':
        av = ctx.ev.module_env(r[1]).get(r[2])
        if isinstance(av, TokenV):
            return av
    return None


def calls_in(fi, pred=None):
    for n in own_nodes(fi):
        if isinstance(n, ast.Call) and (pred is None or pred(n)):
            yield n


def call_name(call):
    f = call.func
    if isinstance(f, ast.Name):
        return f.id
    if isinstance(f, ast.Attribute):
        return f.attr
    return None


def kwarg(call, name):
    for k in call.keywords:
        if k.arg == name:
            return k.value
    return None


def stmts_of(fi):
    """All statements in the function's own body (recursively, not nested defs)."""
    out = []

    def rec(body):
        for st in body:
            out.append(st)
            for fld in ('body', 'orelse', 'finalbody'):
                sub = getattr(st, fld, None)
                if isinstance(sub, list) and sub and isinstance(sub[0], ast.stmt) \
                        and not isinstance(st, (ast.FunctionDef, ast.ClassDef,
                                                ast.AsyncFunctionDef)):
                    rec(sub)
            for h in getattr(st, 'handlers', []) or []:
                rec(h.body)
            for c in getattr(st, 'cases', []) or []:
                rec(c.body)

    rec(fi.body)
    return out


def names_in(node):
    return {n.id for n in ast.walk(node) if isinstance(n, ast.Name)}


def const_str(node):
    if isinstance(node, ast.Constant) and isinstance(node.value, str):
        return node.value
    return None


def strip_not(test):
    """Return (expr, negated) with leading `not`s removed."""
    neg = False
    while isinstance(test, ast.UnaryOp) and isinstance(test.op, ast.Not):
        test, neg = test.operand, not neg
    return test, neg


def need(cond, msg):
    if not cond:
        raise AnalysisError(msg)


def subscript_key(node):
    """Constant key of a Subscript node, else None."""
    if isinstance(node, ast.Subscript):
        s = node.slice
        if isinstance(s, ast.Constant):
            return s.value
    return None


def assigned_value(fi, name):
    """Value nodes assigned to a local name in fi (simple `name = value`)."""
    vals = []
    for n in own_nodes(fi):
        if isinstance(n, ast.Assign):
            for t in n.targets:
                if isinstance(t, ast.Name) and t.id == name:
                    vals.append(n.value)
                elif isinstance(t, (ast.Tuple, ast.List)) and isinstance(
                        n.value, (ast.Tuple, ast.List)) and len(t.elts) == len(
                        n.value.elts):
                    for tt, vv in zip(t.elts, n.value.elts):
                        if isinstance(tt, ast.Name) and tt.id == name:
                            vals.append(vv)
    return vals


def assign_pairs(fi):
    """(target, value, stmt) for every assignment in fi, tuple unpacking split."""
    out = []
    for n in own_nodes(fi):
        if isinstance(n, ast.Assign):
            for t in n.targets:
                if isinstance(t, (ast.Tuple, ast.List)) and isinstance(
                        n.value, (ast.Tuple, ast.List)) and len(t.elts) == len(
                        n.value.elts):
                    for tt, vv in zip(t.elts, n.value.elts):
                        out.append((tt, vv, n))
                else:
                    out.append((t, n.value, n))
        elif isinstance(n, ast.AugAssign):
            out.append((n.target, n.value, n))
    return out


def bound_arg(ctx, fi, call, pos, name=None):
    """The argument a call passes for the callee's `pos`-th parameter (counted
    without self), whether it is written positionally or as a keyword.  The
    parameter name comes from the callee's definition when the call resolves to
    one package function, else from `name`."""
    if pos < len(call.args) and not any(
            isinstance(a, ast.Starred) for a in call.args[:pos + 1]):
        return call.args[pos]
    names = set()
    if name:
        names.add(name)
    try:
        edges = ctx.cg._resolve_callee(fi, call.func, call, 'call')
    except Exception:
        edges = []
    for ed in edges:
        if ed.is_ext:
            continue
        g = ed.dst
        params = list(g.params)
        if g.cls is not None and g.parent is None and params and not any(
                isinstance(d, ast.Name) and d.id == 'staticmethod'
                for d in g.decorators()):
            params = params[1:]
        if g.name == '__init__' and params and g.cls is not None and \
                params[0] == g.params[0]:
            params = params[1:]
        if pos < len(params):
            names.add(params[pos])
    for k in call.keywords:
        if k.arg in names:
            return k.value
    return None


def n_bound_args(call):
    return len(call.args) + sum(1 for k in call.keywords if k.arg is not None)


def with_helpers(ctx, f, depth=2):
    """f and the private helpers it delegates to: functions or methods of the
    same module whose name starts with `_` (not dunder) and that f - or such a
    helper - calls with an exactly resolved call.  Extracting part of a long
    function into a helper must not hide that part from a rule that looks for
    a construct "in f"."""
    out, work = [f], [(f, 0)]
    while work:
        g, d = work.pop()
        if d >= depth:
            continue
        for e in ctx.cg.out(g):
            if e.is_ext or e.kind != 'call' or e.precision != 'exact':
                continue
            h = e.dst
            if h.module is f.module and h not in out and h.name.startswith(
                    '_') and not h.name.startswith('__') and not h.is_lambda:
                out.append(h)
                work.append((h, d + 1))
    return out


def nodes_with_helpers(ctx, f, depth=2):
    """(function, node) over f and its private helpers."""
    for g in with_helpers(ctx, f, depth):
        for n in own_nodes(g):
            yield g, n


def template_of(node):
    """(template, [argument expressions]) for the three spellings of string
    formatting with a constant template - `'%s(%s)' % (a, b)`,
    `'{}({})'.format(a, b)`, `f'{a}({b})'` - with every placeholder written
    `{}`; None for anything else (conversions/format specs included)."""
    import re as _re
    if isinstance(node, ast.BinOp) and isinstance(node.op, ast.Mod) and \
            isinstance(node.left, ast.Constant) and isinstance(
            node.left.value, str):
        t = node.left.value
        if _re.search(r'%[^s%]', t):
            return None
        args = list(node.right.elts) if isinstance(node.right, ast.Tuple) \
            else [node.right]
        parts = _re.split(r'(%s|%%)', t)
        out, n = '', 0
        for p_ in parts:
            if p_ == '%s':
                out += '{}'
                n += 1
            elif p_ == '%%':
                out += '%'
            else:
                out += p_.replace('{', '{{').replace('}', '}}')
        return (out, args) if n == len(args) else None
    if isinstance(node, ast.Call) and isinstance(node.func, ast.Attribute) and \
            node.func.attr == 'format' and isinstance(
            node.func.value, ast.Constant) and isinstance(
            node.func.value.value, str) and not node.keywords:
        t = node.func.value.value
        if _re.search(r'\{[^{}]+\}', t):
            return None
        return t, list(node.args)
    if isinstance(node, ast.JoinedStr):
        out, args = '', []
        for v in node.values:
            if isinstance(v, ast.Constant):
                out += str(v.value).replace('{', '{{').replace('}', '}}')
            elif isinstance(v, ast.FormattedValue):
                if v.conversion not in (-1, 115) or v.format_spec is not None:
                    return None
                out += '{}'
                args.append(v.value)
            else:
                return None
        return out, args
    return None


def _terminates(stmts):
    """A statement list that never falls through (ends in return / raise /
    continue / break)."""
    return bool(stmts) and isinstance(
        stmts[-1], (ast.Return, ast.Raise, ast.Continue, ast.Break))


def path_conditions(f, node):
    """[(test expression, polarity)] that hold whenever control reaches `node`
    in function f, read off the syntax: the tests of the enclosing `if`s (True
    in the body, False in the else arm) *and* the guard clauses before it - an
    earlier statement `if c: ...return/raise/continue/break` of an enclosing
    block contributes (c, False), an `if c: ... else: <terminates>`
    contributes (c, True).  The same list comes out whether the code nests
    its conditions or leaves early."""
    out = []

    def rec(stmts, conds):
        acc = list(conds)
        for st in stmts:
            if st is node or any(x is node for x in _head_nodes(st)):
                out.extend(acc)
                return True
            for fld in ('body', 'orelse', 'finalbody'):
                sub = getattr(st, fld, None)
                if not (isinstance(sub, list) and sub and isinstance(
                        sub[0], ast.stmt)):
                    continue
                c2 = list(acc)
                if isinstance(st, ast.If):
                    c2.append((st.test, fld == 'body'))
                if rec(sub, c2):
                    return True
            for h in getattr(st, 'handlers', []) or []:
                if rec(h.body, acc):
                    return True
            if isinstance(st, ast.If):
                if _terminates(st.body) and not _terminates(st.orelse):
                    acc.append((st.test, False))
                elif st.orelse and _terminates(st.orelse) and \
                        not _terminates(st.body):
                    acc.append((st.test, True))
        return False

    def _head_nodes(st):
        res = []
        for name, val in ast.iter_fields(st):
            if name in ('body', 'orelse', 'finalbody', 'handlers', 'cases'):
                continue
            vals = val if isinstance(val, list) else [val]
            for v in vals:
                if isinstance(v, ast.AST):
                    res.extend(ast.walk(v))
        res.append(st)
        return res

    rec(f.body, [])
    # a conjunction that holds is each conjunct holding; a disjunction that
    # does not hold is each disjunct not holding
    work, flat = list(out), []
    while work:
        t, pol = work.pop(0)
        while isinstance(t, ast.UnaryOp) and isinstance(t.op, ast.Not):
            t, pol = t.operand, not pol
        if isinstance(t, ast.BoolOp) and (
                isinstance(t.op, ast.And) and pol or
                isinstance(t.op, ast.Or) and not pol):
            work = [(v, pol) for v in t.values] + work
        else:
            flat.append((t, pol))
    out = flat
    # one polarity: `not x` holding is `x` not holding
    norm = []
    for t, pol in out:
        while isinstance(t, ast.UnaryOp) and isinstance(t.op, ast.Not):
            t, pol = t.operand, not pol
        flip = {ast.NotEq: ast.Eq, ast.IsNot: ast.Is, ast.NotIn: ast.In}
        if isinstance(t, ast.Compare) and len(t.ops) == 1 and type(
                t.ops[0]) in flip:
            import copy
            t = copy.copy(t)
            t.ops = [flip[type(t.ops[0])]()]
            pol = not pol
        norm.append((t, pol))
    return norm
