"""Small AST helpers shared by the rules."""
import ast

from .model import AnalysisError, own_nodes, norm_src


def src(node):
    return norm_src(node)


def key_of(fi, what):
    """Construct key: file::qualname::normalised construct (never a line number)."""
    return '%s::%s::%s' % (fi.module.rel, fi.qualname, what)


def mkey(module, what):
    return '%s::%s' % (module.rel, what)


def resolve(ctx, fi, expr):
    """Resolve an expression in function scope to a canonical description.

    Returns ('ext', dotted) | ('func', FuncInfo) | ('class', ClassInfo) |
    ('var', Module, name) | ('local', fi, name) | None
    """
    if isinstance(expr, (ast.Name, ast.Attribute)):
        return ctx.cg.resolve_name_expr(fi, expr)
    return None


def is_ext(ctx, fi, expr, dotted):
    r = resolve(ctx, fi, expr)
    if r and r[0] == 'ext':
        if isinstance(dotted, (tuple, list, set)):
            return r[1] in dotted
        return r[1] == dotted
    return False


def module_token(ctx, fi, expr):
    """If expr names a module-level sh.Token/XlError instance, return its TokenV."""
    from .peval import TokenV
    r = resolve(ctx, fi, expr)
    if r and r[0] == 'var':
        av = ctx.ev.module_env(r[1]).get(r[2])
        if isinstance(av, TokenV):
            return av
    return None


def calls_in(fi, pred=None):
    for n in own_nodes(fi):
        if isinstance(n, ast.Call) and (pred is None or pred(n)):
            yield n


def call_name(call):
    f = call.func
    if isinstance(f, ast.Name):
        return f.id
    if isinstance(f, ast.Attribute):
        return f.attr
    return None


def kwarg(call, name):
    for k in call.keywords:
        if k.arg == name:
            return k.value
    return None


def stmts_of(fi):
    """All statements in the function's own body (recursively, not nested defs)."""
    out = []

    def rec(body):
        for st in body:
            out.append(st)
            for fld in ('body', 'orelse', 'finalbody'):
                sub = getattr(st, fld, None)
                if isinstance(sub, list) and sub and isinstance(sub[0], ast.stmt) \
                        and not isinstance(st, (ast.FunctionDef, ast.ClassDef,
                                                ast.AsyncFunctionDef)):
                    rec(sub)
            for h in getattr(st, 'handlers', []) or []:
                rec(h.body)
            for c in getattr(st, 'cases', []) or []:
                rec(c.body)

    rec(fi.body)
    return out


def names_in(node):
    return {n.id for n in ast.walk(node) if isinstance(n, ast.Name)}


def const_str(node):
    if isinstance(node, ast.Constant) and isinstance(node.value, str):
        return node.value
    return None


def strip_not(test):
    """Return (expr, negated) with leading `not`s removed."""
    neg = False
    while isinstance(test, ast.UnaryOp) and isinstance(test.op, ast.Not):
        test, neg = test.operand, not neg
    return test, neg


def need(cond, msg):
    if not cond:
        raise AnalysisError(msg)


def subscript_key(node):
    """Constant key of a Subscript node, else None."""
    if isinstance(node, ast.Subscript):
        s = node.slice
        if isinstance(s, ast.Constant):
            return s.value
    return None


def assigned_value(fi, name):
    """Value nodes assigned to a local name in fi (simple `name = value`)."""
    vals = []
    for n in own_nodes(fi):
        if isinstance(n, ast.Assign):
            for t in n.targets:
                if isinstance(t, ast.Name) and t.id == name:
                    vals.append(n.value)
                elif isinstance(t, (ast.Tuple, ast.List)) and isinstance(
                        n.value, (ast.Tuple, ast.List)) and len(t.elts) == len(
                        n.value.elts):
                    for tt, vv in zip(t.elts, n.value.elts):
                        if isinstance(tt, ast.Name) and tt.id == name:
                            vals.append(vv)
    return vals


def assign_pairs(fi):
    """(target, value, stmt) for every assignment in fi, tuple unpacking split."""
    out = []
    for n in own_nodes(fi):
        if isinstance(n, ast.Assign):
            for t in n.targets:
                if isinstance(t, (ast.Tuple, ast.List)) and isinstance(
                        n.value, (ast.Tuple, ast.List)) and len(t.elts) == len(
                        n.value.elts):
                    for tt, vv in zip(t.elts, n.value.elts):
                        out.append((tt, vv, n))
                else:
                    out.append((t, n.value, n))
        elif isinstance(n, ast.AugAssign):
            out.append((n.target, n.value, n))
    return out


def bound_arg(ctx, fi, call, pos, name=None):
    """The argument a call passes for the callee's `pos`-th parameter (counted
    without self), whether it is written positionally or as a keyword.  The
    parameter name comes from the callee's definition when the call resolves to
    one package function, else from `name`."""
    if pos < len(call.args) and not any(
            isinstance(a, ast.Starred) for a in call.args[:pos + 1]):
        return call.args[pos]
    names = set()
    if name:
        names.add(name)
    try:
        edges = ctx.cg._resolve_callee(fi, call.func, call, 'call')
    except Exception:
        edges = []
    for ed in edges:
        if ed.is_ext:
            continue
        g = ed.dst
        params = list(g.params)
        if g.cls is not None and g.parent is None and params and not any(
                isinstance(d, ast.Name) and d.id == 'staticmethod'
                for d in g.decorators()):
            params = params[1:]
        if g.name == '__init__' and params and g.cls is not None and \
                params[0] == g.params[0]:
            params = params[1:]
        if pos < len(params):
            names.add(params[pos])
    for k in call.keywords:
        if k.arg in names:
            return k.value
    return None


def n_bound_args(call):
    return len(call.args) + sum(1 for k in call.keywords if k.arg is not None)
