"""E5 - effect summaries: in-place writes (alias analysis), global writes, exception escapes."""
import ast
import builtins

from .model import AnalysisError, own_nodes, ClassInfo, FuncInfo, norm_src
from .cfg import CFG, stmt_exprs
from .callgraph import fi_cls

FRESH = frozenset()

# numpy / builtin calls whose result is a new object
FRESH_EXT = {
    'numpy.array', 'numpy.empty', 'numpy.zeros', 'numpy.ones', 'numpy.full',
    'numpy.arange', 'numpy.where', 'numpy.concatenate', 'numpy.tile',
    'numpy.identity', 'numpy.eye', 'numpy.copy', 'numpy.vectorize',
    'numpy.frompyfunc', 'numpy.sum', 'numpy.prod', 'numpy.dot', 'numpy.sort',
    'numpy.argsort', 'numpy.floor', 'numpy.ceil', 'numpy.around', 'numpy.round',
    'numpy.abs', 'numpy.isnan', 'numpy.isinf', 'numpy.isfinite', 'numpy.sqrt',
    'numpy.power', 'numpy.log', 'numpy.exp', 'numpy.mod', 'numpy.median',
    'numpy.percentile', 'numpy.quantile', 'numpy.corrcoef', 'numpy.std',
    'numpy.var', 'numpy.shape', 'numpy.ndim', 'numpy.size', 'numpy.broadcast',
    'numpy.nan_to_num', 'numpy.square', 'numpy.sign', 'numpy.divide',
    'numpy.multiply', 'numpy.resize', 'numpy.array2string', 'numpy.char.upper',
    'numpy.char.lower', 'numpy.logical_not', 'numpy.matrix', 'numpy.errstate',
    'builtins.list', 'builtins.tuple', 'builtins.dict', 'builtins.set',
    'builtins.frozenset', 'builtins.sorted', 'builtins.str', 'builtins.int',
    'builtins.float', 'builtins.bool', 'builtins.len', 'builtins.range',
    'builtins.sum', 'builtins.min', 'builtins.max', 'builtins.abs',
    'builtins.any', 'builtins.all', 'builtins.isinstance', 'builtins.hasattr',
    'builtins.repr', 'builtins.format', 'builtins.hash', 'builtins.round',
    'builtins.type', 'builtins.id', 'builtins.callable', 'builtins.ord',
    'builtins.chr', 'builtins.divmod', 'builtins.bin', 'builtins.oct',
    'builtins.hex', 'builtins.slice', 'builtins.object',
    'copy.deepcopy', 'copy.copy', 'collections.OrderedDict',
    'collections.defaultdict', 'collections.deque', 'collections.Counter',
    'functools.partial', 'functools.update_wrapper', 'math.floor', 'math.ceil',
    'math.trunc', 'itertools.zip_longest', 'schedula.combine_dicts',
    'schedula.selector', 'schedula.bypass', 'schedula.inf',
    'datetime.datetime', 'datetime.timedelta', 'regex.compile', 're.compile',
    'regex.escape', 're.escape', 'regex.sub', 'json.loads', 'json.dumps',
}
# ext calls whose result may alias their first argument
ALIAS_FIRST_EXT = {
    'numpy.asarray', 'numpy.asanyarray', 'numpy.ravel', 'numpy.reshape',
    'numpy.atleast_1d', 'numpy.atleast_2d', 'numpy.squeeze', 'numpy.transpose',
    'numpy.ascontiguousarray', 'numpy.flip', 'numpy.broadcast_to',
    'schedula.get_nested_dicts', 'builtins.iter', 'builtins.next',
    'builtins.reversed', 'builtins.enumerate', 'builtins.getattr',
}
ALIAS_ALL_EXT = {'builtins.map', 'builtins.filter', 'builtins.zip',
                 'itertools.chain', 'builtins.vars'}
# in-place ext functions: which argument they write
MUTATE_EXT = {'numpy.put': 0, 'numpy.copyto': 0, 'numpy.place': 0,
              'numpy.putmask': 0, 'numpy.fill_diagonal': 0,
              'random.shuffle': 0, 'numpy.random.shuffle': 0,
              'builtins.setattr': 0, 'builtins.delattr': 0}
FRESH_METHODS = {
    'copy', 'astype', 'tolist', 'sum', 'mean', 'any', 'all', 'min', 'max',
    'upper', 'lower', 'strip', 'lstrip', 'rstrip', 'split', 'join', 'replace',
    'format', 'startswith', 'endswith', 'find', 'index', 'count', 'zfill',
    'capitalize', 'is_integer', 'isocalendar', 'groupdict', 'groups', 'group',
    'match', 'findall', 'finditer', 'span', 'end', 'encode', 'decode',
    'keys', 'issubset', 'intersection', 'union', 'difference', 'std', 'var',
    'dot', 'nonzero', 'argsort', 'cumsum', 'prod', 'round', 'conj', 'item',
    'title', 'most_common', 'total_seconds', 'isdigit', 'isalpha', 'partition',
}
ALIAS_METHODS = {
    'ravel', 'reshape', 'view', 'squeeze', 'transpose', 'flatten_view',
    'get', 'values', 'items', 'pop', 'popitem', 'setdefault', '__getitem__',
    'swapaxes', 'diagonal',
}
FRESH_SHARED_METHODS = {'shrink_dsp', 'get_sub_dsp', 'get_sub_dsp_from_workflow'}
MUTATING_METHODS = {
    'sort', 'resize', 'fill', 'update', 'append', 'extend', 'insert', 'remove',
    'pop', 'popitem', 'clear', 'setdefault', 'add', 'discard',
    'difference_update', 'intersection_update', 'symmetric_difference_update',
    'put', 'itemset', 'setflags', 'byteswap', '__setitem__', '__delitem__',
    'appendleft', 'popleft', 'extendleft', 'rotate', 'reverse', 'subtract',
    'setfield', 'partition_inplace',
}
SCALAR_ATTRS = {'shape', 'size', 'ndim', 'dtype', 'lineno', 'real_scalar',
                '__name__', '__class__', 'name', 'start', 'stop', 'step'}


class Write:
    __slots__ = ('fi', 'node', 'kind', 'target', 'params', 'is_global',
                 'via')

    def __init__(self, fi, node, kind, target, params, is_global=None,
                 via=None):
        self.fi, self.node, self.kind, self.target = fi, node, kind, target
        self.params, self.is_global, self.via = params, is_global, via

    @property
    def lineno(self):
        return getattr(self.node, 'lineno', None)

    def describe(self):
        s = '%s `%s`' % (self.kind, self.target)
        if self.via:
            s += ' via %s' % self.via
        return s


class FuncSummary:
    def __init__(self, fi):
        self.fi = fi
        self.writes = []  # Write objects (own + propagated from callees)
        self.mutates = {}  # param name -> first Write
        self.global_writes = []  # Write objects on module-level objects
        self.returns_alias = set()  # param names the return value may be
        self.returns_elem = set()  # param names whose objects it may contain
        self.returns_tuple = None  # per-position pairs when every return is an n-tuple
        self._ret_tuples, self._ret_tuples_bad = None, False
        self.returns_fresh_only = True
        self.returns_global = set()  # '@G:' objects the return value may be/hold


class Effects:
    def __init__(self, ctx):
        self.ctx = ctx
        self.p = ctx.project
        self.cg = ctx.cg
        self.summ = {}
        self._cfgs = {}
        self._states = {}
        self.exceptions = None
        for f in self.p.functions.values():
            self.summ[f.fq] = FuncSummary(f)
        self._solve()

    def cfg(self, fi):
        if fi.fq not in self._cfgs:
            self._cfgs[fi.fq] = CFG(fi)
        return self._cfgs[fi.fq]

    # ------------------------------------------------------------------
    # alias / mutation analysis
    # ------------------------------------------------------------------
    def _solve(self):
        funcs = list(self.p.functions.values())
        for it in range(8):
            changed = False
            for f in funcs:
                if self._analyse(f):
                    changed = True
            if not changed:
                break

    def _init_state(self, fi):
        st = {}
        for prm in fi.params + fi.kwonly:
            st[prm] = (frozenset([prm]), FRESH)
        if fi.vararg:  # the tuple itself is fresh, its elements are the caller's
            st[fi.vararg] = (FRESH, frozenset([fi.vararg]))
        if fi.kwarg:
            st[fi.kwarg] = (FRESH, frozenset([fi.kwarg]))
        return st

    def _analyse(self, fi):
        s = self.summ[fi.fq]
        before = (set(s.mutates), len(s.global_writes), set(s.returns_alias),
                  set(s.returns_elem), set(s.returns_global))
        cfg = self.cfg(fi)
        init = self._init_state(fi)

        def join(a, b):
            if a == b:
                return a
            r = dict(a)
            for k, v in b.items():
                r[k] = _u(r[k], v) if k in r else v
            return r

        def transfer(node, state):
            return self._transfer(fi, node, state, record=False)

        IN = cfg.forward(init, transfer, join)
        self._states[fi.fq] = IN
        s.writes = []
        s.mutates = {}
        s.global_writes = []
        s.returns_alias = set()
        s.returns_elem = set()
        s.returns_global = set()
        s._ret_tuples, s._ret_tuples_bad = None, False
        for node in cfg.nodes:
            if node.id in IN:
                self._transfer(fi, node, IN[node.id], record=True)
        old_rt = s.returns_tuple
        s.returns_tuple = None
        if s._ret_tuples and not s._ret_tuples_bad and len(
                {len(t) for t in s._ret_tuples}) == 1:
            n = len(s._ret_tuples[0])
            s.returns_tuple = [
                (frozenset().union(*(t[i][0] for t in s._ret_tuples)),
                 frozenset().union(*(t[i][1] for t in s._ret_tuples)))
                for i in range(n)]
        if old_rt != s.returns_tuple:
            before = None
        after = (set(s.mutates), len(s.global_writes), set(s.returns_alias),
                 set(s.returns_elem), set(s.returns_global))
        return before != after

    # -- expression aliasing ------------------------------------------------
    # An abstract value is a pair (self, elem): the parameters whose *object*
    # the value may be (a write through it mutates them), and the parameters
    # whose objects may be *contained* in it (elements of a fresh container).
    def alias(self, fi, e, state):
        return self.alias2(fi, e, state)[0]

    def alias2(self, fi, e, state):
        E = (FRESH, FRESH)
        if e is None:
            return E
        if isinstance(e, ast.Name):
            if e.id in state:
                return state[e.id]
            if e.id in self.cg.locals_of(fi):
                return E
            f = fi.parent
            while f is not None:
                if e.id in self.cg.locals_of(f):
                    return (frozenset(['^' + e.id]), FRESH)
                f = f.parent
            r = self.p.resolve_global(fi.module, e.id)
            if r and r[0] == 'var':
                return (frozenset(['@G:%s:%s' % (r[1].rel, r[2])]), FRESH)
            return E
        if isinstance(e, ast.Constant):
            return E
        if isinstance(e, ast.Attribute):
            if e.attr in SCALAR_ATTRS:
                return E
            r = self.cg.resolve_name_expr(fi, e)
            if r and r[0] == 'var':
                return (frozenset(['@G:%s:%s' % (r[1].rel, r[2])]), FRESH)
            if r and r[0] in ('ext', 'func', 'class', 'module'):
                return E
            a = self.alias2(fi, e.value, state)
            return (a[0], a[0] | a[1])
        if isinstance(e, ast.Subscript):
            a = self.alias2(fi, e.value, state)
            both = a[0] | a[1]
            return (both, both)
        if isinstance(e, ast.Starred):
            return self.alias2(fi, e.value, state)
        if isinstance(e, (ast.Tuple, ast.List, ast.Set)):
            r = FRESH
            for x in e.elts:
                a = self.alias2(fi, x, state)
                r |= a[0] | a[1]
            return (FRESH, r)
        if isinstance(e, ast.Dict):
            r = FRESH
            for x in e.values:
                if x is not None:
                    a = self.alias2(fi, x, state)
                    r |= a[0] | a[1]
            return (FRESH, r)
        if isinstance(e, ast.IfExp):
            return _u(self.alias2(fi, e.body, state),
                      self.alias2(fi, e.orelse, state))
        if isinstance(e, ast.BoolOp):
            r = E
            for x in e.values:
                r = _u(r, self.alias2(fi, x, state))
            return r
        if isinstance(e, (ast.BinOp, ast.UnaryOp, ast.Compare, ast.JoinedStr,
                          ast.Lambda, ast.FormattedValue)):
            return E
        if isinstance(e, (ast.ListComp, ast.SetComp, ast.GeneratorExp,
                          ast.DictComp)):
            st2 = dict(state)
            for g in e.generators:
                a = self.alias2(fi, g.iter, st2)
                both = a[0] | a[1]
                for n in ast.walk(g.target):
                    if isinstance(n, ast.Name):
                        st2[n.id] = (both, both)
            a = self.alias2(fi, e.value if isinstance(e, ast.DictComp)
                            else e.elt, st2)
            return (FRESH, a[0] | a[1])
        if isinstance(e, ast.NamedExpr):
            return self.alias2(fi, e.value, state)
        if isinstance(e, ast.Await):
            return self.alias2(fi, e.value, state)
        if isinstance(e, ast.Call):
            return self._call_alias(fi, e, state)
        return E

    MEMOISERS = ('functools.lru_cache', 'functools.cache')

    def is_memoised(self, g):
        if any(e.kind == 'decorator' and e.dst in self.MEMOISERS
               for e in self.cg.out(g)):
            return True
        return g.fq in self.call_form_memoised()

    def call_form_memoised(self):
        """fq of the functions wrapped by a memoiser in call form anywhere in
        the package: `h = functools.lru_cache(maxsize=..)(g)`, `lru_cache(g)`,
        at module level or inside a function (a nested g included)."""
        idx = self.__dict__.get('_call_form_memo')
        if idx is not None:
            return idx
        idx = self.__dict__['_call_form_memo'] = {}
        funcs = list(self.cg.p.functions.values())
        for fi in funcs:
            for n in own_nodes(fi):
                if not (isinstance(n, ast.Call) and len(n.args) == 1 and
                        isinstance(n.args[0], (ast.Name, ast.Attribute))):
                    continue
                m = n.func.func if isinstance(n.func, ast.Call) else n.func
                if not isinstance(m, (ast.Name, ast.Attribute)):
                    continue
                r = self.cg.resolve_name_expr(fi, m)
                if not (r and r[0] == 'ext' and r[1] in self.MEMOISERS):
                    continue
                g = self.cg.resolve_name_expr(fi, n.args[0])
                if g and g[0] in ('func', 'nested'):
                    idx[g[1].fq] = (fi, n)
        return idx

    def _callee_infos(self, fi, call):
        """[(FuncInfo, precision)] and [(ext name, precision)] for a call."""
        funcs, exts = [], []
        for ed in self.cg._resolve_callee(fi, call.func, call, 'call'):
            if ed.is_ext:
                exts.append((ed.dst, ed.precision))
            else:
                funcs.append((ed.dst, ed.precision))
        return funcs, exts

    def _bind_args(self, g, call, bound_self):
        """Map callee param name -> list of caller arg expressions."""
        params = list(g.params)
        m = {}
        if bound_self is not None and params:
            m.setdefault(params[0], []).append(bound_self)
            params = params[1:]
        i = 0
        for a in call.args:
            if isinstance(a, ast.Starred):
                for prm in params[i:]:
                    m.setdefault(prm, []).append(('elem', a.value))
                if g.vararg:
                    m.setdefault(g.vararg, []).append(('pack', a.value))
                i = len(params)
                continue
            if i < len(params):
                m.setdefault(params[i], []).append(a)
            elif g.vararg:
                m.setdefault(g.vararg, []).append(('pack', a))
            i += 1
        for k in call.keywords:
            if k.arg is None:
                for prm in g.params + g.kwonly:
                    m.setdefault(prm, []).append(('elem', k.value))
                if g.kwarg:
                    m.setdefault(g.kwarg, []).append(('packelem', k.value))
            elif k.arg in g.params or k.arg in g.kwonly:
                m.setdefault(k.arg, []).append(k.value)
            elif g.kwarg:
                m.setdefault(g.kwarg, []).append(('pack', k.value))
        return m

    def _arg_alias(self, fi, a, state):
        """Alias pair of a bound argument (see _bind_args)."""
        if isinstance(a, tuple):
            how, e = a
            v = self.alias2(fi, e, state)
            if how == 'elem':  # *seq / **map unpacked into parameters
                both = v[0] | v[1]
                return (both, both)
            if how == 'packelem':  # **map re-packed into the callee's **kw
                return (FRESH, v[1])
            return (FRESH, v[0] | v[1])  # packed into *args / **kw container
        return self.alias2(fi, a, state)

    def _bound_self(self, fi, call, g):
        """Receiver expression when `call` invokes method g on an object."""
        if g.cls is not None and g.parent is None and isinstance(
                call.func, ast.Attribute):
            is_static = any(isinstance(d, ast.Name) and d.id in (
                'staticmethod',) for d in g.decorators())
            if is_static:
                return None
            recv = call.func.value
            r = self.cg.resolve_name_expr(fi, recv) if isinstance(
                recv, (ast.Name, ast.Attribute)) else None
            if r and r[0] == 'class':
                return None
            if isinstance(recv, ast.Call) and isinstance(
                    recv.func, ast.Name) and recv.func.id == 'super':
                return ast.Name(id=_self_name(fi) or 'self', ctx=ast.Load())
            return recv
        if g.name == '__init__' and g.cls is not None:
            return ast.Constant(value=None)  # fresh object under construction
        return None

    def memoised_var(self, fi, expr):
        """Description if expr names a module variable bound to a memoised
        callable built in call form (`g = functools.lru_cache(...)(f)`)."""
        if not isinstance(expr, (ast.Name, ast.Attribute)):
            return None
        r = self.cg.resolve_name_expr(fi, expr)
        if not r or r[0] != 'var':
            return None
        from .peval import CallV, Ext
        av = self.cg.ev.module_env(r[1]).get(r[2])
        cur = av
        while isinstance(cur, CallV) and len(cur.args) == 1 and not cur.kw:
            fn = cur.fn.fn if isinstance(cur.fn, CallV) else cur.fn
            if isinstance(fn, Ext) and fn.name in self.MEMOISERS:
                return '%s:%s' % (r[1].rel, r[2])
            cur = cur.args[0]
        return None

    def _call_alias(self, fi, call, state):
        E = (FRESH, FRESH)
        funcs, exts = self._callee_infos(fi, call)
        res = E
        decided = False
        mv = self.memoised_var(fi, call.func)
        if mv is not None:
            tok = frozenset(['@G:<cached result of %s>' % mv])
            res = _u(res, (tok, tok))
        for g, prec in funcs:
            if prec != 'exact':
                continue
            decided = True
            if g.name == '__init__':
                # new object; it may keep references to its arguments
                r = FRESH
                for a in call.args:
                    v = self.alias2(fi, a, state)
                    r |= v[0] | v[1]
                for k in call.keywords:
                    v = self.alias2(fi, k.value, state)
                    r |= v[0] | v[1]
                res = _u(res, (FRESH, r))
                continue
            gs = self.summ.get(g.fq)
            if gs is None:
                continue
            if self.is_memoised(g):
                # the same object is handed to every caller
                tok = frozenset(['@G:%s:<cached result of %s>' % (
                    g.module.rel, g.qualname)])
                res = _u(res, (tok, tok))
            if gs.returns_global:
                tok = frozenset(gs.returns_global)
                res = _u(res, (tok, tok))
            m = self._bind_args(g, call, self._bound_self(fi, call, g))
            for prm in gs.returns_alias:
                for a in m.get(prm, []):
                    v = self._arg_alias(fi, a, state)
                    res = _u(res, v)
            for prm in gs.returns_elem:
                for a in m.get(prm, []):
                    v = self._arg_alias(fi, a, state)
                    res = _u(res, (FRESH, v[0] | v[1]))
        for name, prec in exts:
            if prec != 'exact':
                continue
            decided = True
            if name in FRESH_EXT or name.startswith('numpy.char.'):
                if name in ('builtins.list', 'builtins.tuple', 'builtins.set',
                            'builtins.sorted', 'builtins.dict',
                            'builtins.frozenset', 'collections.OrderedDict',
                            'collections.deque', 'functools.partial',
                            'schedula.combine_dicts', 'schedula.selector',
                            'itertools.zip_longest'):
                    r = FRESH
                    for a in call.args:
                        v = self.alias2(fi, a, state)
                        r |= v[0] | v[1]
                    res = _u(res, (FRESH, r))
                continue
            if name in ALIAS_FIRST_EXT:
                if call.args:
                    res = _u(res, self.alias2(fi, call.args[0], state))
                continue
            if name in ALIAS_ALL_EXT:
                r = FRESH
                for a in call.args:
                    v = self.alias2(fi, a, state)
                    r |= v[0] | v[1]
                res = _u(res, (FRESH, r))
                continue
            if name.startswith('builtins.') and name[9:10].isupper():
                continue  # exception constructors
            last = name.rsplit('.', 1)[-1]
            if last[:1].isupper() and not last.isupper():
                # a class: the new object may keep references to its arguments
                r = FRESH
                for a in call.args:
                    v = self.alias2(fi, a, state)
                    r |= v[0] | v[1]
                for k in call.keywords:
                    v = self.alias2(fi, k.value, state)
                    r |= v[0] | v[1]
                res = _u(res, (FRESH, r))
                continue
            r = FRESH
            for a in call.args:
                v = self.alias2(fi, a, state)
                r |= v[0] | v[1]
            for k in call.keywords:
                v = self.alias2(fi, k.value, state)
                r |= v[0] | v[1]
            res = _u(res, (r, r))
        if decided:
            return res
        if isinstance(call.func, ast.Attribute):
            m = call.func.attr
            if m in FRESH_METHODS:
                return E
            recv = self.alias2(fi, call.func.value, state)
            if m in FRESH_SHARED_METHODS:
                # schedula: a new Dispatcher whose node-attribute dicts are
                # the originals (shallow copy of `nodes`)
                return (FRESH, recv[0] | recv[1])
            if m in ALIAS_METHODS:
                both = recv[0] | recv[1]
                return (both, both)
            r = recv[0] | recv[1]
            for a in call.args:
                v = self.alias2(fi, a, state)
                r |= v[0] | v[1]
            return (r, r)
        r = FRESH
        for a in call.args:
            v = self.alias2(fi, a, state)
            r |= v[0] | v[1]
        for k in call.keywords:
            v = self.alias2(fi, k.value, state)
            r |= v[0] | v[1]
        return (r, r)

    # -- transfer -----------------------------------------------------------
    def _bind(self, target, a, state, fi):
        if isinstance(target, ast.Name):
            state[target.id] = a
        elif isinstance(target, (ast.Tuple, ast.List)):
            both = a[0] | a[1]
            for t in target.elts:
                self._bind(t.value if isinstance(t, ast.Starred) else t,
                           (both, both), state, fi)

    def _store_into(self, fi, target, val, st):
        """`x[...] = v` / `x.a = v`: x now may contain v's objects."""
        base = target.value
        while isinstance(base, (ast.Subscript, ast.Attribute)):
            base = base.value
        if isinstance(base, ast.Name) and base.id in st:
            cur = st[base.id]
            st[base.id] = (cur[0], cur[1] | val[0] | val[1])

    def _transfer(self, fi, node, state, record):
        a = node.ast
        if a is None:
            return state
        st = dict(state)
        if node.kind == 'iter':
            it = self.alias2(fi, a.iter, st)
            if record:
                self._scan_calls(fi, a.iter, st)
            both = it[0] | it[1]
            self._bind(a.target, (both, both), st, fi)
            return st
        if node.kind == 'with':
            for item in a.items:
                if record:
                    self._scan_calls(fi, item.context_expr, st)
                if item.optional_vars is not None:
                    self._bind(item.optional_vars,
                               self.alias2(fi, item.context_expr, st), st, fi)
            return st
        if node.kind == 'handler':
            if a.name:
                st[a.name] = (FRESH, FRESH)
            return st
        if node.kind == 'test':
            if record:
                self._scan_calls(fi, a, st)
            return st
        if isinstance(a, ast.Assign):
            if record:
                self._scan_calls(fi, a.value, st)
            val = self.alias2(fi, a.value, st)
            for t in a.targets:
                if isinstance(t, (ast.Subscript, ast.Attribute)):
                    if record:
                        self._record_store(fi, a, t, st)
                        self._scan_calls(fi, t, st)
                    self._store_into(fi, t, val, st)
                elif isinstance(t, (ast.Tuple, ast.List)):
                    for el in t.elts:
                        if isinstance(el, (ast.Subscript, ast.Attribute)):
                            if record:
                                self._record_store(fi, a, el, st)
                            self._store_into(fi, el, val, st)
                    if isinstance(a.value, (ast.Tuple, ast.List)) and len(
                            a.value.elts) == len(t.elts) and not any(
                            isinstance(x, ast.Starred) for x in
                            list(a.value.elts) + list(t.elts)):
                        for tt, vv in zip(t.elts, a.value.elts):
                            if isinstance(tt, (ast.Name, ast.Tuple, ast.List)):
                                self._bind(tt, self.alias2(fi, vv, state), st,
                                           fi)
                    else:
                        pos = self._call_tuple(fi, a.value, state, len(t.elts))
                        if pos is not None and not any(
                                isinstance(x, ast.Starred) for x in t.elts):
                            for tt, pv in zip(t.elts, pos):
                                if isinstance(tt, (ast.Name, ast.Tuple,
                                                   ast.List)):
                                    self._bind(tt, pv, st, fi)
                        else:
                            self._bind(t, val, st, fi)
                else:
                    self._bind(t, val, st, fi)
            return st
        if isinstance(a, ast.AnnAssign):
            if a.value is not None:
                if record:
                    self._scan_calls(fi, a.value, st)
                self._bind(a.target, self.alias2(fi, a.value, st), st, fi)
            return st
        if isinstance(a, ast.AugAssign):
            if record:
                self._scan_calls(fi, a.value, st)
            t = a.target
            if isinstance(t, (ast.Subscript, ast.Attribute)):
                if record:
                    self._record_store(fi, a, t, st)
            elif isinstance(t, ast.Name):
                al = self.alias2(fi, t, st)[0]
                if record and al and not _immutable_rhs(a.value) and \
                        not self._returns_immutable(fi, a.value) and \
                        not self._immutable_local(fi, a.value):
                    self._record(fi, a, 'augmented assignment', norm_src(t), al)
                v = self.alias2(fi, a.value, st)
                if t.id in st:
                    st[t.id] = (st[t.id][0], st[t.id][1] | v[0] | v[1])
            return st
        if isinstance(a, ast.Delete):
            for t in a.targets:
                if isinstance(t, (ast.Subscript, ast.Attribute)) and record:
                    self._record_store(fi, a, t, st, kind='del')
                elif isinstance(t, ast.Name):
                    st.pop(t.id, None)
            return st
        if isinstance(a, ast.Return):
            if a.value is not None:
                if record:
                    self._scan_calls(fi, a.value, st)
                    al = self.alias2(fi, a.value, st)
                    s = self.summ[fi.fq]
                    if isinstance(a.value, ast.Tuple) and not any(
                            isinstance(x, ast.Starred) for x in a.value.elts):
                        pos = [self.alias2(fi, x, st) for x in a.value.elts]
                        pos = [(frozenset(y for y in p[0] if y[0] not in '@^'),
                                frozenset(y for y in p[1] if y[0] not in '@^'))
                               for p in pos]
                        if s._ret_tuples is None:
                            s._ret_tuples = [pos]
                        else:
                            s._ret_tuples.append(pos)
                    else:
                        s._ret_tuples_bad = True
                    for x in al[0]:
                        if not x.startswith(('@', '^')):
                            s.returns_alias.add(x)
                    for x in al[1]:
                        if not x.startswith(('@', '^')):
                            s.returns_elem.add(x)
                    for x in al[0] | al[1]:
                        if '<cached result of' in x:
                            s.returns_global.add(x)
            return st
        if isinstance(a, (ast.Expr, ast.Raise, ast.Assert)):
            if record:
                for e in ast.iter_child_nodes(a):
                    if isinstance(e, ast.expr):
                        self._scan_calls(fi, e, st)
            if isinstance(a, ast.Expr):
                self._call_stores(fi, a.value, st)
            return st
        if isinstance(a, ast.expr):
            if record:
                self._scan_calls(fi, a, st)
            return st
        return st

    def _returns_immutable(self, fi, e):
        """A call of one package function all of whose return values are of
        an immutable form (tuple(...), a tuple display, a constant): `x += f()`
        then re-binds x, it cannot write into the object x names."""
        if not isinstance(e, ast.Call):
            return False
        funcs, exts = self._callee_infos(fi, e)
        funcs = [g for g, prec in funcs if prec == 'exact']
        if len(funcs) != 1 or exts:
            return False
        rets = [n.value for n in own_nodes(funcs[0])
                if isinstance(n, ast.Return)]
        return bool(rets) and all(
            r is not None and _immutable_rhs(r) for r in rets)

    def _immutable_local(self, fi, e):
        """A local name every binding of which, in this function, is of an
        immutable form (`p = x,`; `p = tuple(...)`): `y += p` re-binds y."""
        if not isinstance(e, ast.Name) or e.id in fi.all_params:
            return False
        binds, other = [], False
        for n in own_nodes(fi):
            if isinstance(n, ast.Assign):
                for t in n.targets:
                    if isinstance(t, ast.Name) and t.id == e.id:
                        binds.append(n.value)
                    elif any(isinstance(x, ast.Name) and x.id == e.id
                             for x in ast.walk(t) if isinstance(
                                 getattr(x, 'ctx', None), ast.Store)):
                        other = True
            elif isinstance(n, ast.Name) and n.id == e.id and isinstance(
                    n.ctx, (ast.Store, ast.Del)):
                pass
            elif isinstance(n, (ast.For, ast.AugAssign, ast.With,
                                ast.NamedExpr, ast.comprehension)):
                t = getattr(n, 'target', None)
                ts = [t] if t is not None else [
                    i.optional_vars for i in getattr(n, 'items', [])
                    if i.optional_vars is not None]
                for t in ts:
                    if any(isinstance(x, ast.Name) and x.id == e.id
                           for x in ast.walk(t)):
                        other = True
        return bool(binds) and not other and all(
            _immutable_rhs(v) or self._returns_immutable(fi, v)
            for v in binds)

    def _call_tuple(self, fi, e, state, n):
        """Per-position alias pairs of a call returning an n-tuple literal."""
        if not isinstance(e, ast.Call):
            return None
        funcs, exts = self._callee_infos(fi, e)
        funcs = [g for g, prec in funcs if prec == 'exact']
        if len(funcs) != 1 or exts:
            return None
        g = funcs[0]
        gs = self.summ.get(g.fq)
        if gs is None or gs.returns_tuple is None or len(gs.returns_tuple) != n:
            return None
        m = self._bind_args(g, e, self._bound_self(fi, e, g))
        out = []
        for ps, pe in gs.returns_tuple:
            r = (FRESH, FRESH)
            for prm in ps:
                for a in m.get(prm, []):
                    r = _u(r, self._arg_alias(fi, a, state))
            for prm in pe:
                for a in m.get(prm, []):
                    v = self._arg_alias(fi, a, state)
                    r = _u(r, (FRESH, v[0] | v[1]))
            out.append(r)
        return out

    def _call_stores(self, fi, e, st):
        """x.append(v) / x.update(v) / x.extend(v): x now may contain v."""
        if isinstance(e, ast.Call) and isinstance(e.func, ast.Attribute) and \
                e.func.attr in ('append', 'extend', 'update', 'add', 'insert',
                                'setdefault', 'appendleft'):
            base = e.func.value
            while isinstance(base, (ast.Subscript, ast.Attribute)):
                base = base.value
            if isinstance(base, ast.Name) and base.id in st:
                r = FRESH
                for a in e.args:
                    v = self.alias2(fi, a, st)
                    r |= v[0] | v[1]
                cur = st[base.id]
                st[base.id] = (cur[0], cur[1] | r)

    def _record(self, fi, node, kind, target, aliases, via=None):
        s = self.summ[fi.fq]
        params = set()
        for x in aliases:
            if x.startswith('@G:'):
                w = Write(fi, node, kind, target, set(), is_global=x[3:],
                          via=via)
                s.global_writes.append(w)
            elif x.startswith('^'):
                params.add(x)
            else:
                params.add(x)
        if params:
            w = Write(fi, node, kind, target, params, via=via)
            s.writes.append(w)
            for prm in params:
                s.mutates.setdefault(prm, w)

    def _record_store(self, fi, stmt, target, state, kind='store'):
        base = target.value
        al = self.alias(fi, base, state)
        if al:
            self._record(fi, stmt, kind, norm_src(target), al)

    def _scan_calls(self, fi, expr, state):
        """Record mutations performed by calls inside expr (not nested lambdas)."""
        stack = [expr]
        while stack:
            n = stack.pop()
            if isinstance(n, ast.Lambda):
                continue
            if isinstance(n, (ast.ListComp, ast.SetComp, ast.GeneratorExp,
                              ast.DictComp)):
                st2 = dict(state)
                for g in n.generators:
                    self._scan_calls(fi, g.iter, st2)
                    a = self.alias2(fi, g.iter, st2)
                    both = a[0] | a[1]
                    for t in ast.walk(g.target):
                        if isinstance(t, ast.Name):
                            st2[t.id] = (both, both)
                    for c in g.ifs:
                        self._scan_calls(fi, c, st2)
                if isinstance(n, ast.DictComp):
                    self._scan_calls(fi, n.key, st2)
                    self._scan_calls(fi, n.value, st2)
                else:
                    self._scan_calls(fi, n.elt, st2)
                continue
            if isinstance(n, ast.Call):
                self._call_effects(fi, n, state)
            stack.extend(ast.iter_child_nodes(n))

    def _call_effects(self, fi, call, state):
        funcs, exts = self._callee_infos(fi, call)
        handled = False
        for g, prec in funcs:
            if prec != 'exact':
                continue
            handled = True
            gs = self.summ.get(g.fq)
            if gs is None:
                continue
            bs = self._bound_self(fi, call, g)
            m = self._bind_args(g, call, bs)
            for prm, w in gs.mutates.items():
                if prm.startswith('^'):
                    # callee writes a closure variable of its definer
                    if g.parent is fi and prm[1:] in state:
                        al = state[prm[1:]][0]
                        if al:
                            self._record(fi, call, 'call', norm_src(call.func),
                                         al, via='%s mutates closure %s' % (
                                             g.qualname, prm[1:]))
                    continue
                for a in m.get(prm, []):
                    al = self._arg_alias(fi, a, state)[0]
                    if al:
                        self._record(
                            fi, call, 'call', norm_src(
                                a[1] if isinstance(a, tuple) else a), al,
                            via='%s mutates its parameter `%s` (%s:%s %s)' % (
                                g.qualname, prm, w.fi.module.rel, w.lineno,
                                w.describe()))
            for w in gs.global_writes:
                s = self.summ[fi.fq]
                if not any(x.is_global == w.is_global and x.node is call
                           for x in s.global_writes):
                    s.global_writes.append(Write(
                        fi, call, 'call', w.target, set(),
                        is_global=w.is_global,
                        via='%s (%s:%s)' % (g.qualname, w.fi.module.rel,
                                            w.lineno)))
        for name, prec in exts:
            if prec != 'exact':
                continue
            handled = True
            if name in MUTATE_EXT:
                i = MUTATE_EXT[name]
                if len(call.args) > i:
                    al = self.alias(fi, call.args[i], state)
                    if al:
                        self._record(fi, call, 'call %s' % name,
                                     norm_src(call.args[i]), al)
            for k in call.keywords:
                if k.arg == 'out' and name.startswith('numpy.'):
                    al = self.alias(fi, k.value, state)
                    if al:
                        self._record(fi, call, 'out= of %s' % name,
                                     norm_src(k.value), al)
        if isinstance(call.func, ast.Attribute) and not handled:
            m = call.func.attr
            if m in MUTATING_METHODS:
                al = self.alias(fi, call.func.value, state)
                if al:
                    self._record(fi, call, 'mutating method .%s()' % m,
                                 norm_src(call.func.value), al)
        elif isinstance(call.func, ast.Attribute) and handled:
            # exact ext method (e.g. list.append via known class)? none today
            pass

    # ------------------------------------------------------------------
    # queries
    # ------------------------------------------------------------------
    def state_at(self, fi, ast_node):
        cfg = self.cfg(fi)
        n = cfg.node_of(ast_node)
        if n is None:
            return None
        return self._states.get(fi.fq, {}).get(n.id)


def _u(a, b):
    return (a[0] | b[0], a[1] | b[1])


def _self_name(fi):
    f = fi
    while f is not None:
        if f.cls is not None and f.parent is None and f.params:
            return f.params[0]
        f = f.parent
    return None


def _immutable_rhs(v):
    """RHS forms for which `x += v` on a compatible x rebinds rather than mutates."""
    if isinstance(v, ast.Constant):
        return True
    if isinstance(v, ast.Tuple):
        return True
    if isinstance(v, ast.Call) and isinstance(v.func, ast.Name) and \
            v.func.id in ('tuple', 'str', 'int', 'float', 'len'):
        return True
    if isinstance(v, (ast.BinOp, ast.UnaryOp, ast.JoinedStr)):
        return True
    return False


# ----------------------------------------------------------------------
# exceptions
# ----------------------------------------------------------------------
class ExcClass:
    """An exception class: package ClassInfo or builtin type."""

    def __init__(self, name, pkg=None, builtin=None):
        self.name, self.pkg, self.builtin = name, pkg, builtin

    def __repr__(self):
        return self.name

    def __hash__(self):
        return hash(self.name)

    def __eq__(self, o):
        return isinstance(o, ExcClass) and o.name == self.name


class Exceptions:
    """D2: which exception classes can leave each function."""

    def __init__(self, ctx, implicit=None, suppress=None, follow=None):
        self.ctx, self.p, self.cg = ctx, ctx.project, ctx.cg
        self.implicit = implicit or {}
        self.suppress = suppress or set()  # {(raise-site key, call-edge key)}
        self.follow = follow or (lambda e: True)
        self.esc = {}  # fq -> dict ExcClass -> witness (list of str)
        self._cls_cache = {}

    # -- class algebra -------------------------------------------------------
    def exc_of_expr(self, fi, e):
        """ExcClass named by a raise/except expression (Name/Attribute/Call)."""
        if isinstance(e, ast.Call):
            e = e.func
        r = self.cg.resolve_name_expr(fi, e) if isinstance(
            e, (ast.Name, ast.Attribute)) else None
        if r is None:
            if isinstance(e, ast.Name) and isinstance(
                    getattr(builtins, e.id, None), type):
                return self.builtin(getattr(builtins, e.id))
            return None
        if r[0] == 'class':
            return ExcClass(r[1].name, pkg=r[1])
        if r[0] == 'ext':
            parts = r[1].split('.')
            if parts[0] == 'builtins' and isinstance(
                    getattr(builtins, parts[-1], None), type):
                return self.builtin(getattr(builtins, parts[-1]))
            return ExcClass(r[1])
        return None

    def builtin(self, t):
        return ExcClass(t.__name__, builtin=t)

    def bases(self, c):
        """All ancestor ExcClasses (including itself)."""
        if c.name in self._cls_cache:
            return self._cls_cache[c.name]
        out = [c]
        if c.pkg is not None:
            for k in self.p.mro(c.pkg):
                if k is not c.pkg:
                    out.append(ExcClass(k.name, pkg=k))
                for b in k.bases:
                    if not isinstance(b, ClassInfo):
                        nm = b.split('.')[-1]
                        t = getattr(builtins, nm, None)
                        if isinstance(t, type) and issubclass(t, BaseException):
                            out.extend(self.builtin(x) for x in t.__mro__
                                       if x is not object)
                        else:
                            out.append(ExcClass(b))
        elif c.builtin is not None:
            out = [self.builtin(x) for x in c.builtin.__mro__ if x is not object]
        else:
            # external exception class: assume it derives from Exception
            out += [self.builtin(Exception), self.builtin(BaseException)]
        self._cls_cache[c.name] = out
        return out

    def is_sub(self, c, base):
        return any(b == base for b in self.bases(c))

    def handler_classes(self, fi, h):
        if h.type is None:
            return [self.builtin(BaseException)]
        elts = h.type.elts if isinstance(h.type, ast.Tuple) else [h.type]
        # a local name bound once to a tuple of classes (`errs = A, B`)
        expanded = []
        for e in elts:
            if isinstance(e, ast.Name) and self.cg.resolve_name_expr(
                    fi, e) in (None,) or (
                    isinstance(e, ast.Name) and (self.cg.resolve_name_expr(
                        fi, e) or ('',))[0] == 'local'):
                from .util import assigned_value
                vals = assigned_value(fi, e.id)
                if len(vals) == 1 and isinstance(vals[0], ast.Tuple):
                    expanded += list(vals[0].elts)
                    continue
            expanded.append(e)
        out = []
        for e in expanded:
            c = self.exc_of_expr(fi, e)
            if c is None:
                raise AnalysisError('%s:%d: cannot resolve exception class %s' % (
                    fi.module.rel, h.lineno, norm_src(e)))
            out.append(c)
        return out

    # -- escape computation ---------------------------------------------------
    # esc[fq] : dict (ExcClass, origin) -> witness path; origin = 'file::function'
    # of the raise statement / implicit raiser.
    def compute(self, roots, funcs=None):
        if funcs is None:
            reach = self.cg.reachable(roots, self.follow)
            funcs = [v[0] for v in reach.values()]
        self.funcs = funcs
        for f in funcs:
            self.esc[f.fq] = {}
        changed, rounds = True, 0
        while changed and rounds < 40:
            changed = False
            rounds += 1
            for f in funcs:
                new = self._escapes(f)
                cur = self.esc[f.fq]
                for k, w in new.items():
                    if k not in cur:
                        cur[k] = w
                        changed = True
        return self.esc

    def classes_of(self, fi):
        """dict class name -> (ExcClass, origin, witness) for one function."""
        out = {}
        for (c, origin), w in self.esc.get(fi.fq, {}).items():
            out.setdefault((c.name, origin), (c, origin, w))
        return out

    def _escapes(self, fi):
        out = {}
        self._walk(fi, fi.body, [], out, None)
        return out

    def _add(self, out, handlers_stack, cls, origin, witness, fi):
        """Raise `cls` at a point enclosed by handlers_stack (innermost last)."""
        if (cls.name, origin) in self.suppress:
            return
        for hs in reversed(handlers_stack):
            for (hclasses, conv) in hs:
                if any(self.is_sub(cls, hc) for hc in hclasses):
                    return  # caught here (handler bodies are walked separately)
        out.setdefault((cls, origin), witness)

    def _walk(self, fi, body, hstack, out, in_handler):
        for st in body:
            if isinstance(st, ast.Try):
                hs = []
                for h in st.handlers:
                    hs.append((self.handler_classes(fi, h), None))
                self._walk(fi, st.body, hstack + [hs], out, in_handler)
                self._walk(fi, st.orelse, hstack, out, in_handler)
                for h, (hc, _) in zip(st.handlers, hs):
                    self._walk(fi, h.body, hstack, out, (h, hc, st, hstack + [hs]))
                self._walk(fi, st.finalbody, hstack, out, in_handler)
                continue
            if isinstance(st, ast.Raise):
                self._raise(fi, st, hstack, out, in_handler)
                continue
            if isinstance(st, ast.Assert):
                self._add(out, hstack, self.builtin(AssertionError),
                          _origin(fi),
                          ['%s:%d assert in %s' % (fi.module.rel, st.lineno,
                                                   fi.qualname)], fi)
            if isinstance(st, (ast.FunctionDef, ast.AsyncFunctionDef,
                               ast.ClassDef)):
                continue
            for e in _own_exprs(st):
                self._expr(fi, e, hstack, out)
            for fld in ('body', 'orelse', 'finalbody'):
                sub = getattr(st, fld, None)
                if isinstance(sub, list) and sub and isinstance(sub[0], ast.stmt):
                    self._walk(fi, sub, hstack, out, in_handler)
            for c in getattr(st, 'cases', []) or []:
                self._walk(fi, c.body, hstack, out, in_handler)

    def _raise(self, fi, st, hstack, out, in_handler):
        where = '%s:%d raise in %s' % (fi.module.rel, st.lineno, fi.qualname)
        if st.exc is None or (in_handler and isinstance(st.exc, ast.Name)
                              and st.exc.id == in_handler[0].name):
            if in_handler is None:
                self._add(out, hstack, self.builtin(RuntimeError), _origin(fi),
                          [where + ' (bare raise outside handler)'], fi)
                return
            h, hclasses, trystmt, inner_stack = in_handler
            sub = {}
            self._walk(fi, trystmt.body, [], sub, None)
            earlier = []
            for hh in trystmt.handlers:
                if hh is h:
                    break
                earlier.extend(self.handler_classes(fi, hh))
            for (c, origin), w in sub.items():
                if any(self.is_sub(c, hc) for hc in hclasses) and not any(
                        self.is_sub(c, ec) for ec in earlier):
                    self._add(out, hstack, c, origin,
                              w + [where + ' (re-raise)'], fi)
            return
        for e in ([st.exc] if not isinstance(st.exc, ast.IfExp) else
                  [st.exc.body, st.exc.orelse]):
            c = self.exc_of_expr(fi, e)
            w = where
            if c is None:
                c = self.builtin(Exception)
                w += ' (unresolved class `%s`)' % norm_src(e)
            self._add(out, hstack, c, _origin(fi), [w], fi)
            if isinstance(e, ast.Call):
                for a in e.args:
                    self._expr(fi, a, hstack, out)

    def _expr(self, fi, e, hstack, out):
        for n in ast.walk(e):
            if isinstance(n, ast.Lambda):
                continue
            if isinstance(n, ast.Call):
                self._call(fi, n, hstack, out)
            elif isinstance(n, ast.Attribute) and isinstance(n.ctx, ast.Load):
                for ed in self.cg._attr_read(fi, n):
                    if not ed.is_ext and ed.kind == 'prop' and self.follow(ed):
                        self._propagate(fi, ed.dst, n, hstack, out)

    def _call(self, fi, call, hstack, out):
        for ed in self.cg._resolve_callee(fi, call.func, call, 'call'):
            if ed.is_ext:
                if ed.dst.startswith('?.') and ed.dst in self.implicit and \
                        not self._dynamic_args(fi, call):
                    continue  # ids are static constants: cannot clash
                for c in self.implicit.get(ed.dst, []):
                    t = getattr(builtins, c, None)
                    # an implicit raiser is identified by the class that makes
                    # the call and the callee, not by the method the call
                    # happens to sit in (extracting a helper keeps the origin)
                    owner = fi
                    while owner.parent is not None:
                        owner = owner.parent
                    org = '%s::%s::%s' % (
                        fi.module.rel, owner.cls.name,
                        ed.dst.split('.')[-1]) if owner.cls is not None \
                        else _origin(fi)
                    self._add(out, hstack,
                              self.builtin(t) if t else ExcClass(c),
                              org,
                              ['%s:%d %s calls %s' % (
                                  fi.module.rel, call.lineno, fi.qualname,
                                  ed.dst)], fi)
                continue
            if not self.follow(ed):
                continue
            self._propagate(fi, ed.dst, call, hstack, out)
        # callables passed as arguments are treated as called here
        for a in list(call.args) + [k.value for k in call.keywords]:
            if isinstance(a, (ast.Name, ast.Attribute)):
                for ed in self.cg._resolve_callee(fi, a, a, 'ref'):
                    if not ed.is_ext and self.follow(ed):
                        self._propagate(fi, ed.dst, call, hstack, out)

    def _dynamic_args(self, fi, call):
        """Does any argument of `call` derive from a local / parameter / self?"""
        loc = self.cg.locals_of(fi)
        for a in list(call.args) + [k.value for k in call.keywords]:
            for n in ast.walk(a):
                if isinstance(n, ast.Name) and n.id in loc:
                    return True
        return False

    def _propagate(self, fi, g, node, hstack, out):
        sub = self.esc.get(g.fq)
        if not sub:
            return
        for (c, origin), w in sub.items():
            self._add(out, hstack, c, origin,
                      w + ['%s:%d %s <- called from %s' % (
                          fi.module.rel, getattr(node, 'lineno', 0),
                          g.qualname, fi.qualname)], fi)


def _origin(fi):
    return '%s::%s' % (fi.module.rel, fi.qualname)


def _own_exprs(st):
    out = []
    for name, val in ast.iter_fields(st):
        if name in ('body', 'orelse', 'finalbody', 'handlers', 'cases'):
            continue
        if isinstance(val, ast.expr):
            out.append(val)
        elif isinstance(val, list):
            for v in val:
                if isinstance(v, ast.expr):
                    out.append(v)
                elif isinstance(v, ast.withitem):
                    out.append(v.context_expr)
                elif isinstance(v, ast.keyword):
                    out.append(v.value)
    return out
