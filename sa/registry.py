"""Registration model (D1): every FUNCTIONS[...] / OPERATORS[...] entry, its wrapper chain and core."""
import ast

from .model import AnalysisError
from .peval import (Evaluator, Const, FuncV, ClassV, Ext, TokenV, CallV, DictV,
                    SeqV, Unknown, BoundV, is_const)

FUNCS_REL = 'formulas/functions/__init__.py'
OPS_REL = 'formulas/functions/operators.py'
WRAPPERS = ('wrap_impure_func', 'wrap_func', 'wrap_ufunc', 'wrap_ranges_func')


TRANSPARENT_DECORATORS = ('functools.lru_cache', 'functools.cache',
                          'functools.wraps')


def undecorate(av):
    """FuncV behind value-preserving decorators (`lru_cache(...)(f)`, `cache(f)`)."""
    while isinstance(av, CallV) and len(av.args) == 1 and not av.kw and \
            isinstance(av.args[0], (FuncV, CallV)):
        fn = av.fn
        if isinstance(fn, CallV):
            fn = fn.fn
        if isinstance(fn, Ext) and fn.name in TRANSPARENT_DECORATORS:
            av = av.args[0]
        else:
            break
    return av


class Core:
    """The innermost callable of a registration."""

    def __init__(self, av):
        self.av = av
        self.bound_args = []
        self.bound_kw = {}
        self.kind = None  # 'func' | 'ext' | 'factory' | 'unknown'
        self.fi = None
        self.ext = None
        self.factory_args = None
        cur = av
        # unfold functools.partial (possibly nested)
        while isinstance(cur, CallV) and isinstance(cur.fn, Ext) and \
                cur.fn.name == 'functools.partial' and cur.args:
            self.bound_args = list(cur.args[1:]) + self.bound_args
            kw = dict(cur.kw)
            kw.update(self.bound_kw)
            self.bound_kw = kw
            cur = cur.args[0]
        cur = undecorate(cur)
        self.target = cur
        if isinstance(cur, FuncV):
            self.kind, self.fi = 'func', cur.fi
        elif isinstance(cur, Ext):
            self.kind, self.ext = 'ext', cur.name
        elif isinstance(cur, CallV) and isinstance(cur.fn, FuncV):
            self.kind, self.fi = 'factory', cur.fn.fi
            self.factory_args = (cur.args, cur.kw)
        elif isinstance(cur, CallV) and isinstance(cur.fn, Ext):
            # e.g. np.vectorize(f, ...) / np.frompyfunc
            self.kind, self.ext = 'extcall', cur.fn.name
        else:
            self.kind = 'unknown'

    def describe(self):
        if self.kind in ('func', 'factory'):
            s = self.fi.fq + ('()' if self.kind == 'factory' else '')
        elif self.kind in ('ext', 'extcall'):
            s = self.ext
        else:
            s = repr(self.av)
        if self.bound_args or self.bound_kw:
            s += ' [partial %d args, kw=%s]' % (
                len(self.bound_args), sorted(self.bound_kw))
        return s


class Reg:
    def __init__(self, table, name, value, module, lineno):
        self.table, self.name, self.value = table, name, value
        self.module, self.lineno = module, lineno
        self.dict_keys = {}
        self.chain = []  # outermost first: list of (wrapper name, CallV)
        self.cfg = {}  # wrap_ufunc configuration (param name -> AV)
        self.wrap_func_kw = {}
        func = value
        if isinstance(value, DictV):
            for k, v in value.items:
                if is_const(k, str):
                    self.dict_keys[k.v] = v
            func = self.dict_keys.get('function', Unknown('dict without function'))
        cur = func
        while isinstance(cur, CallV) and isinstance(cur.fn, FuncV) and \
                cur.fn.fi.module.rel == FUNCS_REL and \
                cur.fn.fi.name in WRAPPERS and cur.fn.fi.parent is None:
            w = cur.fn.fi
            bound = _bind(w, cur.args, cur.kw)
            self.chain.append((w.name, cur, bound))
            if w.name == 'wrap_ufunc':
                self.cfg = bound
            elif w.name == 'wrap_func':
                self.wrap_func_kw = bound
            cur = bound.get('func', Unknown('wrapper without func'))
        self.core = Core(cur)
        self.obj = id(value)

    @property
    def chain_names(self):
        return [c[0] for c in self.chain]

    @property
    def key(self):
        return '%s[%s]' % (self.table, self.name)

    @property
    def site(self):
        return '%s:%d' % (self.module.rel, self.lineno)

    def has(self, wrapper):
        return wrapper in self.chain_names

    def unknowns(self):
        out = []
        _collect_unknown(self.value, out, set())
        return out


def _bind(fi, args, kw):
    """Bind CallV args to the parameter names of a wrapper FuncInfo."""
    params = fi.params
    bound = {}
    for i, a in enumerate(args):
        if i < len(params):
            bound[params[i]] = a
        else:
            bound.setdefault('*', []).append(a)
    for k, v in kw.items():
        bound[k] = v
    return bound


def _collect_unknown(av, out, seen):
    if id(av) in seen:
        return
    seen.add(id(av))
    if isinstance(av, Unknown):
        out.append(av)
    elif isinstance(av, CallV):
        _collect_unknown(av.fn, out, seen)
        for a in av.args:
            _collect_unknown(a, out, seen)
        for a in av.kw.values():
            _collect_unknown(a, out, seen)
    elif isinstance(av, DictV):
        for k, v in av.items:
            _collect_unknown(k, out, seen)
            _collect_unknown(v, out, seen)
    elif isinstance(av, SeqV):
        for e in av.elts:
            _collect_unknown(e, out, seen)
    elif isinstance(av, BoundV):
        _collect_unknown(av.base, out, seen)


class Registry:
    FLOOR_FUNCS = 245
    N_OPS = 18

    def __init__(self, project, ev=None):
        self.p = project
        self.ev = ev or Evaluator(project)
        fm = project.module(FUNCS_REL)
        env = self.ev.module_env(fm)
        sub = env.get('SUBMODULES')
        names = self.ev.iterate(sub) if sub is not None else None
        if not names or not all(is_const(n, str) for n in names):
            raise AnalysisError('cannot extract SUBMODULES list from %s' % FUNCS_REL)
        self.submodules = [n.v for n in names]
        self.functions = {}  # name -> Reg (later submodule wins, then base)
        self.shadowed = []
        self.tables = {}
        for rel_name in self.submodules:
            mname = fm.abs_module(1, rel_name.lstrip('.'))
            m = project.get_module(mname)
            if m is None:
                raise AnalysisError('submodule %s not found' % mname)
            self._load_table(m, 'FUNCTIONS')
        self._load_table(fm, 'FUNCTIONS')
        self.operators = {}
        om = project.module(OPS_REL)
        self._load_table(om, 'OPERATORS', into=self.operators)
        self.logic_operators = self.ev.module_env(om).get('LOGIC_OPERATORS')
        # floors
        if len(self.functions) < self.FLOOR_FUNCS:
            raise AnalysisError('registry floor: %d function names < %d' % (
                len(self.functions), self.FLOOR_FUNCS))
        if len(self.operators) != self.N_OPS:
            raise AnalysisError('registry floor: %d operator keys != %d' % (
                len(self.operators), self.N_OPS))
        bad = []
        for r in self.all():
            for u in r.unknowns():
                bad.append('%s at %s: %s' % (r.key, r.site, u.why))
        if bad:
            raise AnalysisError('unresolved registrations: ' + '; '.join(bad[:8]))
        self.get_functions_factory = None

    def _load_table(self, m, tname, into=None):
        into = self.functions if into is None else into
        env = self.ev.module_env(m)
        d = env.get(tname)
        if not isinstance(d, DictV):
            raise AnalysisError('%s in %s is not a foldable dict (%r)' % (
                tname, m.rel, d))
        self.tables[(m.rel, tname)] = d
        sites = getattr(d, 'sites', {})
        for k, v in d.items:
            if not is_const(k, str):
                raise AnalysisError('non-constant key in %s of %s: %r / %r' % (
                    tname, m.rel, k, v))
            site = sites.get(k.v) or v.site or (m, 0)
            r = Reg(tname, k.v, v, site[0] if site[0] is not None else m,
                    site[1])
            if k.v in into:
                self.shadowed.append(into[k.v])
            into[k.v] = r

    def all(self):
        return list(self.functions.values()) + list(self.operators.values())

    def distinct_objects(self, regs=None):
        seen, out = set(), []
        for r in (regs if regs is not None else self.all()):
            if r.obj not in seen:
                seen.add(r.obj)
                out.append(r)
        return out
