"""E8 - findings, known findings, evidence, exit codes."""
import json
import os
import time

VERIF = os.path.dirname(os.path.dirname(os.path.abspath(__file__)))
EVIDENCE_DIR = os.path.join(VERIF, 'evidence')
REPLAY_DIR = os.path.join(EVIDENCE_DIR, 'replay')
KNOWN = os.path.join(VERIF, 'known_findings.json')


class Finding:
    def __init__(self, prop, rule, key, message, file=None, function=None,
                 line=None, path=None, extra=None, items=None):
        self.prop, self.rule, self.key = prop, rule, key
        self.message, self.file, self.function = message, file, function
        self.line, self.path, self.extra = line, path, extra
        # atomic failing items (e.g. characters); a known finding covers this
        # one only if it lists every item
        self.items = sorted(items) if items is not None else None

    def to_json(self):
        d = {'property': self.prop, 'rule': self.rule, 'key': self.key,
             'message': self.message, 'file': self.file,
             'function': self.function, 'line': self.line}
        if self.path:
            d['path'] = self.path
        if self.extra:
            d['extra'] = self.extra
        if self.items is not None:
            d['items'] = self.items
        return d

    def where(self):
        w = self.file or '?'
        if self.line:
            w += ':%s' % self.line
        if self.function:
            w += ' (%s)' % self.function
        return w


class Obligation:
    __slots__ = ('rule', 'what', 'where', 'verdict', 'nontrivial')

    def __init__(self, rule, what, where, verdict, nontrivial=True):
        self.rule, self.what, self.where = rule, what, where
        self.verdict, self.nontrivial = verdict, nontrivial

    def to_json(self):
        return {'rule': self.rule, 'obligation': self.what,
                'where': self.where, 'verdict': self.verdict}


class RuleResult:
    """Collects what one rule examined."""

    def __init__(self, prop, rule, template, text, floor=0):
        self.prop, self.rule, self.template = prop, rule, template
        self.text, self.floor = text, floor
        self.obligations = []
        self.findings = []
        self.notes = []
        self.instances = 0

    def ok(self, what, where='', nontrivial=True):
        self.obligations.append(Obligation(self.rule, what, where, 'holds',
                                           nontrivial))

    def fail(self, key, message, file=None, function=None, line=None,
             path=None, what=None, extra=None, items=None):
        self.obligations.append(Obligation(
            self.rule, what or message, '%s:%s' % (file, line), 'VIOLATED'))
        self.findings.append(Finding(self.prop, self.rule, key, message, file,
                                     function, line, path, extra, items))

    def note(self, s):
        self.notes.append(s)

    def summary(self):
        return {'id': self.rule, 'template': self.template, 'text': self.text,
                'instances': self.instances, 'floor': self.floor,
                'obligations': len(self.obligations),
                'violated': len(self.findings), 'notes': self.notes}


def known_for(prop, known=None):
    known = known or load_known()
    return [k for k in known.get('findings', [])
            if k.get('property') == prop or prop in k.get('also', [])]


def match_known(f, entries):
    """The known-finding entry that covers finding f, or None."""
    for k in entries:
        if k['key'] != f.key:
            continue
        if f.items is None:
            return k
        if set(f.items) <= set(k.get('items', [])):
            return k
    return None


def load_known():
    if not os.path.exists(KNOWN):
        return {'findings': [], 'fixed': []}
    with open(KNOWN) as f:
        return json.load(f)


def node_where(fi_or_module, node=None):
    rel = getattr(fi_or_module, 'rel', None)
    if rel is None:
        rel = fi_or_module.module.rel
    line = getattr(node, 'lineno', None) if node is not None else \
        getattr(fi_or_module, 'lineno', None)
    return rel, line


def emit(prop, tier, seed, results, project, t0, explanation, not_decided,
         trusted_base, assumptions, extra_cov=None, selftest=None,
         functions_analysed=None, call_sites=None):
    """Print the report, write evidence + replay files, return exit code."""
    entries = known_for(prop)
    os.makedirs(REPLAY_DIR, exist_ok=True)
    # remove stale replay files of this property
    for f in os.listdir(REPLAY_DIR):
        if f.startswith(prop + '-'):
            os.unlink(os.path.join(REPLAY_DIR, f))
    violations, knowns = [], []
    obligations, floors_bad = [], []
    for r in results:
        obligations.extend(r.obligations)
        if r.instances < r.floor:
            floors_bad.append('%s: %d instances < floor %d' % (
                r.rule, r.instances, r.floor))
        for f in r.findings:
            k = match_known(f, entries)
            if k is not None:
                knowns.append((f, k))
            else:
                violations.append(f)
    undecided = [(r.rule, r.undecided) for r in results
                 if getattr(r, 'undecided', None)]
    if undecided and not violations:
        from .model import AnalysisError
        raise AnalysisError('; '.join(u[1] for u in undecided))
    for rule, why in undecided:
        print('NOTE rule %s undecided: %s' % (rule, why))
    floors_bad = [fb for fb, r in ((fb, fb.split(':')[0]) for fb in floors_bad)
                  if r not in {u[0] for u in undecided}]
    if floors_bad and not violations:
        from .model import AnalysisError
        raise AnalysisError('instance floor not met: ' + '; '.join(floors_bad))
    for fb in floors_bad:
        # a rule that found fewer instances than expected decides nothing, but
        # what the other rules found stands
        print('NOTE instance floor not met (rule undecided): %s' % fb)
    print('== %s tier=%s: %d rules, %d obligations ==' % (
        prop, tier, len(results), len(obligations)))
    for r in results:
        print('  rule %-16s [%s] instances=%d obligations=%d violated=%d' % (
            r.rule, r.template, r.instances, len(r.obligations),
            len(r.findings)))
        for n in r.notes:
            print('      note: %s' % n)
    seen_known = set()
    for f, k in knowns:
        if f.key in seen_known:
            continue
        seen_known.add(f.key)
        print('KNOWN-FINDING: property=%s rule=%s %s -- %s [%s]' % (
            prop, f.rule, f.key, k.get('what', f.message), f.where()))
    for i, f in enumerate(violations):
        path = os.path.join(REPLAY_DIR, '%s-%d.json' % (prop, i))
        with open(path, 'w') as fh:
            json.dump(f.to_json(), fh, indent=1)
        print('FINDING %s %s at %s: %s' % (f.rule, f.key, f.where(), f.message))
        if f.path:
            for step in f.path:
                print('      via %s' % step)
        print('VIOLATION property=%s replay=%s' % (prop, path))
    nontrivial = {(o.rule, o.what, o.where) for o in obligations if o.nontrivial}
    discharged = sum(1 for o in obligations if o.verdict == 'holds')
    # samples: a spread over rules, selected by seed
    samples = []
    per_rule = {}
    for o in obligations:
        per_rule.setdefault(o.rule, []).append(o)
    for rule, obs in per_rule.items():
        n = len(obs)
        idx = sorted({(seed * 7 + j * max(1, n // 3)) % n for j in range(3)})
        samples.extend(obs[i].to_json() for i in idx)
    for f in violations:
        samples.append({'violation': f.to_json()})
    cov = {
        'explanation': explanation,
        'not_decided': not_decided,
        'evaluations': len(obligations),
        'distinct_nontrivial': len(nontrivial),
        'rule': 'one evaluation = one (rule, construct) obligation extracted '
                'from the current source; non-trivial = the rule premise '
                'matched a construct and a conclusion had to be established; '
                'distinct by (rule, obligation text, location)',
        'obligations': len(obligations),
        'discharged': discharged,
        'samples': samples[:60],
        'rules': [r.summary() for r in results],
        'files': project.digest() if project else {},
        'files_analysed': len(project.modules) if project else 0,
        'functions_analysed': functions_analysed if functions_analysed
        is not None else (len(project.functions) if project else 0),
        'known_findings': [
            {'key': f.key, 'rule': f.rule, 'what': k.get('what')}
            for f, k in knowns],
        'trusted_base': trusted_base,
        'exhaustive': True,
        'checker_cmd': './check %s --tier %s' % (prop, tier),
    }
    if call_sites is not None:
        cov['call_sites'] = call_sites
    if extra_cov:
        cov.update(extra_cov)
    if selftest is not None:
        cov['selftest'] = selftest
    ev = {
        'property_id': prop, 'tier': tier, 'seed': seed, 'level': 'other',
        'coverage': cov, 'assumptions': assumptions,
        'wall_s': round(time.time() - t0, 3), 'violations': len(violations),
    }
    os.makedirs(EVIDENCE_DIR, exist_ok=True)
    with open(os.path.join(EVIDENCE_DIR, '%s.json' % prop), 'w') as fh:
        json.dump(ev, fh, indent=1, sort_keys=True, default=str)
    if violations:
        print('RESULT %s: %d violation(s), %d known finding(s)' % (
            prop, len(violations), len(seen_known)))
        return 1
    print('RESULT %s: held on everything analysed (%d obligations, %d known '
          'finding(s))' % (prop, len(obligations), len(seen_known)))
    return 0
