"""E6 - regex model: parse the repo's `regex` patterns with re._parser and query them."""
import re
import re._parser as sre_parse
import re._constants as sre_c

from .model import AnalysisError
from .peval import CallV, Const, Ext, is_const, Unknown

ASCII = [chr(i) for i in range(9, 14)] + [chr(i) for i in range(32, 127)]
POSIX = {
    '[:alpha:]': 'a-zA-Z', '[:alnum:]': 'a-zA-Z0-9', '[:digit:]': '0-9',
    '[:upper:]': 'A-Z', '[:lower:]': 'a-z', '[:space:]': r'\s',
    '[:punct:]': r'!-/:-@\[-`{-~', '[:word:]': r'\w',
}
FLAGS = {'IGNORECASE': re.I, 'I': re.I, 'X': re.X, 'VERBOSE': re.X,
         'DOTALL': re.S, 'S': re.S, 'MULTILINE': re.M, 'M': re.M}


class Infinite(Exception):
    pass


class Rx:
    def __init__(self, pattern, flags=0, where=''):
        self.source, self.flags, self.where = pattern, flags, where
        self.norm, self.renamed = normalise(pattern)
        try:
            self.tree = sre_parse.parse(self.norm, flags)
        except Exception as ex:
            raise AnalysisError('cannot parse regex at %s: %s' % (where, ex))
        self.groupdict = dict(self.tree.state.groupdict)  # name -> index
        self.index2name = {v: k for k, v in self.groupdict.items()}

    def group_names(self):
        """Original group names (duplicates merged)."""
        return sorted({self.orig(n) for n in self.groupdict})

    def orig(self, name):
        return self.renamed.get(name, name)

    def groups_named(self, name):
        """All sub-patterns of groups originally named `name`."""
        out = []

        def rec(sp):
            for op, av in sp:
                if op is sre_c.SUBPATTERN:
                    gi, _a, _d, sub = av
                    if gi is not None and self.orig(
                            self.index2name.get(gi, '')) == name:
                        out.append(sub)
                    rec(sub)
                elif op in (sre_c.MAX_REPEAT, sre_c.MIN_REPEAT,
                            getattr(sre_c, 'POSSESSIVE_REPEAT', None)):
                    rec(av[2])
                elif op is sre_c.BRANCH:
                    for b in av[1]:
                        rec(b)
                elif op in (sre_c.ASSERT, sre_c.ASSERT_NOT):
                    rec(av[1])
                elif op is getattr(sre_c, 'ATOMIC_GROUP', None):
                    rec(av)
                elif op is sre_c.GROUPREF_EXISTS:
                    rec(av[1])
                    if av[2]:
                        rec(av[2])

        rec(self.tree)
        return out

    def ignorecase(self):
        return bool(self.flags & re.I)

    def contains_group(self, sub, name):
        """Does the sub-pattern contain a group originally named `name`?"""
        hit = []

        def rec(sp):
            for op, av in sp:
                if op is sre_c.SUBPATTERN:
                    gi, _a, _d, inner = av
                    if gi is not None and self.orig(
                            self.index2name.get(gi, '')) == name:
                        hit.append(1)
                    rec(inner)
                elif op in (sre_c.MAX_REPEAT, sre_c.MIN_REPEAT,
                            getattr(sre_c, 'POSSESSIVE_REPEAT', None)):
                    rec(av[2])
                elif op is sre_c.BRANCH:
                    for b in av[1]:
                        rec(b)
                elif op in (sre_c.ASSERT, sre_c.ASSERT_NOT):
                    rec(av[1])
                elif op is getattr(sre_c, 'ATOMIC_GROUP', None):
                    rec(av)
                elif op is sre_c.GROUPREF_EXISTS:
                    rec(av[1])
                    if av[2]:
                        rec(av[2])

        rec(sub)
        return bool(hit)


def normalise(pattern):
    """Make a `regex`-module pattern acceptable to re._parser:
    duplicate group names -> name__k ; POSIX classes -> ranges."""
    for k, v in POSIX.items():
        pattern = pattern.replace(k, v)
    seen, renamed = {}, {}

    def sub(m):
        name = m.group(1)
        k = seen.get(name, 0)
        seen[name] = k + 1
        if k == 0:
            return m.group(0)
        new = '%s__%d' % (name, k)
        renamed[new] = name
        return '(?P<%s>' % new

    pattern = re.sub(r'\(\?P<([A-Za-z_][A-Za-z0-9_]*)>', sub, pattern)
    return pattern, renamed


def from_av(av, where=''):
    """Rx from an abstract value `regex.compile(Const pattern, flags)`."""
    if isinstance(av, CallV) and isinstance(av.fn, Ext) and av.fn.name in (
            'regex.compile', 're.compile', 'regex.regex.compile'):
        if not av.args or not is_const(av.args[0], str):
            raise AnalysisError('regex pattern at %s is not a foldable constant '
                                '(%r)' % (where, av.args[:1]))
        flags = 0
        fl = av.args[1] if len(av.args) > 1 else av.kw.get('flags')
        if fl is not None:
            flags = flags_of(fl, where)
        return Rx(av.args[0].v, flags, where)
    raise AnalysisError('%s is not a regex.compile(...) value: %r' % (where, av))


def flags_of(av, where=''):
    if isinstance(av, Ext):
        nm = av.name.split('.')[-1]
        if nm in FLAGS:
            return FLAGS[nm]
        raise AnalysisError('unknown regex flag %s at %s' % (av.name, where))
    if is_const(av, int):
        return av.v
    if isinstance(av, Unknown) and av.node is not None:
        import ast
        n = av.node
        if isinstance(n, ast.BinOp) and isinstance(n.op, ast.BitOr):
            return _flags_ast(n, where)
    raise AnalysisError('cannot fold regex flags at %s: %r' % (where, av))


def _flags_ast(n, where):
    import ast
    if isinstance(n, ast.BinOp) and isinstance(n.op, ast.BitOr):
        return _flags_ast(n.left, where) | _flags_ast(n.right, where)
    if isinstance(n, ast.Attribute) and n.attr in FLAGS:
        return FLAGS[n.attr]
    raise AnalysisError('cannot fold regex flags at %s' % where)


# ---------------------------------------------------------------------------
# character sets and languages
# ---------------------------------------------------------------------------
def _category(cat, alphabet):
    name = str(cat)
    pred = {
        'CATEGORY_DIGIT': str.isdigit,
        'CATEGORY_NOT_DIGIT': lambda c: not c.isdigit(),
        'CATEGORY_SPACE': str.isspace,
        'CATEGORY_NOT_SPACE': lambda c: not c.isspace(),
        'CATEGORY_WORD': lambda c: c.isalnum() or c == '_',
        'CATEGORY_NOT_WORD': lambda c: not (c.isalnum() or c == '_'),
    }.get(name)
    if pred is None:
        raise AnalysisError('regex category %s not modelled' % name)
    return {c for c in alphabet if pred(c)}


def charset(item, alphabet=ASCII, ignorecase=False):
    """Characters (within alphabet) matched by a single-character item (op, av)."""
    op, av = item
    if op is sre_c.LITERAL:
        s = {chr(av)}
    elif op is sre_c.NOT_LITERAL:
        s = set(alphabet) - {chr(av)}
    elif op is sre_c.ANY:
        s = set(alphabet)
    elif op is sre_c.IN:
        neg = False
        s = set()
        for o, a in av:
            if o is sre_c.NEGATE:
                neg = True
            elif o is sre_c.LITERAL:
                s.add(chr(a))
            elif o is sre_c.RANGE:
                s.update(chr(i) for i in range(a[0], a[1] + 1))
            elif o is sre_c.CATEGORY:
                s |= _category(a, alphabet)
            else:
                raise AnalysisError('regex class item %s not modelled' % o)
        if ignorecase:
            s |= {c.lower() for c in s} | {c.upper() for c in s}
        if neg:
            s = set(alphabet) - s
        return s & set(alphabet) if neg else s
    elif op is sre_c.CATEGORY:
        s = _category(av, alphabet)
    else:
        return None
    if ignorecase:
        s |= {c.lower() for c in s} | {c.upper() for c in s}
    return s


def language(sub, alphabet=ASCII, max_rep=2, ignorecase=False, limit=20000,
             reduce=None):
    """Finite set of strings matched by sub-pattern `sub`, unbounded repeats
    expanded up to max_rep copies (bounded abstraction).  `reduce(chars)` may
    shrink a character class to representatives."""
    def cat(a, b):
        out = {x + y for x in a for y in b}
        if len(out) > limit:
            raise Infinite('language too large')
        return out

    def rec(sp):
        res = {''}
        for op, av in sp:
            cs = charset((op, av), alphabet, ignorecase)
            if cs is not None:
                if reduce:
                    cs = reduce(cs)
                res = cat(res, cs)
            elif op is sre_c.SUBPATTERN:
                res = cat(res, rec(av[3]))
            elif op is getattr(sre_c, 'ATOMIC_GROUP', None):
                res = cat(res, rec(av))
            elif op is sre_c.BRANCH:
                alts = set()
                for b in av[1]:
                    alts |= rec(b)
                res = cat(res, alts)
            elif op in (sre_c.MAX_REPEAT, sre_c.MIN_REPEAT,
                        getattr(sre_c, 'POSSESSIVE_REPEAT', None)):
                lo, hi, body = av
                hi = min(int(hi), max(lo, max_rep)) if hi is not \
                    sre_c.MAXREPEAT else max(lo, max_rep)
                b = rec(body)
                alts = set()
                cur = {''}
                for i in range(0, hi + 1):
                    if i >= lo:
                        alts |= cur
                    cur = cat(cur, b)
                res = cat(res, alts)
            elif op in (sre_c.AT, sre_c.ASSERT, sre_c.ASSERT_NOT):
                continue  # anchors / lookarounds do not consume
            else:
                raise AnalysisError('regex op %s not modelled' % op)
        return res

    return rec(sub)


def is_unbounded_run(sub):
    """If sub is exactly one repeat of a single-character item with max > 1:
    return (item, lo, hi) else None."""
    items = list(sub)
    if len(items) == 1 and items[0][0] in (
            sre_c.MAX_REPEAT, sre_c.MIN_REPEAT,
            getattr(sre_c, 'POSSESSIVE_REPEAT', None)):
        lo, hi, body = items[0][1]
        b = list(body)
        if len(b) == 1 and charset(b[0]) is not None:
            return b[0], lo, hi
    return None


def first_chars(sp, alphabet=ASCII, ignorecase=False):
    """(set of possible first characters, can_be_empty) of a pattern."""
    first, empty = set(), True
    for op, av in sp:
        cs = charset((op, av), alphabet, ignorecase)
        if cs is not None:
            first |= cs
            return first, False
        if op is sre_c.SUBPATTERN:
            f, e = first_chars(av[3], alphabet, ignorecase)
        elif op is getattr(sre_c, 'ATOMIC_GROUP', None):
            f, e = first_chars(av, alphabet, ignorecase)
        elif op is sre_c.BRANCH:
            f, e = set(), False
            for b in av[1]:
                f2, e2 = first_chars(b, alphabet, ignorecase)
                f |= f2
                e = e or e2
        elif op in (sre_c.MAX_REPEAT, sre_c.MIN_REPEAT,
                    getattr(sre_c, 'POSSESSIVE_REPEAT', None)):
            lo, hi, body = av
            f, e = first_chars(body, alphabet, ignorecase)
            e = e or lo == 0
        elif op in (sre_c.AT, sre_c.ASSERT, sre_c.ASSERT_NOT):
            continue
        else:
            raise AnalysisError('regex op %s not modelled' % op)
        first |= f
        if not e:
            return first, False
    return first, True
