"""Names an operator token class can produce (regex language after `process`/`update_name` rewriting)."""
import ast

from ..model import AnalysisError, own_nodes
from ..peval import Const, SeqV, ClassV, DictV, is_const
from .. import rx

OPERATOR_REL = 'formulas/tokens/operator.py'


def parser_filters(ctx):
    P = ctx.project.cls('formulas/parser.py', 'Parser')
    av = ctx.ev.class_attr(P, 'filters')
    elts = ctx.ev.iterate(av)
    if not elts or not all(isinstance(e, ClassV) for e in elts):
        raise AnalysisError('Parser.filters is not a literal list of classes')
    return [e.ci for e in elts]


def class_regex(ctx, ci, attr):
    a = ctx.project.find_class_attr(ci, attr)
    if a is None:
        return None
    av = ctx.ev.class_attr(a[0], attr)
    if isinstance(av, Const) and av.v is None:
        return None
    return rx.from_av(av, '%s.%s' % (a[0].name, attr))


def class_const(ctx, ci, attr):
    a = ctx.project.find_class_attr(ci, attr)
    if a is None:
        return None
    return ctx.ev.class_attr(a[0], attr)


def precedences(ctx):
    op = ctx.project.cls(OPERATOR_REL, 'Operator')
    d = ctx.ev.class_attr(op, '_precedences')
    if not isinstance(d, DictV) or not all(
            is_const(k, str) and is_const(v, (int, float)) for k, v in d.items):
        raise AnalysisError('Operator._precedences is not a literal table')
    return {k.v: v.v for k, v in d.items}


def _one_slot_template(v):
    """'%'-style template of a string formatted with exactly one argument, in
    any of the three spellings; None otherwise."""
    from ..util import template_of
    t = template_of(v)
    if t is None or len(t[1]) != 1:
        return None
    tpl = t[0].replace('%', '%%')
    head, _sep, tail = tpl.partition('{}')
    return (head + '%s' + tail).replace('{{', '{').replace('}}', '}')


def _name_rewrites(ctx, ci):
    """Values stored into attr['name'] by process/update_name of the class:
    returns (set of rewritten names, set of source names they replace or None)."""
    out = []  # ('add', set) | ('guarded', fmt, guard chars)
    p = ctx.project
    for mname in ('process', 'update_name'):
        seen = set()
        for k in p.mro(ci):
            m = k.methods.get(mname)
            if m is None or m.fq in seen:
                continue
            seen.add(m.fq)
            for n in own_nodes(m):
                if not isinstance(n, ast.Assign) or len(n.targets) != 1:
                    continue
                t = n.targets[0]
                if not (isinstance(t, ast.Subscript) and isinstance(
                        t.slice, ast.Constant) and t.slice.value == 'name'):
                    continue
                v = n.value
                if isinstance(v, ast.Subscript) and isinstance(
                        v.value, ast.Constant) and isinstance(v.value.value, str):
                    out.append(('add', set(v.value.value)))
                elif _one_slot_template(v) is not None:
                    # 'u%s' % self.name (or 'u{}'.format / f'u{...}') under
                    # `if self.name in '<chars>'`
                    guard = _enclosing_in_guard(m, n)
                    if guard is None:
                        raise AnalysisError(
                            '%s: name rewrite `%s` without an `in` guard' % (
                                m.fq, ast.unparse(n)))
                    out.append(('guarded', _one_slot_template(v), guard))
                elif isinstance(v, ast.BinOp) and isinstance(
                        v.op, ast.Add) and isinstance(
                        v.left, ast.Constant) and isinstance(
                        v.left.value, str) and not isinstance(
                        v.right, ast.Constant):
                    # 'u' + self.name
                    guard = _enclosing_in_guard(m, n)
                    if guard is None:
                        raise AnalysisError(
                            '%s: name rewrite `%s` without an `in` guard' % (
                                m.fq, ast.unparse(n)))
                    out.append(('guarded', v.left.value.replace(
                        '%', '%%') + '%s', guard))
                elif isinstance(v, ast.Constant) and isinstance(v.value, str):
                    out.append(('add', {v.value}))
                elif isinstance(v, ast.IfExp) and all(
                        isinstance(x, ast.Constant) and isinstance(x.value, str)
                        for x in (v.body, v.orelse)):
                    out.append(('add', {v.body.value, v.orelse.value}))
                else:
                    raise AnalysisError('%s: unrecognised name rewrite `%s`' % (
                        m.fq, ast.unparse(n)))
    return out


def _enclosing_in_guard(m, node):
    for n in own_nodes(m):
        if isinstance(n, ast.If) and any(node is x for s in n.body
                                         for x in ast.walk(s)):
            t = n.test
            if isinstance(t, ast.Compare) and len(t.ops) == 1 and isinstance(
                    t.ops[0], ast.In) and isinstance(
                    t.comparators[0], ast.Constant) and isinstance(
                    t.comparators[0].value, str):
                return set(t.comparators[0].value)
    # guard clause: `if <x> not in '<chars>': return` before the statement, at
    # the top level of the method
    body = getattr(m.node, 'body', [])
    for i, st in enumerate(body):
        if any(node is x for x in ast.walk(st)):
            break
        if isinstance(st, ast.If) and not st.orelse and st.body and isinstance(
                st.body[-1], ast.Return) and isinstance(
                st.test, ast.Compare) and len(st.test.ops) == 1 and isinstance(
                st.test.ops[0], ast.NotIn) and isinstance(
                st.test.comparators[0], ast.Constant) and isinstance(
                st.test.comparators[0].value, str):
            return set(st.test.comparators[0].value)
    return None


def producible_names(ctx, ci):
    """(names, detail) an Operator subclass can put in attr['name']."""
    rp = class_regex(ctx, ci, '_re_process')
    r0 = class_regex(ctx, ci, '_re')
    if r0 is None:
        raise AnalysisError('%s has no _re' % ci.fq)
    r = rp or r0
    subs = r.groups_named('name')
    if not subs:
        raise AnalysisError('%s: regex has no `name` group' % ci.fq)
    names = set()
    for s in subs:
        names |= rx.language(s, max_rep=2, ignorecase=r.ignorecase())
    detail = {'regex': r.where, 'raw': len(names)}
    rew = _name_rewrites(ctx, ci)
    sm = r.groups_named('sum_minus')
    if sm:
        runs = set()
        for s in sm:
            runs |= rx.language(s, max_rep=2, ignorecase=r.ignorecase())
        names -= runs
        detail['sum_minus_runs'] = len(runs)
    # the characters removed before `_re_process` is applied
    rep = class_const(ctx, ci, '_replace')
    if rp is not None and is_const(rep, str):
        names = {n for n in names if not any(c in n for c in rep.v)} | \
            {n for n in names if n in rep.v and False}
    for r_ in rew:
        if r_[0] == 'add':
            names |= r_[1]
    for r_ in rew:
        if r_[0] == 'guarded':
            names |= {r_[1] % c for c in r_[2] if c in names}
    return names, detail
