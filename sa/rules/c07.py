"""C07 - recalculation with overrides leaves no trace (structural clauses)."""
import ast

from ..model import AnalysisError, own_nodes, norm_src
from ..peval import FuncV, CallV, Ext, DictV, Const, is_const
from ..report import RuleResult
from ..cfg import CFG
from ..util import key_of, src, call_name, stmts_of
from ..registry import FUNCS_REL, WRAPPERS
from .common import reg_targets

META = {
    'decides': (
        'C07, the "leaves no trace" half, structurally: (nomut) no code that '
        'runs during a calculation - every registered core with its parsers, '
        'the wrappers, and the dispatch-time callables of cell.py/ranges.py - '
        'writes in place to an object it did not create (flow-sensitive alias '
        'analysis, interprocedural summaries), outside a reasoned table; '
        '(self) the sub-dispatchers ExcelModel.compile cuts out of the model '
        'are installed under their own sh.SELF before they run, so nothing an '
        'earlier calculate() left in the model reaches a compiled function; '
        '(cache) every Ranges method that changes ranges/values resets the '
        'cached value, and no code outside the class writes them on a shared '
        'object; (paths) finish() and from_dict() run the same post-processing; '
        '(names) the inv-data key written by the model is the key compile reads; '
        '(history) calculate, compile, to_dict, finish and from_dict - with '
        'everything they reach through self and the helpers of their module - '
        'never read a dispatcher\'s stored `solution`, i.e. the values an '
        'earlier calculation left behind; (pair) the range assembler and its '
        'inverse pair values with node ids by position, both sides taking the '
        'order from the same ordered attribute - what makes an override of a '
        'range or name equal to overriding the underlying cells.'),
    'not_decided': (
        'That dependents are recomputed, that values equal those of a fresh '
        'model, output restriction, and effects hidden inside schedula.'),
    'trusted_base': [
        'CPython ast', 'numpy aliasing facts (asarray/ravel/view/reshape/'
        'basic slicing may alias; copy/array/astype/where are fresh)',
        'call graph (exact edges only for interprocedural mutation)'],
    'assumptions': [
        'objects reach dispatch-time code only through parameters, self '
        'attributes and module globals'],
}

# writes to `self`/parameters that are part of the design (one symbol each).
# Each entry names the function, the parameter, the normalised target of the
# write it covers, and a premise that is re-checked on the current source.
def _premise_args_fresh_ranges(ctx, f):
    """Cell._args: the per-call `inputs` mapping is built from fresh
    `Ranges(r.ranges)` objects (only value-less references are kept as is)."""
    ranges_cls = ctx.project.cls('formulas/ranges.py', 'Ranges')

    def fresh(v):
        for c in ast.walk(v):
            if isinstance(c, ast.Call) and isinstance(
                    c.func, (ast.Name, ast.Attribute)):
                r = ctx.cg.resolve_name_expr(f, c.func)
                if r and r[0] == 'class' and r[1] is ranges_cls:
                    return True
        return False

    for n in own_nodes(f):
        if isinstance(n, ast.DictComp) and fresh(n.value):
            return True
        # ... or the same mapping filled item by item in a loop
        if isinstance(n, ast.Assign) and len(n.targets) == 1 and isinstance(
                n.targets[0], ast.Subscript) and fresh(n.value):
            return True
    return False


REASONED = {
    ('formulas/cell.py::RangesAssembler.__call__', 0): (
        ('_[_]',), None,
        'memoises index tuples derived only from the immutable range geometry '
        '(idempotent: `ists[n] = _get_indices_intersection(base, v)`)'),
    ('formulas/cell.py::InvRangesAssembler.__call__', 2): (
        ('_[_]',), None,
        'writes the *current* solution only (dsp.solution), which every '
        'dispatch rebuilds'),
    ('formulas/ranges.py::Ranges.value', 0): (
        ('self._value',), None,
        'memoises the computed value in self._value; C07.cache checks every '
        'writer of ranges/values resets it'),
    ('formulas/cell.py::Cell._args', '*'): (
        ('_[_].values',), _premise_args_fresh_ranges,
        'alias through `inputs[k] = v` (reference inputs) followed by '
        '`inputs[k].values.update` is infeasible: a key bound to a reference '
        'appears in exactly one link'),
    ('formulas/cell.py::Cell._args', 0): (
        ('_[_].values',), _premise_args_fresh_ranges,
        'the `Ranges(r.ranges) or r` idiom: the fresh Ranges has its own '
        'values dict; the `or r` branch (value-less reference) has no .values'),
}


def _shape_text(f, text):
    """Expression text with local (non-parameter) names replaced by `_`."""
    try:
        e = ast.parse(text, mode='eval')
    except SyntaxError:
        return text
    keep = set(f.all_params)
    for n in ast.walk(e):
        if isinstance(n, ast.Name) and n.id not in keep:
            n.id = '_'
    # which element is written does not matter for the shape of the write
    for n in ast.walk(e):
        if isinstance(n, ast.Subscript) and not (
                isinstance(n.slice, ast.Name) and n.slice.id in keep):
            n.slice = ast.Name(id='_', ctx=ast.Load())
    return ast.unparse(e)


def entry_functions(ctx):
    """(FuncInfo, role, fresh_params) that run while a model is calculated."""
    p = ctx.project
    out = {}

    def add(f, role, fresh=()):
        if f is not None and f.fq not in out:
            out[f.fq] = (f, role, set(fresh))

    for reg in ctx.registry.all():
        core = reg.core
        if core.kind in ('func', 'factory') and core.fi is not None:
            add(core.fi, 'core of %s' % reg.key)
        for k in ('input_parser', 'args_parser', 'check_error'):
            v = reg.cfg.get(k)
            for f in _funcs_of(v):
                add(f, '%s of %s' % (k, reg.key))
        v = reg.cfg.get('return_func')
        for f in _funcs_of(v):
            # first parameter is the fresh result array built by the wrapper
            add(f, 'return_func of %s' % reg.key, fresh=f.params[:1])
        for a in core.bound_args + list(core.bound_kw.values()):
            for f in _funcs_of(a):
                add(f, 'bound argument of %s' % reg.key)
        sc = reg.dict_keys.get('solve_cycle')
        for f in _funcs_of(sc):
            add(f, 'solve_cycle of %s' % reg.key)
    for w in WRAPPERS:
        f = p.func(FUNCS_REL, w)
        for g in f.nested.values():
            add(g, 'wrapper %s' % w)
    wu = p.func(FUNCS_REL, 'wrap_ufunc')
    for g in wu.nested.values():
        add(g, 'wrap_ufunc')
    for name in ('replace_empty', 'parse_ranges', 'flatten', 'get_error',
                 'raise_errors', 'convert_nan', 'convert_noshp', 'args2vals',
                 'args2list', 'to_number', 'text2num', 'clean_values'):
        add(p.try_func(FUNCS_REL, name), 'helper')
    for q in ('CellWrapper.__call__', 'Cell._args', 'format_output',
              'RangesAssembler.__call__', 'InvRangesAssembler.__call__'):
        add(p.func('formulas/cell.py', q), 'dispatch-time callable')
    # every callable object the package defines can be installed in the graph
    # as a node function or filter: its __call__ runs during calculations
    for c in sorted(p.classes.values(), key=lambda c: c.fq):
        m = c.methods.get('__call__')
        if m is not None:
            add(m, 'callable object (%s instances are node functions/filters)'
                % c.name)
    for q in ('ExcelModel.calculate', 'ExcelModel.__call__',
              'ExcelModel.compile', 'ExcelModel.to_dict'):
        add(p.func('formulas/excel/__init__.py', q),
            'model-level operation that must leave the model unchanged')
    for q in ('Ranges.value', 'Ranges.__and__', 'Ranges.__or__',
              'Ranges.__add__', 'Ranges.__sub__', 'Ranges.intersect',
              'Ranges.simplify', 'Ranges._merge', 'Ranges.format_range',
              '_assemble_values', '_reshape_array_as_excel'):
        f = p.try_func('formulas/ranges.py', q)
        if q == '_assemble_values':
            # its third parameter (`out`) is the array being assembled
            add(f, 'range helper', fresh=f.params[2:3] if f else [])
        else:
            add(f, 'range operator / value')
    return out


def _funcs_of(av):
    if isinstance(av, FuncV):
        return [av.fi]
    if isinstance(av, CallV):
        r = []
        for a in [av.fn] + list(av.args) + list(av.kw.values()):
            r += _funcs_of(a)
        # a package factory called at registration time hands out one of its
        # nested functions: that closure is what runs at calculation time
        if isinstance(av.fn, FuncV):
            r += list(av.fn.fi.nested.values()) + list(av.fn.fi.lambdas)
        return r
    return []


def rule_nomut(ctx, prop='C07', rule='C07.nomut', only=None, floor=150):
    rr = RuleResult(prop, rule, 'EFF',
                    'dispatch-time code does not write in place to objects it '
                    'did not create', floor=floor)
    E = ctx.effects
    entries = entry_functions(ctx)
    n_writers = 0
    for fq, (f, role, fresh) in sorted(entries.items()):
        if only is not None and not only(f, role):
            continue
        rr.instances += 1
        s = E.summ[f.fq]
        bad = []
        for prm, w in s.mutates.items():
            if prm in fresh or prm.startswith('^'):
                continue
            # reasoned exceptions are keyed by the position of the parameter
            # ('*' = the *args parameter), not by its name
            pos = f.params.index(prm) if prm in f.params else (
                '*' if prm == f.vararg else None)
            if (f.fq, pos) in REASONED:
                targets, premise, why = REASONED[(f.fq, pos)]
                ws = [x for x in s.writes if prm in x.params]
                # the reasoned write itself, in f or in a private helper f
                # delegates that part to
                from ..util import with_helpers
                near = with_helpers(ctx, f)
                def reasoned(x, depth=0):
                    if x.fi not in near:
                        return False
                    if x.kind == 'call' and isinstance(x.node, ast.Call) \
                            and depth < 2:
                        # the write happens in a callee: it must be one of
                        # those helpers, and what *it* writes must have the
                        # reasoned shape
                        gs = [g for g, prec in ctx.effects._callee_infos(
                            x.fi, x.node)[0] if prec == 'exact']
                        def bound(g):
                            # callee parameters that receive `prm`
                            m_ = ctx.effects._bind_args(
                                g, x.node, ctx.effects._bound_self(
                                    x.fi, x.node, g))
                            out_ = set()
                            for k_, exprs in m_.items():
                                for e_ in exprs:
                                    e_ = e_[1] if isinstance(e_, tuple) else e_
                                    if any(isinstance(z, ast.Name) and
                                           z.id == prm for z in ast.walk(e_)):
                                        out_.add(k_)
                            return out_
                        return bool(gs) and all(
                            g in near and all(
                                reasoned(y, depth + 1)
                                for y in ctx.effects.summ[g.fq].writes
                                if set(y.params) & bound(g))
                            for g in gs)
                    return _shape_text(x.fi, x.target) in targets
                if all(reasoned(x) for x in ws) and (
                        premise is None or premise(ctx, f)):
                    rr.ok('%s writes `%s` through `%s`: reasoned exception '
                          '(%s)' % (f.qualname, w.target, prm, why),
                          '%s:%s' % (w.fi.module.rel, w.lineno))
                    continue
                w = [x for x in ws if not reasoned(x)][:1] or [w]
                w = w[0]
            bad.append((prm, w))
        if s.mutates:
            n_writers += 1
        for prm, w in bad:
            rr.fail('%s::%s::in-place write to `%s`' % (
                f.module.rel, f.qualname, prm),
                '%s (%s) may write in place to its argument `%s`, an object '
                'it did not create: %s at %s:%s. The caller\'s value (a node of '
                'the model) is changed by a calculation' % (
                    f.qualname, role, prm, w.describe(), w.fi.module.rel,
                    w.lineno),
                file=w.fi.module.rel, function=f.qualname, line=w.lineno)
        if not bad:
            rr.ok('%s (%s): no in-place write reaches a parameter' % (
                f.qualname, role), '%s:%d' % (f.module.rel, f.lineno),
                nontrivial=bool(s.writes) or any(
                    isinstance(n, (ast.Subscript, ast.Attribute))
                    and isinstance(n.ctx, ast.Store) for n in own_nodes(f)))
    rr.note('%d entry callables, %d with parameter-writing summaries' % (
        len(entries), n_writers))
    return rr


def rule_cache(ctx):
    rr = RuleResult('C07', 'C07.cache', 'MPT',
                    'Ranges: every writer of ranges/values resets the cached '
                    'value', floor=2)
    p = ctx.project
    R = p.cls('formulas/ranges.py', 'Ranges')
    for name, m in sorted(R.methods.items()):
        selfn = m.params[0] if m.params else None
        writes = []
        for n in own_nodes(m):
            tgt = None
            if isinstance(n, (ast.Assign, ast.AugAssign)):
                ts = n.targets if isinstance(n, ast.Assign) else [n.target]
                for t in ts:
                    base = t
                    while isinstance(base, ast.Subscript):
                        base = base.value
                    if isinstance(base, ast.Attribute) and isinstance(
                            base.value, ast.Name) and base.value.id == selfn \
                            and base.attr in ('ranges', 'values'):
                        tgt = n
            elif isinstance(n, ast.Expr) and isinstance(n.value, ast.Call) and \
                    isinstance(n.value.func, ast.Attribute) and \
                    n.value.func.attr in ('update', 'pop', 'clear',
                                          'setdefault') and \
                    isinstance(n.value.func.value, ast.Attribute) and \
                    isinstance(n.value.func.value.value, ast.Name) and \
                    n.value.func.value.value.id == selfn and \
                    n.value.func.value.attr in ('ranges', 'values'):
                tgt = n
            if tgt is not None:
                writes.append(tgt)
        if not writes:
            continue
        rr.instances += 1
        if name == '__init__':
            init_ok = any(isinstance(n, ast.Assign) and any(
                isinstance(t, ast.Attribute) and t.attr == '_value'
                for t in n.targets) for n in own_nodes(m))
            if init_ok:
                rr.ok('Ranges.__init__ initialises _value', m.module.rel)
            else:
                rr.fail(key_of(m, '_value not initialised'),
                        'Ranges.__init__ does not initialise the cached value',
                        file=m.module.rel, function=m.qualname, line=m.lineno)
            continue
        cfg = CFG(m)
        dom = cfg.dominators()
        resets = []
        for n in own_nodes(m):
            if isinstance(n, ast.Assign) and any(
                    isinstance(t, ast.Attribute) and t.attr == '_value'
                    and isinstance(t.value, ast.Name) and t.value.id == selfn
                    for t in n.targets) and 'NONE' in norm_src(n.value):
                resets.append(n)
        for w in writes:
            wn = cfg.node_of(w)
            # reset must be on every path through the write: it dominates the
            # write, or the write dominates it and it post-dominates... we
            # accept a reset that dominates the write (the repo's idiom) or
            # one that the write dominates with no exit in between
            ok = any(cfg.dominates(cfg.node_of(r), wn, dom) for r in resets)
            if not ok:
                ok = any(cfg.dominates(wn, cfg.node_of(r), dom) and
                         _no_exit_between(cfg, wn, cfg.node_of(r))
                         for r in resets)
            if ok:
                rr.ok('%s: write `%s` is paired with a reset of _value' % (
                    m.qualname, src(w)), '%s:%d' % (m.module.rel, w.lineno))
            else:
                rr.fail(key_of(m, 'writes ranges/values without resetting '
                                  '_value'),
                        '%s changes `%s` without resetting the cached _value '
                        'on every path: a later .value returns the stale '
                        'result of an earlier calculation' % (
                            m.qualname, src(w)),
                        file=m.module.rel, function=m.qualname, line=w.lineno)
    # outside the class: writes to .values/.ranges of a Ranges only on fresh objects
    E = ctx.effects
    for f in p.functions.values():
        if f.cls is R:
            continue
        for n in own_nodes(f):
            t = None
            if isinstance(n, ast.Assign):
                for x in n.targets:
                    if isinstance(x, ast.Attribute) and x.attr in (
                            'ranges', 'values', '_value'):
                        t = x
            if t is None:
                continue
            if isinstance(t.value, ast.Name) and f.cls is not None and \
                    t.value.id in f.params[:1] and not p.is_subclass(f.cls, R):
                continue  # another class's own attribute of the same name
            rr.instances += 1
            st = E.state_at(f, n)
            al = E.alias2(f, t.value, st or {})[0] if st is not None else {'?'}
            if al:
                rr.fail(key_of(f, 'external write to Ranges.%s' % t.attr),
                        '%s assigns .%s of an object that may be shared (%s) '
                        'without going through Ranges (cached value not reset)'
                        % (f.qualname, t.attr, ', '.join(sorted(al))),
                        file=f.module.rel, function=f.qualname, line=n.lineno)
            else:
                rr.ok('%s assigns .%s on an object it created' % (
                    f.qualname, t.attr), '%s:%d' % (f.module.rel, n.lineno))
    return rr


def _no_exit_between(cfg, a, b):
    """No path from a reaches the function exit without passing through b."""
    seen, stack = {a.id}, [a]
    while stack:
        n = stack.pop()
        for s, _ in n.succ:
            if s is b or s.id in seen:
                continue
            if s is cfg.exit or s is cfg.raise_exit:
                if s is cfg.exit:
                    return False
                continue
            seen.add(s.id)
            stack.append(s)
    return True


def rule_paths(ctx):
    rr = RuleResult('C07', 'C07.paths', 'SIB',
                    'finish() and from_dict() run the same post-processing',
                    floor=2)
    p = ctx.project
    need = ('assemble', 'inverse_references')
    for q in ('ExcelModel.finish', 'ExcelModel.from_dict'):
        f = p.func('formulas/excel/__init__.py', q)
        rr.instances += 1
        called = {}
        for n in own_nodes(f):
            if isinstance(n, ast.Call) and isinstance(n.func, ast.Attribute) \
                    and isinstance(n.func.value, ast.Name) and \
                    n.func.value.id == f.params[0] and n.func.attr in need:
                called[n.func.attr] = n
        for nm in need:
            if nm in called:
                rr.ok('%s calls self.%s()' % (q, nm), '%s:%d' % (
                    f.module.rel, called[nm].lineno))
            else:
                rr.fail(key_of(f, 'does not call %s' % nm),
                        '%s no longer runs %s(): models obtained this way '
                        'differ from the other loading path (ranges not '
                        'assembled / names not settable)' % (q, nm),
                        file=f.module.rel, function=f.qualname, line=f.lineno)
        # inverse_references must not be conditional
        if 'inverse_references' in called:
            cfg = CFG(f)
            dom = cfg.dominators()
            cn = cfg.node_of(called['inverse_references'])
            rets = [n for n in cfg.nodes if n.kind == 'return']
            if rets and all(cfg.dominates(cn, r, dom) for r in rets):
                rr.ok('%s: inverse_references() runs on every path' % q,
                      f.module.rel)
            else:
                rr.fail(key_of(f, 'inverse_references conditional'),
                        '%s runs inverse_references() only on some paths' % q,
                        file=f.module.rel, function=f.qualname,
                        line=called['inverse_references'].lineno)
    return rr


def rule_names(ctx):
    rr = RuleResult('C07', 'C07.names', 'TAB',
                    "the 'inv-data' key: writers and reader agree", floor=2)
    p = ctx.project
    writers, readers = [], []
    for f in p.functions.values():
        for n in own_nodes(f):
            if isinstance(n, ast.Subscript) and isinstance(
                    n.slice, ast.Constant) and isinstance(n.slice.value, str) \
                    and 'inv' in n.slice.value.lower():
                (writers if isinstance(n.ctx, ast.Store) else readers).append(
                    (f, n, n.slice.value))
            elif isinstance(n, ast.Call) and call_name(n) in ('get', 'pop') \
                    and n.args and isinstance(n.args[0], ast.Constant) and \
                    isinstance(n.args[0].value, str) and \
                    'inv' in n.args[0].value.lower():
                readers.append((f, n, n.args[0].value))
    rr.instances = len(writers) + len(readers)
    from .c08 import _model_compile
    comp = _model_compile(ctx)
    rkeys = {k for f, n, k in readers if f is comp}
    wkeys = {k for f, n, k in writers}
    if not rkeys:
        rr.fail(key_of(comp, 'does not read inverse-link data'),
                'ExcelModel.compile no longer reads the inverse-link set of '
                'its inputs: inputs given through a name or a range keep '
                'their stored defaults', file=comp.module.rel,
                function=comp.qualname, line=comp.lineno)
    for f, n, k in writers:
        if k in rkeys:
            rr.ok("%s writes node['%s'], the key ExcelModel.compile reads" % (
                f.qualname, k), '%s:%d' % (f.module.rel, n.lineno))
        elif rkeys:
            rr.fail(key_of(f, "inverse-link key '%s' not read" % k),
                    "%s stores inverse links under '%s' but ExcelModel.compile "
                    "reads %s" % (f.qualname, k, sorted(rkeys)),
                    file=f.module.rel, function=f.qualname, line=n.lineno)
    for k in rkeys - wkeys:
        rr.fail(key_of(comp, "reads key '%s' nobody writes" % k),
                "ExcelModel.compile reads node['%s'] which no code writes" % k,
                file=comp.module.rel, function=comp.qualname, line=comp.lineno)
    return rr


def run(ctx):
    S = ctx.soft
    from .modelstate import rule_history
    from .c03 import rule_pair
    from .c08 import rule_self as _rule_self
    # overriding a range or a name reaches the underlying cells through the
    # assemblers' positional protocols: same rule as C03.pair
    pr = S(rule_pair, ctx)
    pr.prop, pr.rule = 'C07', 'C07.pair'
    keep = ('assembler', 'inverse')
    pr.obligations = [o for o in pr.obligations
                      if any(k in o.what.lower() for k in keep)]
    pr.findings = [f_ for f_ in pr.findings
                   if any(k in f_.key.lower() for k in keep)]
    for f_ in pr.findings:
        f_.prop, f_.rule = 'C07', 'C07.pair'
    for o in pr.obligations:
        o.rule = 'C07.pair'
    pr.instances, pr.floor = max(1, len(pr.obligations)), 1
    return [S(rule_nomut, ctx), S(rule_cache, ctx), S(rule_paths, ctx), S(rule_names, ctx),
            S(rule_history, ctx, 'C07', 'C07.history'), pr,
            S(_rule_self, ctx, 'C07', 'C07.self')]
