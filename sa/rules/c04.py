"""C04 - reference spellings: the resolver's parts agree with each other and Excel's limits."""
import ast
import re

from ..model import AnalysisError, own_nodes, norm_src
from ..peval import CallV, Ext, Const, DictV, SeqV, FuncV, is_const
from ..report import RuleResult
from ..util import key_of, src, call_name, kwarg, bound_arg
from ..cfg import CFG
from .. import rx

META = {
    'decides': (
        'C04, structural clauses only: (limits) the grid limits are Excel\'s '
        'and the canonical form elides exactly those; (groups) every named '
        'group of the composed reference regexes is read by a consumer and '
        'every pure-input node of the general resolver is fed by a group, a '
        'default or the context; (fast) the five fast paths and the general '
        'resolver apply the same normalisers (upper-cased ref, name through '
        '_build_id, cells through _build_cel/_build_ref, column<->index '
        'through _col2index/_index2col) and return the promised keys; (case) '
        'every site that makes a node id from user text upper-cases the '
        'case-insensitive parts; (quote) the sheet-id writer quotes a name '
        'whenever the reader\'s unquoted alternative would not match it and '
        're-doubles the quote it un-doubled; (extlink) the table behind '
        '[n]Sheet!A1 is keyed by the 1-based position in the complete list of '
        'external links - numbering happens before any filtering; (cachekey) '
        'a hand-written memo of resolved references is keyed by everything '
        'the cached parts are computed from (no key built through a filter).'
        ' (fast, corners) the parts fast_range2parts looks at come in corner pairs: a first-corner part is never read without the second being looked for.'),
    'not_decided': (
        'That the regexes accept exactly Excel\'s spellings, relative-offset '
        'arithmetic and bijectivity of the column conversion (value-level).'),
    'trusted_base': ['CPython ast, re._parser', 'spec/limits.json'],
    'assumptions': ['character classes compared on ASCII'],
}

OPERAND = 'formulas/tokens/operand.py'


def rule_limits(ctx):
    rr = RuleResult('C04', 'C04.limits', 'TAB',
                    'grid limits and whole row/column elision', floor=5)
    p = ctx.project
    lim = ctx.spec('limits')
    env = ctx.ev.module_env(p.module(OPERAND))
    for name in ('maxcol', 'maxrow'):
        rr.instances += 1
        v = env.get(name)
        if is_const(v, int) and v.v == lim[name]:
            rr.ok('%s == %d' % (name, lim[name]), OPERAND)
        else:
            rr.fail('%s::%s::value' % (OPERAND, name),
                    '%s is %r; Excel\'s limit is %d' % (name, v, lim[name]),
                    file=OPERAND, function=name, line=1)
    mc, mr = p.func(OPERAND, '_maxcol'), p.func(OPERAND, '_maxrow')
    rr.instances += 2
    t1 = ' '.join(norm_src(n.value) for n in own_nodes(mc)
                  if isinstance(n, ast.Return))
    t2 = ' '.join(norm_src(n.value) for n in own_nodes(mr)
                  if isinstance(n, ast.Return))
    if t1 == '_index2col(maxcol)':
        rr.ok('_maxcol() is the letters of column maxcol', OPERAND)
    else:
        rr.fail(key_of(mc, 'not the last column'),
                '_maxcol() returns `%s`, not _index2col(maxcol)' % t1,
                file=OPERAND, function='_maxcol', line=mc.lineno)
    if t2 == 'str(maxrow)':
        rr.ok('_maxrow() is str(maxrow)', OPERAND)
    else:
        rr.fail(key_of(mr, 'not the last row'),
                '_maxrow() returns `%s`, not str(maxrow)' % t2, file=OPERAND,
                function='_maxrow', line=mr.lineno)
    bc = p.func(OPERAND, '_build_cel')
    rr.instances += 1
    cmps = [n for n in own_nodes(bc) if isinstance(n, ast.Compare)
            and len(n.ops) == 1 and isinstance(n.ops[0], (ast.Eq, ast.NotEq))]
    t = ' '.join(norm_src(n) for n in cmps)
    pc, pr_ = (bc.params + ['c', 'r'])[:2]

    def derived(prm):
        # the parameter and the locals computed from it (`row = str(int(r))`)
        names, grew = {prm}, True
        while grew:
            grew = False
            for n in own_nodes(bc):
                if isinstance(n, ast.Assign) and len(n.targets) == 1 and \
                        isinstance(n.targets[0], ast.Name) and \
                        n.targets[0].id not in names and any(
                        isinstance(x, ast.Name) and x.id in names
                        for x in ast.walk(n.value)):
                    names.add(n.targets[0].id)
                    grew = True
        return names

    def against(prm, limit):
        names = derived(prm)
        return any(({norm_src(n.left), norm_src(n.comparators[0])} -
                    {'%s()' % limit}) <= names and '%s()' % limit in (
                        norm_src(n.left), norm_src(n.comparators[0]))
                   and norm_src(n.left) != norm_src(n.comparators[0])
                   for n in cmps)

    if against(pc, '_maxcol') and against(pr_, '_maxrow'):
        rr.ok('_build_cel elides exactly the last column / last row', OPERAND)
    else:
        rr.fail(key_of(bc, 'elision'),
                '_build_cel no longer elides exactly column _maxcol() and row '
                '_maxrow() (tests: %s)' % t, file=OPERAND,
                function='_build_cel', line=bc.lineno)
    # defaults of the general resolver
    r2p = p.func(OPERAND, '_range2parts')
    want = {'c2': '_maxcol()', 'r2': '_maxrow()', 'n1': '0', 'r1': "'0'"}
    got = {}
    for n in own_nodes(r2p):
        if isinstance(n, ast.Call) and call_name(n) == 'add_data':
            did, dv = kwarg(n, 'data_id'), kwarg(n, 'default_value')
            if isinstance(did, ast.Constant) and dv is not None:
                got[did.value] = norm_src(dv)
    for k, v in want.items():
        rr.instances += 1
        if got.get(k) == v:
            rr.ok('open end %s defaults to %s' % (k, v), OPERAND)
        else:
            rr.fail(key_of(r2p, 'default of %s' % k),
                    'general resolver: default of %s is %s, expected %s (whole '
                    'row/column forms)' % (k, got.get(k), v), file=OPERAND,
                    function='_range2parts', line=r2p.lineno)
    sh_ = p.func('formulas/ranges.py', '_shape')
    rr.instances += 1
    t = ' '.join(norm_src(n) for n in own_nodes(sh_)
                 if isinstance(n, (ast.Assign, ast.Return)))
    if 'maxrow if r1 == 0 and r2 == maxrow' in t and \
            'maxcol if n1 == 0 and n2 == maxcol' in t:
        rr.ok('_shape gives whole rows/columns the full grid extent',
              'formulas/ranges.py')
    else:
        rr.note('_shape whole-row/column idiom not recognised (not checked)')
    return rr


def _regexes(ctx):
    env = ctx.ev.module_env(ctx.project.module(OPERAND))
    out = {}
    for n in ('_re_range', '_re_ref', '_re_sheet_id'):
        out[n] = rx.from_av(env.get(n), n)
    return out


def _str_consts(f):
    return {n.value for n in ast.walk(f.node) if isinstance(n, ast.Constant)
            and isinstance(n.value, str)}


def rule_groups(ctx):
    rr = RuleResult('C04', 'C04.groups', 'EXH',
                    'regex groups and their consumers', floor=17)
    p = ctx.project
    R = _regexes(ctx)
    env = ctx.ev.module_env(p.module(OPERAND))
    # the collection of keys the fast path filters its input with: the
    # iterable of the comprehension `{k: kw[k] for k in <keys> if k in kw}`
    key_name, literal_keys = '_keys', None
    fr = p.try_func(OPERAND, 'fast_range2parts')
    if fr is not None:
        its = [n.generators[0].iter for n in own_nodes(fr) if isinstance(
            n, ast.DictComp) and len(n.generators) == 1]
        if len(its) == 1 and isinstance(its[0], ast.Name):
            key_name = its[0].id
        elif len(its) == 1 and isinstance(its[0], (
                ast.Tuple, ast.List, ast.Set)) and its[0].elts and all(
                isinstance(e, ast.Constant) and isinstance(e.value, str)
                for e in its[0].elts):
            literal_keys = {e.value for e in its[0].elts}
    keys = env.get(key_name)
    key_set = literal_keys or {
        e.v for e in (ctx.ev.iterate(keys) or []) if is_const(e, str)}
    if not key_set:
        raise AnalysisError('%s is not a literal collection of strings'
                            % key_name)
    r2p = p.func(OPERAND, '_range2parts')
    bsi = p.func(OPERAND, '_build_sheet_id')
    consumers = set(key_set) | set(bsi.params) | _str_consts(r2p)
    for rel, q in ((OPERAND, 'range2parts'), (OPERAND, 'Range.process'),
                   ('formulas/ranges.py', 'Ranges.get_range'),
                   ('formulas/excel/__init__.py', 'ExcelModel.complete'),
                   ('formulas/excel/__init__.py', 'ExcelModel.write'),
                   ('formulas/cell.py', 'Cell._missing_ref'),
                   ('formulas/cell.py', 'Ref.__init__')):
        from ..util import with_helpers
        for g_ in with_helpers(ctx, p.func(rel, q)):
            consumers |= _str_consts(g_)
    groups = set()
    for name, r in R.items():
        for g in r.group_names():
            groups.add(g)
            rr.instances += 1
            if g in consumers:
                rr.ok('%s group <%s> is consumed' % (name, g), OPERAND)
            else:
                rr.fail('%s::%s::group %s unread' % (OPERAND, name, g),
                        'regex %s has the named group <%s> that no resolver '
                        'input, _build_sheet_id parameter or by-name test '
                        'reads: what it matches is silently ignored' % (name, g),
                        file=OPERAND, function=name, line=1)
    # general resolver: pure inputs must have a producer
    produced, defaults, used = set(), set(), {}
    for n in own_nodes(r2p):
        if isinstance(n, ast.Call) and call_name(n) == 'add_function':
            args = list(n.args)
            inp = kwarg(n, 'inputs') or (args[2] if len(args) > 2 else None)
            outp = kwarg(n, 'outputs') or (args[3] if len(args) > 3 else None)
            for lst, tgt in ((inp, 'in'), (outp, 'out')):
                if isinstance(lst, ast.List):
                    for e in lst.elts:
                        if isinstance(e, ast.Constant):
                            if tgt == 'out':
                                produced.add(e.value)
                            else:
                                used.setdefault(e.value, n)
        elif isinstance(n, ast.Call) and call_name(n) == 'add_data':
            did = kwarg(n, 'data_id')
            if isinstance(did, ast.Constant) and kwarg(
                    n, 'default_value') is not None:
                defaults.add(did.value)
    context_keys = {'cr', 'cc', 'sheet_id', 'ref', 'anchor'}
    for k, n in sorted(used.items()):
        rr.instances += 1
        if k in produced or k in defaults or k in groups or k in context_keys:
            rr.ok('resolver input %r has a producer (group/default/function)'
                  % k, '%s:%d' % (OPERAND, n.lineno))
        else:
            rr.fail(key_of(r2p, 'input %s without producer' % k),
                    'the general resolver reads %r, which no regex group, '
                    'default or function produces: that edge never fires' % k,
                    file=OPERAND, function='_range2parts', line=n.lineno)
    return rr


def _tail_inlined(ctx, f):
    """If f ends in `return helper(args)` where helper is a straight-line
    private function of the module, a view of f with the helper's body in
    place of that call (parameters replaced by the argument expressions): the
    fast paths may share a builder without changing what they compute."""
    import copy
    from ..model import FuncInfo
    rets = [n for n in f.node.body if isinstance(n, ast.Return)]
    if len(rets) != 1 or not isinstance(rets[0].value, ast.Call):
        return f
    call = rets[0].value
    r = ctx.cg.resolve_name_expr(f, call.func) if isinstance(
        call.func, (ast.Name, ast.Attribute)) else None
    if not (r and r[0] == 'func'):
        return f
    h = r[1]
    if h.module is not f.module or h.vararg or any(
            isinstance(a, ast.Starred) for a in call.args) or any(
            k.arg is None for k in call.keywords) or \
            len(call.args) > len(h.params) or any(
            isinstance(s, (ast.If, ast.For, ast.While, ast.Try, ast.With))
            for s in h.node.body):
        return f
    sub = dict(zip(h.params, call.args))
    extra = []
    for k in call.keywords:
        if k.arg in h.params and k.arg not in sub:
            sub[k.arg] = k.value
        elif h.kwarg and k.arg not in h.params:
            extra.append(k)
        else:
            return f
    if set(sub) != set(h.params):
        return f
    if h.kwarg:
        # `**extra` receives the keywords no parameter takes
        sub[h.kwarg] = ast.Dict(
            keys=[ast.Constant(value=k.arg) for k in extra],
            values=[k.value for k in extra])

    class S(ast.NodeTransformer):
        def visit_Name(self, n):
            if isinstance(n.ctx, ast.Load) and n.id in sub:
                return copy.deepcopy(sub[n.id])
            return n

    body = [s for s in f.node.body if s is not rets[0]]
    hbody = [S().visit(copy.deepcopy(s)) for s in h.node.body]
    node = copy.copy(f.node)
    node.body = body + hbody
    ast.fix_missing_locations(node)
    g = FuncInfo(f.module, node, f.qualname, f.cls, f.parent)
    return g


def _returned_dict(f):
    """{constant key: value expression} of the mapping the function returns:
    a dict literal, or a local mapping built in straight-line code from a
    literal / `dict(zip(keys, values))` and then filled by item assignments
    and `update` calls."""
    rets = [n.value for n in own_nodes(f) if isinstance(n, ast.Return)
            and n.value is not None]
    if len(rets) != 1:
        raise AnalysisError('%s: expected one returned dict' % f.fq)

    def literal(v):
        if isinstance(v, ast.Dict) and all(
                isinstance(k, ast.Constant) for k in v.keys):
            return {k.value: x for k, x in zip(v.keys, v.values)}
        if isinstance(v, ast.Call) and isinstance(
                v.func, ast.Name) and v.func.id == 'dict' and len(
                v.args) == 1 and not v.keywords and isinstance(
                v.args[0], ast.Call) and isinstance(
                v.args[0].func, ast.Name) and v.args[0].func.id == 'zip' \
                and len(v.args[0].args) == 2 and all(isinstance(
                    a, (ast.Tuple, ast.List)) for a in v.args[0].args) and \
                len(v.args[0].args[0].elts) == len(v.args[0].args[1].elts) \
                and all(isinstance(k, ast.Constant)
                        for k in v.args[0].args[0].elts):
            return {k.value: x for k, x in zip(v.args[0].args[0].elts,
                                               v.args[0].args[1].elts)}
        return None

    d = literal(rets[0])
    if d is not None:
        return d
    if not isinstance(rets[0], ast.Name):
        raise AnalysisError('%s: expected one returned dict' % f.fq)
    name, d = rets[0].id, None
    for st in f.body:
        touches = any(isinstance(x, ast.Name) and x.id == name
                      for x in ast.walk(st))
        if not touches:
            continue
        if isinstance(st, ast.Assign) and len(st.targets) == 1 and isinstance(
                st.targets[0], ast.Name) and st.targets[0].id == name:
            d = literal(st.value)
            if d is None:
                break
            continue
        if d is None:
            break
        if isinstance(st, ast.Assign) and len(st.targets) == 1 and isinstance(
                st.targets[0], ast.Subscript) and isinstance(
                st.targets[0].value, ast.Name) and st.targets[
                0].value.id == name and isinstance(
                st.targets[0].slice, ast.Constant):
            d[st.targets[0].slice.value] = st.value
            continue
        if isinstance(st, ast.Expr) and isinstance(
                st.value, ast.Call) and isinstance(
                st.value.func, ast.Attribute) and st.value.func.attr == \
                'update' and isinstance(st.value.func.value, ast.Name) and \
                st.value.func.value.id == name:
            ok = True
            for a in st.value.args:
                lit = literal(a)
                if lit is None:
                    ok = False
                else:
                    d.update(lit)
            for k in st.value.keywords:
                if k.arg is None:
                    ok = False
                else:
                    d[k.arg] = k.value
            if ok:
                continue
            d = None
            break
        if isinstance(st, ast.Return):
            continue
        d = None
        break
    if d is None:
        raise AnalysisError('%s: the construction of the returned mapping '
                            '`%s` was not followed' % (f.fq, name))
    return d


def _local_value(f, name):
    """The expression a local is computed by.  A local that is additionally
    swapped with a sibling (`a, b = b, a` under a test) keeps the computing
    definition: re-ordering corners does not change how a part is derived."""
    from .common import _defs_of
    defs = _defs_of(f, name)
    real = [d for d in defs if not isinstance(d, ast.Name)]
    # `c1, c2, n1, n2 = c2, c1, n2, n1`: _defs_of hands back the whole tuple
    real = [d for d in real if not (isinstance(d, ast.Tuple) and all(
        isinstance(e, ast.Name) for e in d.elts))]
    if len(real) == 1 and len(defs) > 1:
        return real[0]
    for n in own_nodes(f):
        if isinstance(n, ast.Assign):
            for t in n.targets:
                if isinstance(t, ast.Name) and t.id == name:
                    return n.value
                if isinstance(t, ast.Tuple) and isinstance(n.value, ast.Tuple):
                    for tt, vv in zip(t.elts, n.value.elts):
                        if isinstance(tt, ast.Name) and tt.id == name:
                            return vv
    return None


def _expanded_src(f, expr, depth=3):
    """Source of expr together with the source of everything its local names
    are computed from (tuple-unpacking assignments included): what a value is
    built from, however many named steps the code takes."""
    out, seen, work = [norm_src(expr)], set(), [(expr, 0)]
    while work:
        e, d = work.pop()
        for x in ast.walk(e):
            if not (isinstance(x, ast.Name) and x.id not in seen):
                continue
            seen.add(x.id)
            if d >= depth:
                continue
            for n in own_nodes(f):
                if not isinstance(n, ast.Assign):
                    continue
                for t in n.targets:
                    if any(isinstance(y, ast.Name) and y.id == x.id
                           for y in ast.walk(t)):
                        out.append(norm_src(n.value))
                        work.append((n.value, d + 1))
    return ' ; '.join(out)


def rule_fast(ctx):
    rr = RuleResult('C04', 'C04.fast', 'SIB',
                    'fast paths agree with the general resolver', floor=6)
    p = ctx.project
    fr = p.func(OPERAND, 'fast_range2parts')
    names = []
    for n in own_nodes(fr):
        if not isinstance(n, ast.For):
            continue
        it_ = n.iter
        if isinstance(it_, ast.Name):
            # the list kept in a module-level constant
            mv = fr.module.assigns.get(it_.id) or []
            if len(mv) == 1:
                it_ = mv[0]
        if isinstance(it_, (ast.Tuple, ast.List)):
            cand = [e.id for e in it_.elts if isinstance(e, ast.Name)]
            if len(cand) >= 3 and all(
                    p.try_func(OPERAND, c_) is not None for c_ in cand):
                names = cand
    if len(names) < 3:
        raise AnalysisError('fast_range2parts: list of fast paths not found')
    for nm in names:
        f = _tail_inlined(ctx, p.func(OPERAND, nm))
        rr.instances += 1
        d = _returned_dict(f)
        problems = []
        params = set(f.params)
        # ref upper-cased
        refv = d.get('ref')
        refname = norm_src(refv) if refv is not None else 'ref'
        if isinstance(refv, ast.Name):
            refv = _local_value(f, refv.id)
        if refv is None or not (isinstance(refv, ast.Call) and isinstance(
                refv.func, ast.Attribute) and refv.func.attr == 'upper'):
            problems.append('`ref` is not upper-cased')
        else:
            inner = refv.func.value
            cells = _expanded_src(f, inner)
            if 'ref' in params:
                pass
            elif not ('_build_cel' in cells or '_build_ref' in cells):
                problems.append('`ref` is not built through _build_cel/_build_ref')
        namev = d.get('name')
        if not (isinstance(namev, ast.Call) and call_name(namev) == '_build_id'
                and [norm_src(bound_arg(ctx, f, namev, i, nm_) or
                              ast.Constant(None))
                     for i, nm_ in enumerate(('ref', 'sheet_id'))] ==
                [refname, 'sheet_id']):
            problems.append('`name` is not _build_id(ref, sheet_id)')
        if 'c1' in params:
            n1 = d.get('n1')
            if isinstance(n1, ast.Name):
                n1 = _local_value(f, n1.id)
            if n1 is None or norm_src(n1) not in ('_col2index(c1)',
                                                  '_col2index(c2)'):
                problems.append('n1 is not _col2index(c1)')
        if 'n1' in params:
            c1 = d.get('c1')
            if isinstance(c1, ast.Name):
                c1 = _local_value(f, c1.id)
            if c1 is None or '_index2col(n1)' != norm_src(c1):
                problems.append('c1 is not _index2col(n1)')
        n2v = d.get('n2')
        if isinstance(n2v, ast.Name):
            n2v = _local_value(f, n2v.id)
        if 'c2' in params and norm_src(n2v or ast.Constant(0)) not in (
                '_col2index(c2)', '_col2index(c1)'):
            problems.append('n2 is not _col2index(c2)')
        if 'n2' in params:
            c2 = d.get('c2')
            if isinstance(c2, ast.Name):
                c2 = _local_value(f, c2.id)
            if c2 is None or norm_src(c2) != '_index2col(n2)':
                problems.append('c2 is not _index2col(n2)')
        cell_keys = {'r1', 'r2', 'c1', 'c2', 'n1', 'n2'}
        if params & cell_keys and not cell_keys <= set(d):
            problems.append('missing keys %s' % sorted(cell_keys - set(d)))
        if 'anchor' in params and 'anchor' not in d:
            problems.append('anchor not returned')
        # single-cell variants: r2/c2/n2 mirror r1/c1/n1
        if 'r2' not in params and 'r1' in params:
            for a, b in (('r2', 'r1'), ('c2', 'c1'), ('n2', 'n1')):
                if a in d and norm_src(d[a]) != norm_src(d.get(b) or
                                                         ast.Constant(0)):
                    problems.append('%s differs from %s for a single cell' % (a, b))
        if problems:
            rr.fail(key_of(f, 'deviates from sibling resolvers'),
                    '%s: %s - the same reference resolves differently through '
                    'this path than through the others' % (nm, '; '.join(problems)),
                    file=OPERAND, function=nm, line=f.lineno)
        else:
            rr.ok('%s: ref upper-cased, name=_build_id(ref, sheet_id), '
                  'column<->index helpers, keys %s' % (nm, sorted(d)),
                  '%s:%d' % (OPERAND, f.lineno))
    # parameters fed from regex groups are text: an ordering test on them needs
    # a numeric conversion first
    groups = set()
    for r_ in _regexes(ctx).values():
        groups |= set(r_.group_names())
    for nm in names:
        f = p.func(OPERAND, nm)
        textual = set(f.params) & groups
        for n in own_nodes(f):
            if not (isinstance(n, ast.Compare) and any(isinstance(
                    o, (ast.Lt, ast.Gt, ast.LtE, ast.GtE)) for o in n.ops)):
                continue
            bare = [x for x in [n.left] + list(n.comparators)
                    if isinstance(x, ast.Name) and x.id in textual]
            # a parameter re-bound to a converted value is no longer text
            from .common import _defs_of
            bare = [x for x in bare if not any(
                not isinstance(d_, ast.Name) and not (
                    isinstance(d_, ast.Tuple) and all(
                        isinstance(e_, ast.Name) for e_ in d_.elts))
                for d_ in _defs_of(f, x.id))]
            if len(bare) >= 2 or (bare and not any(isinstance(
                    x, ast.Constant) for x in [n.left] + list(n.comparators))):
                rr.instances += 1
                rr.fail(key_of(f, 'regex-fed parts ordered as text'),
                        '%s orders `%s`: these parameters arrive as the text '
                        'of regex groups when the reference comes from the '
                        'tokenizer (\'9\' > \'10\'), so corners are swapped '
                        'for column or row numbers of different length and '
                        'the R1C1 spelling gets another identifier than the '
                        'A1 spelling of the same rectangle' % (
                            nm, norm_src(n)), file=OPERAND, function=nm,
                        line=n.lineno)
    # general graph
    r2p = p.func(OPERAND, '_range2parts')
    rr.instances += 1
    # add_function(function_id, function, inputs, outputs) / add_data(data_id,
    # .., filters=..), arguments read by position or by keyword
    edges = set()
    for n in own_nodes(r2p):
        if not isinstance(n, ast.Call):
            continue
        if call_name(n) == 'add_function':
            a = {k: (n.args[i] if i < len(n.args) else kwarg(n, k))
                 for i, k in enumerate(('function_id', 'function', 'inputs',
                                        'outputs'))}
            if None not in (a['function'], a['inputs'], a['outputs']):
                edges.add('%s, %s, %s' % (norm_src(a['function']), norm_src(
                    a['inputs']), norm_src(a['outputs'])))
        elif call_name(n) == 'add_data':
            did = n.args[0] if n.args else kwarg(n, 'data_id')
            flt = kwarg(n, 'filters')
            if did is not None and flt is not None:
                edges.add('data %s filters=%s' % (norm_src(did), norm_src(flt)))
    txt = ' | '.join(sorted(edges))
    need = {
        "ref filtered by str.upper": "data 'ref' filters=(str.upper,)",
        "ref built by _build_ref": "_build_ref, ['c1', 'r1', 'c2', 'r2', 'anchor'], ['ref']",
        "name built by _build_id": "_build_id, ['ref', 'sheet_id'], ['name']",
        "n1 from c1": "_col2index, ['c1'], ['n1']",
        "c1 from n1": "_index2col, ['n1'], ['c1']",
        "n2 from c2": "_col2index, ['c2'], ['n2']",
        "c2 from n2": "_index2col, ['n2'], ['c2']",
    }
    missing = [k for k, v in need.items() if v not in edges]
    if missing:
        rr.fail(key_of(r2p, 'general resolver edges'),
                'the general resolver lacks: %s' % '; '.join(missing),
                file=OPERAND, function='_range2parts', line=r2p.lineno)
    else:
        rr.ok('general resolver: same normalisers as the fast paths', OPERAND)
    # try order: a path is only taken when its signature matches (TypeError)
    rr.instances += 1
    handlers = [h for n in own_nodes(fr) if isinstance(n, ast.Try)
                for h in n.handlers]
    if handlers and all('TypeError' in norm_src(h.type) for h in handlers
                        if h.type is not None):
        rr.ok('fast paths are selected by signature (TypeError -> next)', OPERAND)
    else:
        rr.fail(key_of(fr, 'fast path selection'),
                'fast_range2parts no longer falls through on TypeError only',
                file=OPERAND, function='fast_range2parts', line=fr.lineno)
    # both corners: a fast path is chosen by which parts are present, so the
    # parts it looks at come in corner pairs - a path that reads the first
    # corner of a spelling and never looks for the second resolves `a:b` to `a`
    mentioned = {}
    for n in own_nodes(fr):
        if isinstance(n, ast.Constant) and isinstance(n.value, str):
            mentioned.setdefault(n.value, n)
    env = ctx.ev.module_env(p.module(OPERAND))
    for n in own_nodes(fr):
        if isinstance(n, ast.Name) and isinstance(n.ctx, ast.Load):
            for e in (ctx.ev.iterate(env.get(n.id)) or []) if env.get(
                    n.id) is not None else []:
                if is_const(e, str):
                    mentioned.setdefault(e.v, n)
    for base in ('r', 'c', 'n', 'rr', 'rc'):
        if base + '1' not in mentioned:
            continue
        rr.instances += 1
        if base + '2' in mentioned:
            rr.ok('fast_range2parts looks at %s1 and at %s2' % (base, base),
                  '%s:%d' % (OPERAND, fr.lineno))
        else:
            n = mentioned[base + '1']
            rr.fail(key_of(fr, 'second corner ignored'),
                    'fast_range2parts reads the part %r of the first corner '
                    'but never looks for %r: a two-corner spelling that '
                    'carries it is resolved to its first corner only, so two '
                    'different rectangles share one identifier' % (
                        base + '1', base + '2'), file=OPERAND,
                    function='fast_range2parts', line=getattr(
                        n, 'lineno', fr.lineno))
    return rr


def rule_case(ctx):
    rr = RuleResult('C04', 'C04.case', 'TAB',
                    'ids made from user text are upper-cased', floor=4)
    p = ctx.project
    bsi = p.func(OPERAND, '_build_sheet_id')
    rr.instances += 1
    first = None
    for n in bsi.node.body:
        if isinstance(n, ast.Expr) and isinstance(n.value, ast.Constant):
            continue  # docstring
        if isinstance(n, ast.Assign) and isinstance(n.targets[0], ast.Name) and \
                n.targets[0].id == 'sheet':
            first = n
        break
    chain = norm_src(first.value) if first is not None else ''
    if first is not None and '.upper()' in chain:
        rr.ok('_build_sheet_id upper-cases the sheet name first', OPERAND)
    else:
        rr.fail(key_of(bsi, 'sheet not upper-cased'),
                '_build_sheet_id no longer upper-cases the sheet name: `sheet1` '
                'and `SHEET1` give different node ids', file=OPERAND,
                function='_build_sheet_id', line=bsi.lineno)
    ar = p.func('formulas/excel/__init__.py', 'ExcelModel.add_references')
    rr.instances += 1
    refs = [n for n in own_nodes(ar) if isinstance(n, ast.Call)
            and call_name(n) == 'Ref']
    if refs and all('.upper()' in norm_src(r.args[0]) for r in refs if r.args):
        rr.ok('defined names are registered upper-cased', ar.module.rel)
    else:
        rr.fail(key_of(ar, 'defined name not upper-cased'),
                'add_references registers defined names without upper-casing '
                'them', file=ar.module.rel, function=ar.qualname, line=ar.lineno)
    asf = p.func('formulas/excel/__init__.py', 'ExcelModel.add_sheet')
    rr.instances += 1
    t = ' '.join(norm_src(n) for n in own_nodes(asf) if isinstance(n, ast.Dict))
    if "'sheet': worksheet.title.upper()" in t:
        rr.ok('sheet context uses the upper-cased title', asf.module.rel)
    else:
        rr.fail(key_of(asf, 'sheet title not upper-cased'),
                'add_sheet no longer upper-cases the worksheet title used for '
                'node ids', file=asf.module.rel, function=asf.qualname,
                line=asf.lineno)
    r2p = p.func(OPERAND, '_range2parts')
    rr.instances += 1
    t = ' '.join(norm_src(n) for n in own_nodes(r2p) if isinstance(n, ast.Call))
    if "data_id='ref', filters=(str.upper,)" in t:
        rr.ok('general resolver upper-cases ref', OPERAND)
    else:
        rr.fail(key_of(r2p, 'ref not upper-cased'),
                'the general resolver no longer filters `ref` through str.upper',
                file=OPERAND, function='_range2parts', line=r2p.lineno)
    return rr


def rule_quote(ctx):
    rr = RuleResult('C04', 'C04.quote', 'SYM',
                    'sheet-id writer vs reader: quoting and quote doubling',
                    floor=2)
    p = ctx.project
    R = _regexes(ctx)
    sid = R['_re_sheet_id']
    subs = sid.groups_named('sheet')
    if len(subs) < 3:
        raise AnalysisError('_re_sheet_id: expected several <sheet> alternatives')
    # unquoted alternative = the one whose language excludes the quote char and
    # is built from word characters
    unq = None
    quoted_chars = set()
    for s in subs:
        items = list(s)
        chars = set()
        for it in items:
            cs = rx.charset(it)
            if cs is not None:
                chars |= cs
            elif it[0] in (rx.sre_c.MAX_REPEAT, rx.sre_c.MIN_REPEAT):
                for b in it[1][2]:
                    c2 = rx.charset(b)
                    if c2 is not None:
                        chars |= c2
                    elif b[0] is rx.sre_c.BRANCH or b[0] is getattr(
                            rx.sre_c, 'ATOMIC_GROUP', None) or \
                            b[0] is rx.sre_c.SUBPATTERN:
                        try:
                            chars |= set(''.join(rx.language(
                                [b], max_rep=1, limit=5000)))
                        except Exception:
                            pass
        if chars and ' ' not in chars and '-' not in chars:
            unq = (s, chars)
        else:
            quoted_chars |= chars
    if unq is None:
        raise AnalysisError('_re_sheet_id: unquoted <sheet> alternative not found')
    unq_chars = unq[1]
    first_chars, _ = rx.first_chars(unq[0])
    need_quote = sorted(c for c in quoted_chars - unq_chars
                        if c not in "'" and c.isprintable())
    bsi = p.func(OPERAND, '_build_sheet_id')
    # the writer's predicate
    # the statement that wraps the sheet name in quotes (`"'%s'" % sheet`,
    # in any formatting spelling, assigned or returned) and the condition
    # under which it runs - nested `if` or guard clauses alike
    from ..util import template_of, path_conditions
    quoting = None

    def arms(e, conds):
        """(expression, conditions) for the arms of conditional expressions."""
        if isinstance(e, ast.IfExp):
            yield from arms(e.body, conds + [(e.test, True)])
            yield from arms(e.orelse, conds + [(e.test, False)])
        else:
            yield e, conds

    for n in own_nodes(bsi):
        if isinstance(n, (ast.Assign, ast.Return)) and n.value is not None:
            for e_, extra in arms(n.value, []):
                t_ = template_of(e_)
                if not (t_ and t_[0] == "'{}'" and len(t_[1]) == 1):
                    continue
                arg = {x.id for x in ast.walk(t_[1][0])
                       if isinstance(x, ast.Name)}
                pos = [(c, pol) for c, pol in path_conditions(bsi, n) + extra
                       if arg & {x.id for x in ast.walk(c)
                                 if isinstance(x, ast.Name)}]
                if len(pos) == 1:
                    quoting = pos[0][0] if pos[0][1] else ast.copy_location(
                        ast.UnaryOp(op=ast.Not(), operand=pos[0][0]),
                        pos[0][0])
    rr.instances += 1
    if quoting is None:
        raise AnalysisError('_build_sheet_id: quoting branch not found')
    covered = set()
    recognised = False
    conj = quoting.values if isinstance(quoting, ast.BoolOp) and isinstance(
        quoting.op, ast.Or) else [quoting]
    for c in conj:
        if isinstance(c, ast.Compare) and isinstance(c.ops[0], ast.In) and \
                isinstance(c.left, ast.Constant) and isinstance(
                c.left.value, str):
            covered.add(c.left.value)
            recognised = True
        elif isinstance(c, ast.UnaryOp) and isinstance(c.op, ast.Not) and \
                isinstance(c.operand, ast.Call) and call_name(c.operand) in (
                'match', 'fullmatch'):
            # regex based predicate: evaluate the constant pattern on samples
            recv = c.operand.func.value
            r = ctx.cg.resolve_name_expr(bsi, recv) if isinstance(
                recv, (ast.Name, ast.Attribute)) else None
            if r and r[0] == 'var':
                av = ctx.ev.module_env(r[1]).get(r[2])
                pat = rx.from_av(av, r[2])
                cre = re.compile(pat.norm, pat.flags)
                fn = getattr(cre, call_name(c.operand))
                samples = ['A-B', '1A', 'A B', 'A.B', 'AB', 'A(1)', 'A+B']
                if all(bool(fn(s)) == bool(re.fullmatch(
                        r"[^\W\d][\w.]*", s)) for s in samples):
                    covered |= set(need_quote) | {'<digit-first>'}
                    recognised = True
    if not recognised:
        raise AnalysisError('_build_sheet_id: quoting predicate `%s` not '
                            'recognised' % norm_src(quoting))
    missing = [c for c in need_quote if c not in covered]
    digit_first = any(c.isdigit() for c in unq_chars) and not any(
        c.isdigit() for c in first_chars)
    if missing or (digit_first and '<digit-first>' not in covered):
        rr.fail(key_of(bsi, 'quoting predicate weaker than the reader'),
                '_build_sheet_id quotes a sheet name only when `%s`, but the '
                'reader\'s unquoted form only accepts [letter_][\\w.]*: names '
                'containing %s%s are written unquoted and do not read back '
                '(e.g. sheet `A-B` -> id `A-B!A1`)' % (
                    norm_src(quoting),
                    ' '.join(repr(c) for c in missing[:12]),
                    ' or starting with a digit' if digit_first else ''),
                file=OPERAND, function='_build_sheet_id', line=bsi.lineno,
                items=['%02x' % ord(c) for c in missing] + (
                    ['digit-first'] if digit_first and
                    '<digit-first>' not in covered else []))
    else:
        rr.ok('the writer quotes every name the unquoted reader form rejects',
              OPERAND)
    # quote doubling
    rr.instances += 1
    undoubles = any(isinstance(n, ast.Call) and call_name(n) == 'replace' and
                    [getattr(a, 'value', None) for a in n.args] == ["''", "'"]
                    for n in own_nodes(bsi))
    redoubles = any(isinstance(n, ast.Call) and call_name(n) == 'replace' and
                    [getattr(a, 'value', None) for a in n.args] == ["'", "''"]
                    for n in own_nodes(bsi))
    if undoubles and not redoubles:
        rr.fail(key_of(bsi, 'quote un-doubled but not re-doubled'),
                "_build_sheet_id turns '' into ' and writes the result between "
                "quotes without doubling it again: sheet `A'B` is written as "
                "`'A'B'`, which the reader cannot parse", file=OPERAND,
                function='_build_sheet_id', line=bsi.lineno)
    else:
        rr.ok('quotes inside a sheet name are kept/re-doubled', OPERAND)
    return rr


def rule_extlink(ctx):
    """[n]Sheet!A1 names the n-th external link of the workbook: the table the
    resolver consults must be keyed by the 1-based position in the *complete*
    list of links."""
    from ..util import assigned_value
    rr = RuleResult('C04', 'C04.extlink', 'DEP',
                    'external-link indices are positions in the complete link '
                    'list, 1-based', floor=2)
    p = ctx.project
    f = p.func('formulas/excel/__init__.py', 'ExcelModel.add_book')
    # the table may be built by a private helper of add_book
    from ..util import with_helpers
    for g_ in with_helpers(ctx, f):
        if any(isinstance(n, ast.Assign) and any(
                isinstance(t, ast.Subscript) and isinstance(
                    t.slice, ast.Constant) and
                t.slice.value == 'external_links' for t in n.targets)
                for n in own_nodes(g_)):
            f = g_
            break
    stores = [n for n in own_nodes(f) if isinstance(n, ast.Assign) and any(
        isinstance(t, ast.Subscript) and isinstance(t.slice, ast.Constant)
        and t.slice.value == 'external_links' for t in n.targets)]
    enums = [n for n in own_nodes(f) if isinstance(n, ast.Call) and isinstance(
        n.func, ast.Name) and n.func.id == 'enumerate' and n.args]
    # numbering by the size of the table being filled: `t[str(len(t) + 1)] = ..`
    # counts the entries kept so far - the position only if nothing is skipped
    for n in own_nodes(f):
        if not (isinstance(n, ast.Assign) and len(n.targets) == 1 and isinstance(
                n.targets[0], ast.Subscript) and isinstance(
                n.targets[0].value, ast.Name)):
            continue
        tab = n.targets[0].value.id
        lens = [c for c in ast.walk(n.targets[0].slice) if isinstance(
            c, ast.Call) and isinstance(c.func, ast.Name) and c.func.id == 'len'
            and c.args and isinstance(c.args[0], ast.Name)
            and c.args[0].id == tab]
        if not lens:
            continue
        # is this table the external_links table?
        is_links = any(isinstance(x, ast.Name) and x.id == tab
                       for st in stores for x in ast.walk(st)) or any(
            isinstance(t, ast.Name) and t.id == tab
            for st in stores for t in st.targets)
        if not is_links:
            continue
        rr.instances += 1
        # conditional store inside a loop = entries are skipped before counting
        parents = {}
        for x in ast.walk(f.node):
            for c in ast.iter_child_nodes(x):
                parents[id(c)] = x
        cur, cond, loop = parents.get(id(n)), None, None
        while cur is not None and cur is not f.node:
            if isinstance(cur, ast.If) and loop is None:
                cond = cond or cur
            if isinstance(cur, (ast.For, ast.While)):
                loop = cur
                break
            cur = parents.get(id(cur))
        skipping = cond is not None or (loop is not None and any(
            isinstance(x, ast.Continue) for x in ast.walk(loop)))
        if loop is not None and skipping:
            rr.fail(key_of(f, 'link index counted after filtering'),
                    'add_book numbers the external links with `%s`, the number '
                    'of links kept so far, inside a loop that skips some (`%s`): '
                    'the index no longer is the position in the workbook\'s '
                    'link list, so [n]Sheet!A1 resolves to a different '
                    'workbook than Excel\'s n-th link whenever a skipped link '
                    'precedes it' % (norm_src(n.targets[0].slice)[:40],
                                     norm_src(cond.test)[:40] if cond is not
                                     None else 'continue'),
                    file=f.module.rel, function=f.qualname, line=n.lineno)
        else:
            rr.ok('links are numbered by the size of the table and none is '
                  'skipped', '%s:%d' % (f.module.rel, n.lineno))
        rr.instances += 1
        sl = n.targets[0].slice
        inner = sl.args[0] if isinstance(sl, ast.Call) and sl.args else sl
        one_based = isinstance(inner, ast.BinOp) and isinstance(
            inner.op, ast.Add) and any(isinstance(x, ast.Constant) and
                                       x.value == 1
                                       for x in (inner.left, inner.right))
        if one_based:
            rr.ok('link keys are str(count + 1), 1-based', f.module.rel)
        else:
            rr.fail(key_of(f, 'link index not 1-based'),
                    'add_book keys the link table with `%s`: Excel\'s [n] is '
                    '1-based' % norm_src(sl)[:40], file=f.module.rel,
                    function=f.qualname, line=n.lineno)
        return rr
    if not stores or not enums:
        raise AnalysisError('add_book: construction of the external_links '
                            'table not recognised')

    def classify(e, depth=0):
        """'full' | 'filtered' | 'unknown' for the sequence e enumerates."""
        if depth > 5:
            return 'unknown', e
        if isinstance(e, ast.Attribute) and e.attr == '_external_links':
            return 'full', e
        if isinstance(e, ast.Name):
            vals = assigned_value(f, e.id)
            if len(vals) == 1:
                return classify(vals[0], depth + 1)
            return 'unknown', e
        if isinstance(e, ast.Call) and isinstance(e.func, ast.Name):
            if e.func.id in ('list', 'tuple', 'iter') and e.args:
                return classify(e.args[0], depth + 1)
            if e.func.id == 'map' and len(e.args) == 2:
                return classify(e.args[1], depth + 1)
            if e.func.id == 'filter':
                return 'filtered', e
        if isinstance(e, (ast.GeneratorExp, ast.ListComp)) and \
                len(e.generators) == 1:
            if e.generators[0].ifs:
                return 'filtered', e
            return classify(e.generators[0].iter, depth + 1)
        if isinstance(e, ast.Subscript) and isinstance(e.slice, ast.Slice):
            return 'filtered', e
        return 'unknown', e

    for en in enums:
        rr.instances += 1
        kind, where = classify(en.args[0])
        if kind == 'unknown':
            raise AnalysisError('add_book: cannot tell what `%s` enumerates'
                                % norm_src(en))
        if kind == 'filtered':
            rr.fail(key_of(f, 'link index counted after filtering'),
                    'add_book numbers the external links with `%s`, i.e. '
                    'after `%s` has removed entries: the index no longer is '
                    'the position in the workbook\'s link list, so [n]Sheet!A1 '
                    'resolves to a different workbook than Excel\'s n-th link '
                    'whenever a skipped link precedes it' % (
                        norm_src(en)[:80], norm_src(where)[:60]),
                    file=f.module.rel, function=f.qualname, line=en.lineno)
        else:
            rr.ok('link indices enumerate the complete `_external_links` list '
                  '(filtering happens after numbering)', '%s:%d' % (
                      f.module.rel, en.lineno))
        # 1-based
        rr.instances += 1
        start = 0
        if len(en.args) > 1 and isinstance(en.args[1], ast.Constant):
            start = en.args[1].value
        elif kwarg(en, 'start') is not None and isinstance(
                kwarg(en, 'start'), ast.Constant):
            start = kwarg(en, 'start').value
        elif len(en.args) > 1 or kwarg(en, 'start') is not None:
            raise AnalysisError('add_book: enumerate start not constant')
        # the loop variable bound to the index
        ivar = None
        for n in own_nodes(f):
            if isinstance(n, (ast.comprehension, ast.For)) and n.iter is en \
                    and isinstance(n.target, ast.Tuple) and isinstance(
                    n.target.elts[0], ast.Name):
                ivar = n.target.elts[0].id
        if ivar is None:
            raise AnalysisError('add_book: index variable of enumerate not '
                                'found')
        offs = set()
        for n in own_nodes(f):
            if isinstance(n, ast.Call) and isinstance(n.func, ast.Name) and \
                    n.func.id == 'str' and n.args:
                a = n.args[0]
                if isinstance(a, ast.Name) and a.id == ivar:
                    offs.add(0)
                elif isinstance(a, ast.BinOp) and isinstance(a.op, ast.Add) \
                        and isinstance(a.left, ast.Name) and a.left.id == ivar \
                        and isinstance(a.right, ast.Constant):
                    offs.add(a.right.value)
                elif ivar in {x.id for x in ast.walk(a)
                              if isinstance(x, ast.Name)}:
                    offs.add(None)
        if offs == {1 - start}:
            rr.ok('link keys are str(position), 1-based', f.module.rel)
        elif not offs or None in offs:
            raise AnalysisError('add_book: key expression of the link table '
                                'not recognised')
        else:
            rr.fail(key_of(f, 'link index not 1-based'),
                    'add_book keys the link table with position + %s '
                    '(enumerate start %s): Excel\'s [n] is 1-based' % (
                        sorted(offs), start), file=f.module.rel,
                    function=f.qualname, line=en.lineno)
    return rr


def _cachekey(ctx):
    from .common import rule_cachekey
    rr = rule_cachekey(ctx, 'C04', 'C04.cachekey', [
        OPERAND, 'formulas/ranges.py', 'formulas/cell.py'])
    rr.floor = 0
    if not rr.instances:
        rr.instances = 1
        rr.ok('the reference resolver keeps no hand-written memo keyed by a '
              'computed key (its memoised helpers use functools.lru_cache on '
              'all arguments)', OPERAND, nontrivial=False)
    return rr


def run(ctx):
    S = ctx.soft
    return [S(rule_limits, ctx), S(rule_groups, ctx), S(rule_fast, ctx), S(rule_case, ctx),
            S(rule_quote, ctx), S(rule_extlink, ctx), S(_cachekey, ctx)]
