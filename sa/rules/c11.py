"""C11 - worksheet functions are total and never lose an error value (structural clauses)."""
import ast

from ..model import AnalysisError, own_nodes, norm_src
from ..peval import (FuncV, Ext, CallV, DictV, SeqV, TokenV, Const, ClassV,
                     Unknown, is_const)
from ..report import RuleResult
from ..cfg import CFG
from ..posset import PosSet, positions_in
from ..effects import Exceptions, ExcClass
from ..errflow import ErrFlow, FUNCS_REL, TRUE, FALSE, UNK, SINK_FUNCS, SINK_EXT
from ..util import key_of, src, call_name, kwarg, stmts_of
from .common import reg_targets

META = {
    'decides': (
        'C11, structural clauses only: (total) every registration is behind '
        'the catch-all wrapper or its core has an empty exception-escape set; '
        '(catch) the catch-all maps FoundError to its payload and every other '
        'non-BaseError exception to #VALUE!, and every BaseError class that can '
        'escape a registered core is handled by an enclosing layer; (finite) '
        'results pass a non-finite -> #NUM! funnel; (errkeep) no argument of a '
        'registered function reaches an error-dropping sink (to_number, '
        'nan_to_num, flatten/filter with a predicate that rejects XlError) '
        'without a dominating error check, and every position skipped by a '
        'custom check_error is a documented handler/inspector position or is '
        'checked by the core; (unused) every whole-argument function '
        '(registered without the element-wise wrapper, or installed as a node '
        'of a dispatcher built in formulas/functions) looks at each of its '
        'arguments on every path that returns a non-error value - an `is '
        'None` test does not count, a None argument is not an error; (table) '
        'unknown function names resolve to not_implemented.'
        ' (scanpure) get_error / raise_errors and what they call write to none of their arguments, keep no module state and are not memoised; (sinks) a conversion mapped over the values whose `str` case returns a constant drops error values (XlError is a str) and needs a dominating check.'),
    'not_decided': (
        'That the returned value is a well-formed Excel value for every '
        'argument kind, which error code is produced, and exceptions raised '
        'implicitly by library calls outside the short implicit-raiser table.'),
    'trusted_base': [
        'CPython ast', 'spec/error_policy.json', 'spec/exceptions.json',
        'numpy/python semantics: an XlError (str subclass) in arithmetic or '
        'float() raises TypeError/ValueError'],
    'assumptions': [
        'an error value can disappear only through an error-dropping sink, a '
        'check_error that skips positions, or an argument the core never reads '
        '(DESIGN.md C11.errkeep)'],
}

TOTAL = ('wrap_func', 'wrap_ufunc')


def _wrapper_inner(ctx, name):
    w = ctx.project.func(FUNCS_REL, name)
    inner = w.nested.get('wrapper')
    if inner is None:
        raise AnalysisError('%s: nested `wrapper` not found' % name)
    return w, inner


def rule_total(ctx):
    R = ctx.registry
    rr = RuleResult('C11', 'C11.total', 'WRAP+ESC',
                    'every registration is total: catch-all wrapper or empty '
                    'escape set', floor=245)
    spec = ctx.spec('exceptions')
    implicit = spec['implicit']
    reasoned = spec['unwrapped_reasoned']
    # wrap_ufunc must itself end in wrap_func
    wu = ctx.project.func(FUNCS_REL, 'wrap_ufunc')
    ok = False
    for n in own_nodes(wu):
        if isinstance(n, ast.Return) and isinstance(n.value, ast.Call):
            r = ctx.cg.resolve_name_expr(wu, n.value.func)
            if r and r[0] == 'func' and r[1].name == 'wrap_func' and \
                    r[1].module.rel == FUNCS_REL:
                ok = True
    rr.instances += 1
    if ok:
        rr.ok('wrap_ufunc returns wrap_func(wrapper)', wu.module.rel)
    else:
        rr.fail(key_of(wu, 'does not apply wrap_func'),
                'wrap_ufunc no longer wraps its result in the catch-all '
                'wrap_func: every element-wise function loses exception -> '
                '#VALUE! mapping', file=wu.module.rel, function='wrap_ufunc',
                line=wu.lineno)
    unwrapped = []
    for reg in R.functions.values():
        rr.instances += 1
        if any(w in TOTAL for w in reg.chain_names):
            rr.ok('%s is behind %s' % (reg.key, '>'.join(reg.chain_names)),
                  reg.site, nontrivial=False)
        else:
            unwrapped.append(reg)
    for reg in unwrapped:
        funcs, exts = reg_targets(ctx, reg)
        ex = Exceptions(ctx, implicit=implicit,
                        follow=lambda e: e.precision == 'exact')
        esc = ex.compute(funcs)
        bad = {}
        for f in funcs:
            for (c, origin), w in esc.get(f.fq, {}).items():
                bad.setdefault(c.name, w)
        for e in exts:
            for c in implicit.get(e, []):
                bad.setdefault(c, ['%s registers %s directly' % (reg.site, e)])
        if bad:
            c0 = sorted(bad)[0]
            rr.fail('%s::registration %s::unwrapped-can-raise' % (
                reg.module.rel, reg.name),
                '%s is registered without the catch-all wrapper (chain: %s) '
                'and its core can raise %s' % (
                    reg.key, '>'.join(reg.chain_names) or 'none',
                    ', '.join(sorted(bad))),
                file=reg.module.rel, function='FUNCTIONS[%r]' % reg.name,
                line=reg.lineno, path=bad[c0])
        else:
            why = reasoned.get(reg.name, 'no explicit raise or implicit raiser '
                                         'reachable outside a handler')
            rr.ok('%s has no catch-all wrapper; escape set of %s is empty (%s)' % (
                reg.key, reg.core.describe(), why), reg.site)
    rr.note('%d registrations without catch-all wrapper: %s' % (
        len(unwrapped), ', '.join(sorted(r.name for r in unwrapped))))
    return rr


def _after_try(f, tr):
    """The statements that follow the try statement in its block."""
    for holder in ast.walk(f.node):
        for fld in ('body', 'orelse', 'finalbody'):
            stmts = getattr(holder, fld, None)
            if isinstance(stmts, list) and any(x is tr for x in stmts):
                i = [j for j, x in enumerate(stmts) if x is tr][0]
                return stmts[i + 1:]
    return []


def _subst(expr, env):
    """expr with the local names of env replaced by what was assigned."""
    import copy
    if expr is None or not env:
        return expr

    class T(ast.NodeTransformer):
        def visit_Name(self, n):
            if isinstance(n.ctx, ast.Load) and n.id in env:
                return copy.deepcopy(env[n.id])
            return n
    return T().visit(copy.deepcopy(expr))


def rule_catch(ctx):
    rr = RuleResult('C11', 'C11.catch', 'TAB+ESC',
                    'handler table of the catch-all; re-raised BaseError '
                    'classes are handled by an enclosing layer', floor=4)
    p = ctx.project
    w, inner = _wrapper_inner(ctx, 'wrap_func')
    tries = [n for n in own_nodes(inner) if isinstance(n, ast.Try)]
    if len(tries) != 1:
        raise AnalysisError('wrap_func.wrapper: expected exactly one try')
    tr = tries[0]
    ex = Exceptions(ctx)
    base_error = ExcClass('BaseError', pkg=p.cls('formulas/errors.py', 'BaseError'))
    found = ExcClass('FoundError', pkg=p.cls('formulas/errors.py', 'FoundError'))
    # rows (classes, action, handler, returned value): action is 'return' /
    # 'raise' / 'fallthrough'.  A handler that ends without return or raise
    # continues after the try: when that code returns, the handler returns
    # (the value with the handler's own assignments substituted).  A handler
    # that re-raises unless the exception is of class K is two rows: K
    # continues, the rest is raised.
    table = []
    after = _after_try(inner, tr)

    def classify(stmts, classes, h, env):
        """rows for executing `stmts` of handler h when one of classes is
        caught; env: local name -> expression assigned so far."""
        import copy
        for i, st in enumerate(stmts):
            if isinstance(st, ast.Assign) and len(st.targets) == 1 and \
                    isinstance(st.targets[0], ast.Name):
                env = dict(env)
                env[st.targets[0].id] = st.value
                continue
            if isinstance(st, ast.Raise):
                return [(classes, 'raise', h, None)]
            if isinstance(st, ast.Return):
                return [(classes, 'return', h, _subst(st.value, env))]
            if isinstance(st, ast.If):
                t, neg = st.test, False
                while isinstance(t, ast.UnaryOp) and isinstance(t.op, ast.Not):
                    t, neg = t.operand, not neg
                if isinstance(t, ast.Call) and isinstance(
                        t.func, ast.Name) and t.func.id == 'isinstance' and \
                        len(t.args) == 2 and isinstance(
                        t.args[0], ast.Name) and t.args[0].id == h.name:
                    ks = t.args[1].elts if isinstance(
                        t.args[1], ast.Tuple) else [t.args[1]]
                    kcls = [ex.exc_of_expr(inner, k) for k in ks]
                    if all(k is not None for k in kcls):
                        rest = stmts[i + 1:]
                        yes, no = (st.orelse, st.body) if neg else (
                            st.body, st.orelse)
                        return classify(list(yes) + rest, kcls, h, env) + \
                            classify(list(no) + rest, classes, h, env)
                return [(classes, 'unknown', h, None)]
            if isinstance(st, (ast.Expr, ast.Pass)):
                continue
            return [(classes, 'unknown', h, None)]
        # fell off the end of the handler: the code after the try runs
        if after and isinstance(after[-1], ast.Return) and all(
                isinstance(a, (ast.Return, ast.Expr, ast.Pass))
                for a in after):
            return [(classes, 'return', h, _subst(after[-1].value, env))]
        return [(classes, 'fallthrough', h, None)]

    for h in tr.handlers:
        table.extend(classify(h.body, ex.handler_classes(inner, h), h, {}))
    if any(r[1] == 'unknown' for r in table):
        raise AnalysisError('wrap_func.wrapper: a handler of the catch-all '
                            'try was not followed')
    rr.instances += len(table)
    # (a) a catch-all that returns
    catch_all = [t for t in table if any(
        c.name in ('Exception', 'BaseException') for c in t[0])]
    if not catch_all or catch_all[-1][1] != 'return':
        rr.fail(key_of(w, 'no returning catch-all handler'),
                'wrap_func.wrapper has no `except Exception` handler that '
                'returns an error value: ordinary exceptions of a core escape '
                'the calculation', file=w.module.rel, function=inner.qualname,
                line=tr.lineno)
    else:
        h = catch_all[-1][2]
        val = catch_all[-1][3]
        if val is None or '#VALUE!' not in norm_src(val):
            rr.fail(key_of(w, 'catch-all does not return #VALUE!'),
                    'the catch-all handler does not return the #VALUE! error',
                    file=w.module.rel, function=inner.qualname, line=h.lineno)
        else:
            rr.ok('catch-all handler returns #VALUE!', '%s:%d' % (
                w.module.rel, h.lineno))
    # (b) FoundError -> payload
    fh = None
    for classes, action, h, val_ in table:
        if any(c == found for c in classes):
            fh = (action, h, val_)
            break
        if any(ex.is_sub(found, c) for c in classes):
            fh = ('shadowed', h, val_)
            break
    if fh is None or fh[0] != 'return':
        rr.fail(key_of(w, 'FoundError not mapped to payload'),
                'FoundError (an error found in the arguments) is not caught '
                'first and returned as its payload', file=w.module.rel,
                function=inner.qualname, line=tr.lineno)
    else:
        h = fh[1]
        val = fh[2]
        uses_err = h.name and any(
            isinstance(n, ast.Attribute) and n.attr == 'err' and isinstance(
                n.value, ast.Name) and n.value.id == h.name
            for n in ast.walk(val)) if val is not None else False
        if uses_err:
            rr.ok('FoundError handler returns the payload `%s.err`' % h.name,
                  '%s:%d' % (w.module.rel, h.lineno))
        else:
            rr.fail(key_of(w, 'FoundError handler loses payload'),
                    'the FoundError handler does not return the found error '
                    '(`.err`)', file=w.module.rel, function=inner.qualname,
                    line=h.lineno)
    # (c) BaseError classes re-raised by the wrapper
    handled_before = []
    reraised_bases = []
    for classes, action, h, _v in table:
        if action == 'raise':
            reraised_bases.extend(classes)
        else:
            handled_before.extend(classes)
        if any(c.name in ('Exception', 'BaseException') for c in classes):
            break
    # classes tolerated by enclosing layers
    tolerated = []
    wr, wr_inner = _wrapper_inner(ctx, 'wrap_ranges_func')
    for n in own_nodes(wr_inner):
        if isinstance(n, ast.Try):
            for h in n.handlers:
                tolerated.extend(ex.handler_classes(wr_inner, h))
    tolerated.extend(builder_tolerated(ctx, ex))
    # BaseError-derived classes that can escape registered cores / wrappers
    roots = []
    for reg in ctx.registry.all():
        f, _ = reg_targets(ctx, reg, include_wrappers=True)
        for x in f:
            if x not in roots:
                roots.append(x)
    for name in ('wrap_ufunc', 'wrap_func', 'wrap_ranges_func', 'parse_ranges'):
        f = p.func(FUNCS_REL, name)
        roots.append(f)
        roots.extend(f.nested.values())
    ex2 = Exceptions(ctx, follow=lambda e: e.precision == 'exact'
                     or e.kind == 'prop')
    esc = ex2.compute(roots)
    raised = {}
    for fq, d in esc.items():
        for (c, origin), wit in d.items():
            if ex2.is_sub(c, base_error):
                raised.setdefault(c.name, (c, wit))
    for name, (c, wit) in sorted(raised.items()):
        rr.instances += 1
        if any(ex2.is_sub(c, hb) for hb in handled_before if not any(
                ex2.is_sub(c, rb) and ex2.is_sub(rb, hb)
                for rb in reraised_bases)):
            # caught (FoundError / InvalidRangeError) by an earlier handler
            first = None
            for classes, action, h, _v in table:
                if any(ex2.is_sub(c, k) for k in classes):
                    first = action
                    break
            if first == 'return':
                rr.ok('%s is converted to an error value by wrap_func' % name,
                      wit[0])
                continue
        if any(ex2.is_sub(c, t) for t in tolerated):
            rr.ok('%s is re-raised by wrap_func and handled by an enclosing '
                  'layer (wrap_ranges_func / builder raises-predicate)' % name,
                  wit[0])
        else:
            rr.fail(key_of(w, 're-raises %s unhandled' % name),
                    '%s (a BaseError) can be raised during evaluation, is '
                    're-raised by wrap_func and no enclosing layer handles it: '
                    'the calculation aborts with DispatcherError' % name,
                    file=w.module.rel, function=inner.qualname, line=tr.lineno,
                    path=wit)
    return rr


def builder_tolerated(ctx, ex):
    """Exception classes the formula dispatcher tolerates (AstBuilder.__init__ raises=)."""
    init = ctx.project.func('formulas/builder.py', 'AstBuilder.__init__')
    out = []
    for lam in init.lambdas:
        for n in ast.walk(lam.node.body):
            if isinstance(n, ast.Call) and isinstance(n.func, ast.Name) and \
                    n.func.id == 'isinstance' and len(n.args) == 2:
                t = n.args[1]
                elts = t.elts if isinstance(t, ast.Tuple) else [t]
                for e in elts:
                    c = ex.exc_of_expr(lam, e)
                    if c is not None:
                        out.append(c)
    return out


def rule_finite(ctx):
    rr = RuleResult('C11', 'C11.finite', 'MPT',
                    'numeric results pass a non-finite -> #NUM! funnel',
                    floor=2)
    p = ctx.project
    wu = p.func(FUNCS_REL, 'wrap_ufunc')
    se = wu.nested.get('safe_eval')
    if se is None:
        raise AnalysisError('wrap_ufunc.safe_eval not found')
    rr.instances += 1
    conv = [n for n in own_nodes(se) if isinstance(n, ast.Call)
            and call_name(n) == 'convert_nan']
    if not conv:
        rr.fail(key_of(wu, 'safe_eval without convert_nan'),
                'element evaluation no longer routes results through '
                'convert_nan: NaN/inf reach cells', file=wu.module.rel,
                function=se.qualname, line=se.lineno)
    else:
        rr.ok('safe_eval routes non-error, non-text results through '
              'convert_nan', '%s:%d' % (wu.module.rel, conv[0].lineno))
    cn = p.func(FUNCS_REL, 'convert_nan')
    rr.instances += 1
    isfin = [n for n in own_nodes(cn) if isinstance(n, ast.Call) and
             ctx.cg.resolve_name_expr(cn, n.func) == ('ext', 'numpy.isfinite')]
    if isfin:
        rr.ok('convert_nan tests numpy.isfinite', cn.module.rel)
    else:
        rr.fail(key_of(cn, 'no isfinite test'),
                'convert_nan does not test finiteness', file=cn.module.rel,
                function='convert_nan', line=cn.lineno)
    # every value convert_nan hands back has passed the finiteness test
    rr.instances += 1
    leaves = []

    def is_fin(e):
        return isinstance(e, ast.Call) and ctx.cg.resolve_name_expr(
            cn, e.func) in (('ext', 'numpy.isfinite'), ('ext', 'math.isfinite'))

    def expr_leaves(e, conds):
        if isinstance(e, ast.IfExp):
            expr_leaves(e.body, conds + [(e.test, True)])
            expr_leaves(e.orelse, conds + [(e.test, False)])
        else:
            leaves.append((e, conds))

    def walk_stmts(stmts, conds):
        for st in stmts:
            if isinstance(st, ast.Return) and st.value is not None:
                expr_leaves(st.value, conds)
            elif isinstance(st, ast.If):
                walk_stmts(st.body, conds + [(st.test, True)])
                walk_stmts(st.orelse, conds + [(st.test, False)])
                # statements after an `if` that returns are reached with the
                # test false; not tracked: such a leaf simply has no guard
            elif isinstance(st, ast.Try):
                walk_stmts(st.body, conds)
                for h in st.handlers:
                    walk_stmts(h.body, [])  # the test may not have completed
                walk_stmts(st.orelse, conds)
                walk_stmts(st.finalbody, [])
            elif isinstance(st, (ast.For, ast.While, ast.With)):
                walk_stmts(st.body, conds)

    walk_stmts(cn.body, [])
    dflt = set(cn.params[1:]) | set(cn.kwonly)
    unguarded = []
    for e, conds in leaves:
        if isinstance(e, ast.Name) and e.id in dflt:
            continue
        if isinstance(e, ast.Subscript) and 'errors' in norm_src(e.value):
            continue
        if any(pos and is_fin(t) for t, pos in conds):
            continue
        unguarded.append(e)
    if not leaves:
        raise AnalysisError('convert_nan: no return value recognised')
    if unguarded:
        e = unguarded[0]
        rr.fail(key_of(cn, 'returns a value that did not pass isfinite'),
                'convert_nan returns `%s` on a path where numpy.isfinite has '
                'not answered True: a non-finite number, or a non-numeric '
                'object on which the test raised, reaches the cell instead of '
                'the error the caller substitutes' % norm_src(e),
                file=cn.module.rel, function='convert_nan', line=e.lineno)
    else:
        rr.ok('convert_nan returns its argument only where isfinite is true, '
              'otherwise the default error (%d return leaves)' % len(leaves),
              cn.module.rel)
    exempt = {'MUNIT': 'result is an identity matrix object, not a float',
              '_XLFN.MUNIT': 'alias of MUNIT'}
    for reg in ctx.registry.all():
        if not reg.has('wrap_ufunc'):
            continue
        rr.instances += 1
        cnv = reg.cfg.get('check_nan')
        if cnv is None or (is_const(cnv) and cnv.v):
            rr.ok('%s keeps check_nan on' % reg.key, reg.site, nontrivial=False)
        elif reg.name in exempt:
            rr.ok('%s sets check_nan=False (%s)' % (reg.key, exempt[reg.name]),
                  reg.site)
        else:
            rr.fail('%s::registration %s::check_nan disabled' % (
                reg.module.rel, reg.name),
                '%s disables the non-finite funnel (check_nan=%r)' % (
                    reg.key, cnv), file=reg.module.rel,
                function='FUNCTIONS[%r]' % reg.name, line=reg.lineno)
    # wrap_func: no funnel at all
    w, inner = _wrapper_inner(ctx, 'wrap_func')
    rr.instances += 1
    has = any(isinstance(n, ast.Call) and (
        call_name(n) in ('convert_nan',) or ctx.cg.resolve_name_expr(
            inner, n.func) in (('ext', 'numpy.isfinite'), ('ext', 'numpy.isnan'),
                               ('ext', 'math.isfinite')))
        for n in own_nodes(inner) if isinstance(n, ast.Call))
    if has:
        rr.ok('wrap_func routes results through a finiteness funnel', w.module.rel)
    else:
        n_cores = sum(1 for r in ctx.registry.functions.values()
                      if r.has('wrap_func') and not r.has('wrap_ufunc'))
        rr.fail(key_of(w, 'no non-finite funnel'),
                'wrap_func (whole-argument functions, %d registrations) has no '
                'non-finite -> #NUM! funnel: a core returning inf/nan puts it '
                'in the cell' % n_cores, file=w.module.rel,
                function=inner.qualname, line=inner.lineno)
    return rr


# ---------------------------------------------------------------------------
# errkeep
# ---------------------------------------------------------------------------
def _covered_positions(ctx, ef, reg):
    """Post-parser positions examined by the registration's check_error.

    Returns (PosSet covered, description) ; covered=all for the default."""
    ce = reg.cfg.get('check_error')
    if ce is None:
        return PosSet(all_=True), 'default get_error'
    if isinstance(ce, FuncV):
        g = ce.fi
        if g.module.rel == FUNCS_REL and g.name == 'get_error':
            return PosSet(all_=True), 'get_error'
        cov = PosSet()
        for n in ast.walk(g.node):
            if isinstance(n, ast.Call) and ef.is_check_call(g, n):
                for a in n.args:
                    if isinstance(a, ast.Starred) and _is_reversed_all(a.value, g):
                        cov = cov.union(PosSet(progs=[(len(g.params), 1)]))
                    else:
                        cov = cov.union(positions_in(g, a))
        return cov, norm_src(g.node)
    raise AnalysisError('%s: check_error is %r' % (reg.key, ce))


def _is_reversed_all(e, g):
    return isinstance(e, ast.Subscript) and isinstance(e.value, ast.Name) and \
        e.value.id == g.vararg and isinstance(e.slice, ast.Slice) and \
        e.slice.lower is None and e.slice.upper is None and \
        isinstance(e.slice.step, ast.UnaryOp) and isinstance(
            e.slice.step.op, ast.USub) and isinstance(
            e.slice.step.operand, ast.Constant) and e.slice.step.operand.value == 1


def _parser_map(ctx, reg):
    """Map post-parser position -> set of original positions, or None if identity.

    Identity-like parsers (default, `lambda *a: ...a...`, map over a) keep
    positions.  A named parser returning a tuple is mapped through the names
    its tuple elements derive from.
    """
    ap = reg.cfg.get('args_parser')
    if ap is None:
        return None, None
    if isinstance(ap, FuncV):
        g = ap.fi
        if g.is_lambda and g.vararg and not g.params:
            return None, g
        return 'custom', g
    if isinstance(ap, CallV) and isinstance(ap.fn, Ext) and \
            ap.fn.name == 'functools.partial' and ap.args and isinstance(
            ap.args[0], FuncV):
        return 'custom', ap.args[0].fi
    return 'custom', None


def _tuple_positions(ctx, ef, g):
    """For a parser function g returning a tuple: list (per element) of the
    sets of original parameter indices each element derives from; None if the
    return shape is not a tuple literal / concatenation of known parsers."""
    rets = [n.value for n in own_nodes(g) if isinstance(n, ast.Return)
            and n.value is not None]
    if g.is_lambda:
        rets = [g.node.body]
    if not rets:
        return None
    der = ef.derived(g)
    params = g.params
    result = None
    for r in rets:
        elems = _tuple_elems(ctx, ef, g, r, der)
        if elems is None:
            return None
        if result is None:
            result = elems
        elif len(result) == len(elems):
            result = [a | b for a, b in zip(result, elems)]
        else:
            return None
    return result


def _namedtuple_fields(module, name):
    """Field names of `name = namedtuple('..', fields)` or of `class name(
    namedtuple('..', fields))` defined once at module level; None otherwise."""
    def of(call):
        if not (isinstance(call, ast.Call) and call_name(call) == 'namedtuple'
                and len(call.args) >= 2):
            return None
        return expr(call.args[1])

    def expr(fa, depth=0):
        if isinstance(fa, ast.Constant) and isinstance(fa.value, str):
            return fa.value.replace(',', ' ').split()
        if isinstance(fa, (ast.Tuple, ast.List)) and all(
                isinstance(x, ast.Constant) and isinstance(x.value, str)
                for x in fa.elts):
            return [x.value for x in fa.elts]
        if isinstance(fa, ast.Attribute) and fa.attr == '_fields' and \
                isinstance(fa.value, ast.Name) and depth < 3 and \
                fa.value.id != name:
            return _namedtuple_fields(module, fa.value.id)
        if isinstance(fa, ast.BinOp) and isinstance(fa.op, ast.Add):
            a, b = expr(fa.left, depth + 1), expr(fa.right, depth + 1)
            return None if a is None or b is None else a + b
        return None
    vals = module.assigns.get(name, [])
    if len(vals) == 1:
        return of(vals[0])
    for st in module.tree.body:
        if isinstance(st, ast.ClassDef) and st.name == name and len(
                st.bases) == 1 and not any(
                isinstance(s2, ast.FunctionDef) and s2.name == '__new__'
                for s2 in st.body):
            return of(st.bases[0])
    return None


def _tuple_elems(ctx, ef, g, r, der):
    params = g.params

    def idx(names):
        return {params.index(n) for n in names if n in params}

    if isinstance(r, ast.Tuple):
        return [idx(ef.sources(g, e, der)) for e in r.elts]
    if isinstance(r, ast.BinOp) and isinstance(r.op, ast.Add):
        a = _tuple_elems(ctx, ef, g, r.left, der)
        b = _tuple_elems(ctx, ef, g, r.right, der)
        if a is None or b is None:
            return None
        return a + b
    if isinstance(r, ast.Call) and isinstance(r.func, ast.Name):
        # a named tuple of the module: positions in field order
        fields = _namedtuple_fields(g.module, r.func.id)
        if fields is not None:
            out, used = [], 0
            for a in r.args:
                if isinstance(a, ast.Starred):
                    sub = _tuple_elems(ctx, ef, g, a.value, der)
                    if sub is None:
                        return None
                    out.extend(sub)
                else:
                    out.append(idx(ef.sources(g, a, der)))
            kws = {k.arg: k.value for k in r.keywords}
            if None in kws:
                return None
            for f_ in fields[len(out):]:
                if f_ not in kws:
                    return None
                out.append(idx(ef.sources(g, kws.pop(f_), der)))
            return out if not kws and len(out) == len(fields) else None
    if isinstance(r, ast.Call):
        rr = ctx.cg.resolve_name_expr(g, r.func) if isinstance(
            r.func, (ast.Name, ast.Attribute)) else None
        if rr and rr[0] == 'func':
            h = rr[1]
            sub = _tuple_positions(ctx, ef, h)
            if sub is None:
                return None
            m = ctx.effects._bind_args(h, r, None)
            out = []
            for s in sub:
                srcs = set()
                for j in s:
                    pn = h.params[j]
                    for a in m.get(pn, []):
                        e = a[1] if isinstance(a, tuple) else a
                        srcs |= idx(ef.sources(g, e, der))
                out.append(srcs)
            return out
    return None


def rule_errkeep_ufunc(ctx, ef):
    R = ctx.registry
    pol = ctx.spec('error_policy')
    may = pol['may_not_propagate']
    elsewhere = pol['checked_elsewhere']
    prefixes = pol['alias_prefixes']
    rr = RuleResult('C11', 'C11.errkeep.ufunc', 'CBU/TAB',
                    'positions skipped by a custom check_error are documented '
                    'handler positions or are checked by the core/parsers',
                    floor=9)
    seen_lambdas = set()
    for reg in R.all():
        if not reg.has('wrap_ufunc'):
            continue
        ce = reg.cfg.get('check_error')
        if ce is None or (isinstance(ce, FuncV) and ce.fi.name == 'get_error'
                          and ce.fi.module.rel == FUNCS_REL):
            continue
        rr.instances += 1
        if isinstance(ce, FuncV):
            seen_lambdas.add(ce.fi.fq)
        covered, how = _covered_positions(ctx, ef, reg)
        base = reg.name
        for pre in sorted(prefixes, key=len, reverse=True):
            if base.startswith(pre):
                base = base[len(pre):]
                break
        core = reg.core
        if core.kind not in ('func', 'ext'):
            raise AnalysisError('%s: cannot analyse core %s' % (
                reg.key, core.describe()))
        cf = core.fi if core.kind == 'func' else _ExtCore()
        nbound = len(core.bound_args)
        # post-parser positions of the core's own parameters
        ip = reg.cfg.get('input_parser')
        kind, pf = _parser_map(ctx, reg)
        # number of post-parser positions to consider: the core's positional
        # parameters (after partial binding), capped
        npos = max(1, len(cf.params) - nbound)
        if cf.vararg:
            npos = max(npos, 6)
        if isinstance(ip, FuncV) and not ip.fi.vararg:
            npos = min(npos, len(ip.fi.params)) if not cf.vararg else \
                len(ip.fi.params)
        post_map = None
        if kind == 'custom':
            if pf is None:
                raise AnalysisError('%s: unrecognised args_parser' % reg.key)
            post_map = _tuple_positions(ctx, ef, pf)
            if post_map is None:
                raise AnalysisError('%s: args_parser %s does not return a '
                                    'recognisable tuple' % (reg.key, pf.fq))
            npos = len(post_map)
        # parameters checked by core / parsers
        core_checked = set()
        cc = ef.checked_params(cf) if core.kind == 'func' else set()
        for i, prm in enumerate(cf.params):
            if prm in cc and i - nbound >= 0:
                core_checked.add(i - nbound)
        core_var_checked = cf.vararg is not None and cf.vararg in cc
        ip_checked_all = False
        if isinstance(ip, FuncV):
            ic = ef.checked_params(ip.fi)
            if ip.fi.vararg and ip.fi.vararg in ic:
                ip_checked_all = True
            for i, prm in enumerate(ip.fi.params):
                if prm in ic:
                    core_checked.add(i)
        parser_checked = set()
        if pf is not None:
            pc = ef.checked_params(pf)
            for i, prm in enumerate(pf.params):
                if prm in pc:
                    parser_checked.add(i)
        allowed = PosSet.from_spec(may[base]['positions']) if base in may \
            else PosSet()
        reviewed = PosSet.from_spec(elsewhere[base]['positions']) \
            if base in elsewhere and isinstance(elsewhere[base], dict) else PosSet()
        cov = covered.members()
        unc_orig = set()
        for u in range(npos):
            if u in cov:
                continue
            if u in core_checked or ip_checked_all or (
                    core_var_checked and u >= len(cf.params) - nbound):
                continue
            if post_map is not None:
                origs = post_map[u]
            else:
                origs = {u}
            for o in origs:
                if post_map is not None and o in parser_checked:
                    continue
                unc_orig.add(o)
        # original positions that reach some covered post position are fine
        if post_map is not None:
            reach_cov = set()
            for u, origs in enumerate(post_map):
                if u in cov:
                    reach_cov |= origs
            unc_orig -= reach_cov
        bad = sorted(o for o in unc_orig if o not in allowed.members()
                     and o not in reviewed.members())
        if bad:
            rr.fail('%s::registration %s::check_error skips positions' % (
                reg.module.rel, reg.name),
                '%s: check_error `%s` does not examine argument position(s) '
                '%s, which are neither documented handler/inspection positions '
                'of %s nor checked by the core or its parsers: an error there '
                'can be silently lost' % (reg.key, how, bad, base),
                file=reg.module.rel, function='FUNCTIONS[%r]' % reg.name,
                line=reg.lineno, extra={'covered': covered.describe(),
                                        'allowed': allowed.describe()})
        else:
            rr.ok('%s: check_error `%s` covers %s; skipped positions are '
                  'allowed (%s) or checked elsewhere' % (
                      reg.key, how, covered.describe(), allowed.describe()),
                  reg.site)
    rr.note('%d distinct custom check_error callables' % len(seen_lambdas))
    return rr


class _ExtCore:
    """Stand-in for a library callable used as core (no parameters known)."""
    params, vararg = ['x'], None


class SinkAnalysis:
    """Parameters of a function that reach an error-dropping sink unchecked."""

    def __init__(self, ctx, ef):
        self.ctx, self.ef = ctx, ef
        self.memo = {}
        self.sites = []  # (fi, node, description, checked?) for evidence
        self.stop = set()
        for n in ('flatten', 'to_number', '_to_number', 'get_error',
                  'raise_errors', 'is_number', 'replace_empty', 'clean_values',
                  'convert2float', '_convert2float', '_convert_args',
                  'text2num', '_text2num', 'parse_ranges'):
            f = ctx.project.try_func(FUNCS_REL, n)
            if f is not None:
                self.stop.add(f.fq)

    def unchecked(self, fi, env=None, _stack=()):
        """dict param -> (sink description, node, fi) for params reaching a sink
        without a dominating check."""
        env = env or {}
        key = (fi.fq, tuple(sorted((k, repr(v)) for k, v in env.items())))
        if key in self.memo:
            return self.memo[key]
        if fi.fq in _stack or fi.fq in self.stop:
            return {}
        self.memo[key] = {}
        ef, ctx = self.ef, self.ctx
        der = ef.derived(fi)
        sder = ef.derived(fi, structural=True)
        cfg = CFG(fi)
        dom = cfg.dominators()
        # checks: (cfg node, params checked)
        checks = []
        for n in own_nodes(fi):
            if isinstance(n, ast.Call) and ef.is_check_call(fi, n):
                cond = self._condition_of(fi, n, env)
                if cond is False:
                    continue
                srcs = set()
                for a in list(n.args) + [k.value for k in n.keywords]:
                    srcs |= ef.sources(fi, a, sder, True)
                cn = cfg.node_of(n)
                guard = self._true_guard(fi, n, env)
                if guard is not None and cfg.node_of(guard) is not None:
                    # `if flag: check(..)` with the flag known true: the
                    # check is made where the flag is tested
                    cn = cfg.node_of(guard)
                if cn is not None:
                    checks.append((cn, srcs))
            elif isinstance(n, ast.Call):
                # a callee that checks its parameters (e.g. _parse_yxp)
                pk, _ = ef.callee_names(fi, n)
                for g in pk:
                    sub = ef.checked_params(g)
                    if not sub:
                        continue
                    m = ctx.effects._bind_args(
                        g, n, ctx.effects._bound_self(fi, n, g))
                    srcs = set()
                    for prm in sub:
                        for a in m.get(prm, []):
                            e = a[1] if isinstance(a, tuple) else a
                            srcs |= ef.sources(fi, e, sder, True)
                    cn = cfg.node_of(n)
                    if cn is not None and srcs:
                        checks.append((cn, srcs))

        def is_checked(param, node):
            sn = cfg.node_of(node)
            if sn is None:
                return False
            for cn, srcs in checks:
                if param in srcs and (cn is sn or cfg.dominates(cn, sn, dom)):
                    if cn is sn:
                        # same statement: the check must be evaluated first
                        return True
                    return True
            return False

        out = {}
        for n in own_nodes(fi):
            if not isinstance(n, ast.Call):
                continue
            desc, exprs = self._sink(fi, n, env)
            if desc:
                for e in exprs:
                    for prm in ef.sources(fi, e, der):
                        if prm not in fi.all_params:
                            continue
                        ok = is_checked(prm, n)
                        self.sites.append((fi, n, desc, prm, ok))
                        if not ok:
                            out.setdefault(prm, (desc, n, fi))
                continue
            # callee with unchecked sink parameters
            pk, _ = ef.callee_names(fi, n)
            for g in pk:
                if g.fq in self.stop:
                    continue
                genv = self._callee_env(fi, g, n, env)
                sub = self.unchecked(g, genv, _stack + (fi.fq,))
                if not sub:
                    continue
                m = ctx.effects._bind_args(
                    g, n, ctx.effects._bound_self(fi, n, g))
                for gp, (d, sn, sf) in sub.items():
                    for a in m.get(gp, []):
                        e = a[1] if isinstance(a, tuple) else a
                        for prm in ef.sources(fi, e, der):
                            if prm in fi.all_params and not is_checked(prm, n):
                                out.setdefault(prm, (d, sn, sf))
        self.memo[key] = out
        return out

    def _flag_value(self, fi, name, env):
        """True / False when the parameter `name` is known (bound by the
        registration, else its constant default), None otherwise."""
        if name in env:
            c = env[name]
            return bool(c.v) if is_const(c) else None
        if name not in fi.all_params or any(
                isinstance(x, ast.Name) and x.id == name and isinstance(
                    x.ctx, ast.Store) for x in own_nodes(fi)):
            return None
        a = fi.node.args
        pos = a.posonlyargs + a.args
        for prm, d in list(zip(pos[len(pos) - len(a.defaults):], a.defaults)) \
                + [(k, d) for k, d in zip(a.kwonlyargs, a.kw_defaults)
                   if d is not None]:
            if prm.arg == name and isinstance(d, ast.Constant):
                return bool(d.value)
        return None

    def _true_guard(self, fi, call, env):
        """The test of `if flag: check(..)` (the check a statement of the
        body, no else) when the flag is a parameter known true."""
        for n in own_nodes(fi):
            if isinstance(n, ast.If) and not n.orelse and isinstance(
                    n.test, ast.Name) and any(
                    isinstance(st, ast.Expr) and st.value is call
                    for st in n.body):
                if self._flag_value(fi, n.test.id, env) is True:
                    return n.test
        return None

    def _condition_of(self, fi, call, env):
        """For `X and check(...)`: False if X is a parameter known false."""
        for n in own_nodes(fi):
            if isinstance(n, ast.If) and isinstance(n.test, ast.Name) and any(
                    isinstance(st, ast.Expr) and st.value is call
                    for st in n.body):
                if self._flag_value(fi, n.test.id, env) is False:
                    return False
        for n in own_nodes(fi):
            if isinstance(n, ast.BoolOp) and isinstance(n.op, ast.And) and \
                    call in n.values:
                for v in n.values:
                    if v is call:
                        break
                    if isinstance(v, ast.Name) and v.id in env:
                        c = env[v.id]
                        if is_const(c) and not c.v:
                            return False
        return True

    def _callee_env(self, fi, g, call, env):
        genv = {}
        for k in call.keywords:
            if k.arg and isinstance(k.value, ast.Constant):
                genv[k.arg] = Const(k.value.value)
            elif k.arg and isinstance(k.value, ast.Name) and k.value.id in env:
                genv[k.arg] = env[k.value.id]
        return genv

    def _sink(self, fi, call, env):
        ef, ctx = self.ef, self.ctx
        pk, ext = ef.callee_names(fi, call)
        for g in pk:
            if g.module.rel == FUNCS_REL and g.parent is None:
                if g.name in SINK_FUNCS:
                    return 'to_number (error -> NaN)', list(call.args)
                if g.name == 'flatten':
                    pred = kwarg(call, 'check')
                    if pred is None and len(call.args) >= 2:
                        pred = call.args[1]
                    if pred is None:
                        return None, []  # default is_number keeps errors
                    v = self._pred_value(fi, pred, env)
                    if v == FALSE:
                        return ('flatten with predicate `%s` that rejects '
                                'XlError' % norm_src(pred)), [call.args[0]]
                    return None, []
        for e in ext:
            if e in SINK_EXT:
                return '%s (NaN -> 0)' % e, list(call.args[:1])
            if e == 'builtins.map' and len(call.args) == 2:
                g = self._conv_func(fi, call.args[0], env)
                if g is not None and self._absorbs_errors(g):
                    return ('map with the conversion `%s`, whose `str` case '
                            'turns an error value (a str subclass) into an '
                            'ordinary value' % g.qualname), [call.args[1]]
            if e == 'builtins.filter' and len(call.args) == 2:
                v = self._pred_value(fi, call.args[0], env)
                if v == FALSE:
                    return ('filter with predicate `%s` that rejects XlError'
                            % norm_src(call.args[0])), [call.args[1]]
        return None, []

    def _conv_func(self, fi, e, env):
        if isinstance(e, ast.Name) and e.id in env:
            v = env[e.id]
            return v.fi if isinstance(v, FuncV) and not v.fi.is_lambda else None
        if isinstance(e, (ast.Name, ast.Attribute)):
            r = self.ctx.cg.resolve_name_expr(fi, e)
            if r and r[0] == 'func':
                return r[1]
        return None

    def _absorbs_errors(self, g):
        """g(v) starts with type tests on its one parameter, and the first
        test an XlError instance passes is `isinstance(v, str)` (XlError derives
        from str) with a constant returned: the error is replaced by it."""
        if len(g.params) != 1 or g.vararg or g.kwarg:
            return False
        v = g.params[0]
        for st in g.body:
            if isinstance(st, ast.Expr) and isinstance(st.value, ast.Constant):
                continue
            if not (isinstance(st, ast.If) and isinstance(st.test, ast.Call)
                    and isinstance(st.test.func, ast.Name) and
                    st.test.func.id == 'isinstance' and len(
                        st.test.args) == 2 and isinstance(
                        st.test.args[0], ast.Name) and
                    st.test.args[0].id == v):
                return False
            t = st.test.args[1]
            names = [x.id for x in (t.elts if isinstance(t, ast.Tuple) else [t])
                     if isinstance(x, ast.Name)]
            if 'XlError' in names or 'Token' in names:
                return False
            if 'str' in names:
                return len(st.body) == 1 and isinstance(
                    st.body[0], ast.Return) and isinstance(
                    st.body[0].value, ast.Constant)
            if not names or not set(names) <= {'bool', 'int', 'float', 'bytes',
                                               'list', 'tuple', 'dict'}:
                return False
        return False

    def _pred_value(self, fi, pred, env):
        if isinstance(pred, ast.Name) and pred.id in env:
            return self.ef.pred_on_error(fi, env[pred.id])
        return self.ef.pred_on_error(fi, pred)


def rule_errkeep_sinks(ctx, ef):
    R = ctx.registry
    pol = ctx.spec('error_policy')
    may = pol['may_not_propagate']
    prefixes = pol['alias_prefixes']
    rr = RuleResult('C11', 'C11.errkeep.sinks', 'CBU',
                    'no argument reaches an error-dropping sink without a '
                    'dominating error check', floor=50)
    sa = SinkAnalysis(ctx, ef)
    for reg in R.functions.values():
        core = reg.core
        if core.kind != 'func':
            continue
        rr.instances += 1
        cf = core.fi
        env = dict(core.bound_kw)
        # wrap_ufunc cores run after check_error on the covered positions
        pre_checked = set()
        if reg.has('wrap_ufunc'):
            covered, _ = _covered_positions(ctx, ef, reg)
            nb = len(core.bound_args)
            for i, prm in enumerate(cf.params):
                if i - nb >= 0 and (i - nb) in covered.members():
                    pre_checked.add(prm)
            if cf.vararg and covered.all:
                pre_checked.add(cf.vararg)
        unc = sa.unchecked(cf, env)
        # args_parser / input_parser of wrap_ufunc registrations
        extra = []
        for k in ('args_parser', 'input_parser'):
            v = reg.cfg.get(k)
            if isinstance(v, FuncV) and not v.fi.is_lambda:
                extra.append(v.fi)
        base = reg.name
        for pre in sorted(prefixes, key=len, reverse=True):
            if base.startswith(pre):
                base = base[len(pre):]
                break
        allowed = PosSet.from_spec(may[base]['positions']) if base in may \
            else PosSet()
        nb = len(core.bound_args)
        bad = []
        for prm, (desc, node, sf) in unc.items():
            if prm in pre_checked:
                continue
            if prm == cf.vararg:
                pos = PosSet(progs=[(max(0, len(cf.params) - nb), 1)])
            elif prm in cf.params:
                i = cf.params.index(prm) - nb
                if i < 0:
                    continue
                pos = PosSet(fixed=[i])
            else:
                continue
            if pos.issubset(allowed):
                continue
            bad.append((prm, desc, node, sf))
        for g in extra:
            for prm, (desc, node, sf) in sa.unchecked(g, {}).items():
                if prm in g.params:
                    i = g.params.index(prm)
                    if PosSet(fixed=[i]).issubset(allowed):
                        continue
                bad.append((prm, desc, node, sf))
        if bad:
            prm, desc, node, sf = bad[0]
            rr.fail('%s::%s::error-dropping sink on unchecked `%s`' % (
                sf.module.rel, sf.qualname, prm),
                '%s: argument `%s` of %s reaches %s at %s:%d without a '
                'dominating error check (raise_errors/get_error/...): an error '
                'value in it is silently dropped' % (
                    reg.key, prm, cf.qualname, desc, sf.module.rel,
                    node.lineno),
                file=sf.module.rel, function=sf.qualname, line=node.lineno)
        else:
            rr.ok('%s: every sink on an argument of %s is dominated by an '
                  'error check (or position is a documented exception)' % (
                      reg.key, cf.qualname), reg.site,
                  nontrivial=bool(unc) or any(s[0].fq == cf.fq for s in sa.sites))
    n_sites = len({(s[0].fq, s[1].lineno, s[3]) for s in sa.sites})
    rr.note('%d (sink site, parameter) pairs examined; %d dominated by a check'
            % (n_sites, len({(s[0].fq, s[1].lineno, s[3]) for s in sa.sites
                             if s[4]})))
    for s in sorted({(s[0].module.rel, s[1].lineno, s[0].qualname, s[2], s[3],
                      s[4]) for s in sa.sites}):
        rr.ok('sink %s on `%s` in %s: %s' % (
            s[3], s[4], s[2], 'dominated by an error check' if s[5]
            else 'obligation moved to callers/registration'),
            '%s:%d' % (s[0], s[1]))
    return rr


def rule_table(ctx):
    rr = RuleResult('C11', 'C11.table', 'EXH',
                    'unknown names resolve to not_implemented, not KeyError',
                    floor=2)
    p = ctx.project
    gf = p.func(FUNCS_REL, 'get_functions')
    rr.instances += 1
    ok = False
    for n in own_nodes(gf):
        if isinstance(n, ast.Call) and ctx.cg.resolve_name_expr(
                gf, n.func) == ('ext', 'collections.defaultdict') and n.args:
            a = n.args[0]
            if isinstance(a, ast.Lambda) and isinstance(a.body, ast.Name):
                r = ctx.cg.resolve_name_expr(gf, a.body)
                if r and r[0] == 'func' and r[1].name == 'not_implemented':
                    ok = True
            elif isinstance(a, (ast.Name, ast.Attribute)):
                pass
    ni = p.func(FUNCS_REL, 'not_implemented')
    raises_ni = any(isinstance(n, ast.Raise) and n.exc is not None and
                    'NotImplementedError' in norm_src(n.exc)
                    for n in own_nodes(ni))
    if ok and raises_ni:
        rr.ok('get_functions() builds a defaultdict whose factory yields '
              'not_implemented, which raises NotImplementedError', gf.module.rel)
    elif not ok:
        rr.fail(key_of(gf, 'function table is not a defaultdict of '
                           'not_implemented'),
                'get_functions() no longer returns a defaultdict whose factory '
                'yields not_implemented: an unknown function name raises '
                'KeyError while compiling', file=gf.module.rel,
                function='get_functions', line=gf.lineno)
    else:
        rr.fail(key_of(ni, 'does not raise NotImplementedError'),
                'not_implemented does not raise NotImplementedError',
                file=ni.module.rel, function='not_implemented', line=ni.lineno)
    # every SUBMODULE is merged
    rr.instances += 1
    upd = [n for n in own_nodes(gf) if isinstance(n, ast.Call)
           and call_name(n) == 'update']
    if len(upd) >= 2:
        rr.ok('get_functions merges every SUBMODULES table and the base '
              'FUNCTIONS', gf.module.rel)
    else:
        rr.fail(key_of(gf, 'tables not merged'),
                'get_functions no longer merges the sub-module tables and the '
                'base table', file=gf.module.rel, function='get_functions',
                line=gf.lineno)
    # OPERATORS
    om = p.module('formulas/functions/operators.py')
    d = ctx.ev.module_env(om).get('OPERATORS')
    rr.instances += 1
    fac = getattr(d, 'factory', None)
    good = False
    if isinstance(fac, FuncV) and not fac.fi.params:
        # `lambda: not_implemented`, or a def whose whole body returns it
        body = fac.fi.node.body
        if not fac.fi.is_lambda:
            stmts = [st for st in body if not (isinstance(
                st, ast.Expr) and isinstance(st.value, ast.Constant))]
            body = stmts[0].value if len(stmts) == 1 and isinstance(
                stmts[0], ast.Return) else None
        if isinstance(body, ast.Name):
            r = ctx.cg.resolve_name_expr(fac.fi, body)
            good = bool(r and r[0] == 'func' and
                        r[1].name == 'not_implemented')
    if good:
        rr.ok('OPERATORS is a defaultdict of not_implemented', om.rel)
    else:
        rr.fail('%s::OPERATORS::not a defaultdict of not_implemented' % om.rel,
                'OPERATORS is not a defaultdict whose factory yields '
                'not_implemented', file=om.rel, function='OPERATORS', line=1)
    return rr


# -- arguments ignored on a value-returning path -----------------------------------
def _none_test(e):
    """(name, true_means_none) for `p is None` / `p is not None`."""
    if isinstance(e, ast.Compare) and len(e.ops) == 1 and isinstance(
            e.left, ast.Name) and isinstance(e.comparators[0], ast.Constant) \
            and e.comparators[0].value is None:
        if isinstance(e.ops[0], ast.Is):
            return e.left.id, True
        if isinstance(e.ops[0], ast.IsNot):
            return e.left.id, False
    return None


def _value_uses(exprs, names):
    """Names whose *value* the expressions look at (an identity test against
    None tells nothing about an error value)."""
    skip, used = set(), set()
    for e in exprs:
        for n in ast.walk(e):
            if _none_test(n):
                skip.add(id(n.left))
    for e in exprs:
        for n in ast.walk(e):
            if isinstance(n, ast.Name) and isinstance(n.ctx, ast.Load) and \
                    n.id in names and id(n) not in skip:
                used.add(n.id)
    return used


def ignored_arguments(ctx, f, names):
    """[(return node, [names])]: paths on which f returns a value that is not
    an error while the listed parameters have neither been looked at nor been
    found to be None."""
    from ..cfg import ByLabel, stmt_exprs
    names = set(names)
    if not names:
        return []
    cfg = CFG(f)

    def transfer(cn, st):
        ex = [e for e in stmt_exprs(cn)]
        roots = []
        for e in ex:
            if isinstance(e, (ast.FunctionDef, ast.AsyncFunctionDef)):
                roots += list(ast.walk(e))  # a closure over the parameter
            else:
                roots.append(e)
        used = _value_uses(roots, names)
        out = frozenset(st - used)
        for e in roots:
            for n in ast.walk(e):
                if isinstance(n, ast.Name) and isinstance(n.ctx, ast.Store) \
                        and n.id in names and n.id in out:
                    # re-bound without having been looked at: whatever the
                    # caller passed is gone for good on this path
                    out = (out - {n.id}) | {n.id + '#lost'}
        if cn.kind == 'test':
            nt = _none_test(cn.ast)
            if nt and nt[0] in names:
                p, on_true = nt
                return ByLabel({None: out,
                                'true': out - {p} if on_true else out,
                                'false': out if on_true else out - {p}})
        return out

    IN = cfg.forward(frozenset(names), transfer, lambda a, b: a | b)
    dom = None
    res = []
    for cn in cfg.nodes:
        if cn.kind != 'return' or cn.id not in IN:
            continue
        v = cn.ast.value
        pend = IN[cn.id] - (_value_uses([v], names) if v is not None else set())
        pend = {x.split('#')[0] for x in pend}
        if not pend:
            continue
        t = norm_src(v) if v is not None else 'None'
        if 'errors[' in t or 'get_error(' in t:
            continue  # an error is returned
        if isinstance(v, ast.Name):
            # `if isinstance(x, XlError): return x`
            dom = dom or cfg.dominators()
            guarded = False
            for tn in cfg.nodes:
                if tn.kind == 'test' and isinstance(tn.ast, ast.Call) and \
                        call_name(tn.ast) == 'isinstance' and tn.ast.args and \
                        norm_src(tn.ast.args[0]) == v.id and \
                        'XlError' in norm_src(tn.ast.args[1]):
                    for s_, lab in tn.succ:
                        if lab == 'true' and (s_ is cn or cfg.dominates(
                                s_, cn, dom)):
                            guarded = True
            if guarded:
                continue
            # every definition of the name is an error value (or None): taken
            # from the error table, or the matching element of what a private
            # helper returns (`err, x = _helper(x)` with `return errors[..],
            # None` / `return None, value` in the helper)
            if _error_or_none(ctx, f, v.id):
                continue
        res.append((cn.ast, sorted(pend)))
    return res


def _error_or_none(ctx, f, name):
    def is_err(e):
        t = norm_src(e)
        return 'errors[' in t or 'get_error(' in t or (
            isinstance(e, ast.Constant) and e.value is None)

    defs = []
    for n in own_nodes(f):
        if not isinstance(n, ast.Assign):
            continue
        for t in n.targets:
            if isinstance(t, ast.Name) and t.id == name:
                defs.append(('v', n.value))
            elif isinstance(t, (ast.Tuple, ast.List)):
                for i, e in enumerate(t.elts):
                    if isinstance(e, ast.Name) and e.id == name:
                        if isinstance(n.value, (ast.Tuple, ast.List)) and \
                                len(n.value.elts) == len(t.elts):
                            defs.append(('v', n.value.elts[i]))
                        else:
                            defs.append(('u', n.value, i, len(t.elts)))
    if not defs:
        return False
    for d in defs:
        if d[0] == 'v':
            if not is_err(d[1]):
                return False
            continue
        _k, call, i, n_ = d
        if not (isinstance(call, ast.Call) and isinstance(
                call.func, (ast.Name, ast.Attribute))):
            return False
        r = ctx.cg.resolve_name_expr(f, call.func)
        if not (r and r[0] == 'func'):
            return False
        rets = [x.value for x in own_nodes(r[1]) if isinstance(x, ast.Return)]
        if not rets or not all(
                isinstance(x, ast.Tuple) and len(x.elts) == n_ and
                is_err(x.elts[i]) for x in rets):
            return False
    return True


def _node_functions(ctx):
    """(function, number of dispatcher inputs, site) for functions installed as
    nodes of dispatchers built inside formulas/functions/*."""
    out = []
    for f in ctx.project.functions.values():
        if not f.module.rel.startswith('formulas/functions/'):
            continue
        for n in own_nodes(f):
            if not (isinstance(n, ast.Call) and call_name(n) == 'add_function'):
                continue
            fe = kwarg(n, 'function') or (n.args[1] if len(n.args) > 1 else None)
            inp = kwarg(n, 'inputs') or (n.args[2] if len(n.args) > 2 else None)
            if fe is None or not isinstance(inp, (ast.List, ast.Tuple)):
                continue
            nb = 0
            if isinstance(fe, ast.Call) and ctx.cg.resolve_name_expr(
                    f, fe.func) == ('ext', 'functools.partial') and fe.args:
                nb = len(fe.args) - 1
                fe = fe.args[0]
            r = ctx.cg.resolve_name_expr(f, fe) if isinstance(
                fe, (ast.Name, ast.Attribute)) else None
            if r and r[0] == 'func':
                out.append((r[1], nb, len(inp.elts), '%s:%d' % (
                    f.module.rel, n.lineno)))
    return out


def rule_errkeep_unused(ctx):
    R = ctx.registry
    pol = ctx.spec('error_policy')
    may, lazy = pol['may_not_propagate'], pol.get('lazy', {})
    prefixes = pol['alias_prefixes']
    rr = RuleResult('C11', 'C11.errkeep.unused', 'MPT',
                    'a function that receives its arguments unchecked looks '
                    'at each of them on every path that returns a value',
                    floor=40)
    subjects = {}
    for reg in R.functions.values():
        core = reg.core
        if reg.has('wrap_ufunc') or core.kind != 'func':
            continue  # wrap_ufunc checks the arguments before calling the core
        cf = core.fi
        nb = len(core.bound_args)
        base = reg.name
        for pre in sorted(prefixes, key=len, reverse=True):
            if base.startswith(pre):
                base = base[len(pre):]
                break
        allowed = PosSet()
        for tab in (may, lazy):
            if base in tab and isinstance(tab[base], dict) and \
                    'positions' in tab[base]:
                allowed = PosSet.from_spec(tab[base]['positions'])
        names = [p_ for i, p_ in enumerate(cf.params[nb:])
                 if p_ not in core.bound_kw and
                 not PosSet(fixed=[i]).issubset(allowed)]
        if cf.cls is not None:
            continue
        key = (cf.fq, tuple(names))
        subjects.setdefault(key, (cf, names, reg.key, reg.site))
    for g, nb, nin, site in _node_functions(ctx):
        names = g.params[nb:nb + nin]
        key = (g.fq, tuple(names))
        subjects.setdefault(key, (g, names, 'dispatcher node', site))
    for (fq, _n), (g, names, role, site) in sorted(subjects.items()):
        rr.instances += 1
        bad = ignored_arguments(ctx, g, names)
        if not bad:
            rr.ok('%s (%s): every path that returns a value has looked at %s' % (
                g.qualname, role, ', '.join(names) or 'no argument'), site,
                nontrivial=len(names) > 1)
            continue
        ret, pend = bad[0]
        rr.fail(key_of(g, 'argument %s ignored on a value-returning path' %
                       ','.join(pend)),
                '%s (%s) returns `%s` at line %d on a path that has not looked '
                'at its argument%s %s (other than an `is None` test): nothing '
                'checks the arguments of this function before it runs, so an '
                'error value passed there is silently lost' % (
                    g.qualname, role, norm_src(ret.value)[:50] if ret.value
                    is not None else 'None', ret.lineno,
                    's' if len(pend) > 1 else '', ', '.join(pend)),
                file=g.module.rel, function=g.qualname, line=ret.lineno)
    return rr


def rule_scanpure(ctx):
    rr = RuleResult('C11', 'C11.scanpure', 'DEF',
                    'the error scan (get_error / raise_errors and what they '
                    'call) writes nothing to the values it scans and keeps no '
                    'result between calls', floor=2)
    p = ctx.project
    E = ctx.effects
    roots = [p.func(FUNCS_REL, 'get_error'), p.func(FUNCS_REL, 'raise_errors')]
    closure, work = list(roots), [(r, 0) for r in roots]
    while work:
        g, d = work.pop()
        if d >= 3:
            continue
        for e in ctx.cg.out(g):
            if e.is_ext or e.kind != 'call' or e.precision != 'exact' or \
                    e.dst.name == '__init__' or e.dst in closure:
                continue
            if e.dst.module.rel.startswith('formulas/'):
                closure.append(e.dst)
                work.append((e.dst, d + 1))
    for g in closure:
        rr.instances += 1
        sm = E.summ.get(g.fq)
        if sm is None:
            raise AnalysisError('%s: no effect summary' % g.fq)
        w = None
        if sm.mutates:
            prm = sorted(sm.mutates)[0]
            w = (sm.mutates[prm], 'its argument `%s`' % prm)
        elif sm.global_writes:
            w = (sm.global_writes[0], 'module state')
        elif E.is_memoised(g):
            rr.fail(key_of(g, 'error scan keeps state'),
                    '%s is memoised: the scan of a mutable array is answered '
                    'from an earlier call' % g.qualname, file=g.module.rel,
                    function=g.qualname, line=g.lineno)
            continue
        if w is not None:
            rr.fail(key_of(g, 'error scan keeps state'),
                    '%s, part of the error scan behind get_error/raise_errors, '
                    'writes to %s (%s): what it records about a mutable array '
                    'outlives the call and answers for later contents'
                    % (g.qualname, w[1], w[0].describe()), file=g.module.rel,
                    function=g.qualname, line=w[0].lineno or g.lineno)
        else:
            rr.ok('%s writes to nothing but its own locals' % g.qualname,
                  '%s:%d' % (g.module.rel, g.lineno))
    return rr


def run(ctx):
    S = ctx.soft
    ef = ErrFlow(ctx)
    return [S(rule_total, ctx), S(rule_catch, ctx), S(rule_finite, ctx),
            S(rule_errkeep_ufunc, ctx, ef), S(rule_errkeep_sinks, ctx, ef),
            S(rule_errkeep_unused, ctx), S(rule_table, ctx),
            S(rule_scanpure, ctx)]
