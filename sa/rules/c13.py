"""C13 - volatile functions are never frozen (structural clauses)."""
import ast

from ..model import AnalysisError, own_nodes, norm_src
from ..peval import (FuncV, Ext, CallV, DictV, SeqV, TokenV, Const, is_const)
from ..report import RuleResult
from ..cfg import CFG
from ..util import (assign_pairs, key_of, src, resolve, is_ext, module_token, kwarg,
                    strip_not, stmts_of, call_name, names_in)
from .common import reg_targets, match_source, source_reach, witness

META = {
    'decides': (
        'C13, structural clauses only: (impure) every FUNCTIONS/OPERATORS '
        'registration whose core can reach a source of time/randomness through '
        'the package call graph is registered as a volatile node (dict with '
        'wrap_impure_func outermost and the COMPILING flag as first extra '
        'input); (mask) the impure wrapper returns schedula.NONE while the flag '
        'is set and the builder prepends extra inputs and skips NONE defaults; '
        ' (nomemo) no memoising decorator lies on a call path from a volatile '
        'registration to its source; (sites) every pre-evaluation site whose '
        'solution is reused as blockers= runs with the COMPILING flag set.'
        ' (refs) the load-time evaluation of defined names keeps only range references, never computed values; (direct) the compiled function of a cell is called from CellWrapper.__call__ only - loading code never evaluates a cell itself; (randint) the RANDBETWEEN core returns a value that is integral by construction, a half-open draw adds one to its upper limit, and the empty-range guard tests the bounds the draw uses.'
        ' (history) a calculation takes no value from the solution of an earlier one; (randint, truncation) int() is not applied to a sum that has the lower bound as a term.'),
    'not_decided': (
        'Snapshot consistency inside one calculation (schedula scheduling), the '
        'numeric range of RAND/RANDBETWEEN, and that nothing else caches a '
        'result at run time (values flowing through data structures).'),
    'trusted_base': [
        'CPython ast', 'spec/volatile.json (source table, volatile names)',
        'schedula: Dispatcher.__call__ runs nodes; '
        'get_sub_dsp_from_workflow(blockers=) prunes at computed nodes; '
        'sh.NONE output is not propagated',
        'call graph: names exact, attribute calls by receiver class or CHA by '
        'method name (over-approximation)'],
    'assumptions': [
        'sources of nondeterminism are the library calls listed in '
        'spec/volatile.json',
        'functions are not called through getattr strings or values stored in '
        'containers other than the registry tables'],
}

IMPURE = 'wrap_impure_func'


def _flag_token(ctx):
    fm = ctx.project.module('formulas/functions/__init__.py')
    av = ctx.ev.module_env(fm).get('COMPILING')
    if not isinstance(av, TokenV):
        raise AnalysisError('COMPILING is not a module-level sh.Token in '
                            'formulas/functions/__init__.py')
    return av


def rule_impure(ctx):
    spec = ctx.spec('volatile')
    sources = spec['sources']
    R = ctx.registry
    rr = RuleResult('C13', 'C13.impure', 'EFF+WRAP',
                    'source-reaching registration => volatile registration',
                    floor=260)
    reach = source_reach(ctx, sources)
    flag = _flag_token(ctx)
    reaching = {}
    for reg in R.all():
        rr.instances += 1
        funcs, exts = reg_targets(ctx, reg)
        found = {}
        for e in exts:
            if match_source(e, sources):
                found[e] = ['%s registers %s directly' % (reg.site, e)]
        for f in funcs:
            for s in reach.get(f.fq, {}):
                if s not in found:
                    found[s] = witness(ctx, reach, f, s)
        if not found:
            rr.ok('%s: core reaches no source (%s)' % (reg.key, reg.core.describe()),
                  reg.site, nontrivial=False)
            continue
        reaching[reg.name] = found
        problems = []
        if not reg.chain_names or reg.chain_names[0] != IMPURE:
            problems.append('not wrapped by %s (chain: %s)' % (
                IMPURE, '>'.join(reg.chain_names) or 'none'))
        ei = reg.dict_keys.get('extra_inputs')
        if not isinstance(ei, DictV) or not ei.items:
            problems.append("no 'extra_inputs' mapping")
        else:
            k0, v0 = ei.items[0]
            if not (isinstance(k0, TokenV) and k0 is flag):
                problems.append("first extra input is %r, not the COMPILING "
                                "flag" % (k0,))
            if ei.kind not in ('OrderedDict', 'dict'):
                problems.append('extra_inputs is an unordered mapping')
        s0 = sorted(found)[0]
        if problems:
            rr.fail(
                '%s::registration %s::volatile-not-impure' % (
                    reg.module.rel, reg.name),
                '%s reaches %s but is not a volatile registration: %s' % (
                    reg.key, ', '.join(sorted(found)), '; '.join(problems)),
                file=reg.module.rel, function='FUNCTIONS[%r]' % reg.name,
                line=reg.lineno, path=found[s0])
        else:
            rr.ok('%s reaches %s and is registered volatile (impure wrapper '
                  'outermost, COMPILING first extra input)' % (reg.key, s0),
                  reg.site)
    for name in spec['volatile_names']:
        reg = R.functions.get(name)
        if reg is None:
            rr.note('volatile name %s is not registered' % name)
            continue
        if name not in reaching:
            raise AnalysisError(
                'volatile function %s reaches no known source of '
                'nondeterminism: the source table is stale, cannot decide' % name)
    for reg in R.all():
        if reg.has(IMPURE) and reg.name not in reaching:
            rr.note('%s is wrapped as impure but reaches no listed source' %
                    reg.key)
    return rr, reaching, reach


def rule_mask(ctx):
    rr = RuleResult('C13', 'C13.mask', 'TAB/MPT',
                    'impure wrapper masks while compiling; builder prepends '
                    'extras and skips NONE', floor=3)
    p = ctx.project
    w = p.func('formulas/functions/__init__.py', IMPURE)
    inner = [f for f in w.nested.values()]
    if len(inner) != 1:
        raise AnalysisError('%s: expected exactly one nested wrapper' % IMPURE)
    inner = inner[0]
    rr.instances += 1
    params = inner.params
    if not params:
        rr.fail(key_of(w, 'wrapper takes no flag parameter'),
                'impure wrapper has no positional flag parameter, but '
                'AstBuilder.append prepends the extra inputs',
                file=w.module.rel, function=inner.qualname, line=inner.lineno)
        return rr
    flag = params[0]
    # classify every return
    func_param = w.params[0] if w.params else None
    verdicts = _classify_mask(ctx, inner, flag, func_param)
    if verdicts is None:
        raise AnalysisError('%s: unrecognised wrapper shape' % inner.fq)
    masked, leaks = verdicts
    if not masked:
        rr.fail(key_of(w, 'no NONE return guarded by flag'),
                'impure wrapper never returns schedula.NONE under the '
                'compiling flag', file=w.module.rel, function=inner.qualname,
                line=inner.lineno)
    else:
        rr.ok('wrapper returns schedula.NONE when %s is true' % flag,
              '%s:%d' % (w.module.rel, inner.lineno))
    for n in leaks:
        rr.fail(key_of(w, 'core called while flag may be true'),
                'impure wrapper calls the volatile core on a path where the '
                'compiling flag may be true', file=w.module.rel,
                function=inner.qualname, line=n.lineno)
    if not leaks:
        rr.ok('core is only called where %s is false' % flag,
              '%s:%d' % (w.module.rel, inner.lineno))
    # builder side
    app = p.func('formulas/builder.py', 'AstBuilder.append')
    # the registration may live in a private helper of append
    from ..util import with_helpers
    for g_ in with_helpers(ctx, app):
        if any(isinstance(n, ast.Call) and call_name(n) == 'get' and n.args and
               isinstance(n.args[0], ast.Constant) and
               n.args[0].value == 'extra_inputs' for n in own_nodes(g_)):
            app = g_
            break
    rr.instances += 1
    extra_names = set()
    for n in own_nodes(app):
        if isinstance(n, ast.Assign) and isinstance(n.value, ast.Call) and \
                call_name(n.value) == 'get' and n.value.args and \
                isinstance(n.value.args[0], ast.Constant) and \
                n.value.args[0].value == 'extra_inputs':
            for t in n.targets:
                if isinstance(t, ast.Name):
                    extra_names.add(t.id)
    if not extra_names:
        raise AnalysisError("AstBuilder.append: no read of func['extra_inputs']")
    ok_prepend = bad_prepend = None
    for n in own_nodes(app):
        if isinstance(n, ast.Assign) and len(n.targets) == 1 and \
                isinstance(n.targets[0], ast.Subscript) and \
                isinstance(n.targets[0].slice, ast.Constant) and \
                n.targets[0].slice.value == 'inputs':
            v = n.value
            if isinstance(v, ast.BoolOp) and isinstance(v.op, ast.Or):
                v = v.values[0]
            if isinstance(v, ast.BinOp) and isinstance(v.op, ast.Add):
                l, r = names_in(v.left), names_in(v.right)
                if l & extra_names and not (r & extra_names):
                    ok_prepend = n
                elif r & extra_names:
                    bad_prepend = n
            elif isinstance(v, (ast.List, ast.Tuple)) and v.elts and all(
                    isinstance(e, ast.Starred) for e in v.elts):
                # [*extra, *inputs]
                first = names_in(v.elts[0])
                rest = set().union(*[names_in(e) for e in v.elts[1:]]) \
                    if len(v.elts) > 1 else set()
                if first & extra_names and not (rest & extra_names):
                    ok_prepend = n
                elif rest & extra_names:
                    bad_prepend = n
    if bad_prepend is not None:
        rr.fail(key_of(app, 'extra inputs not first'),
                'extra inputs are appended after the formula inputs, but the '
                'impure wrapper takes the flag as its first parameter',
                file=app.module.rel, function=app.qualname,
                line=bad_prepend.lineno)
    elif ok_prepend is not None:
        rr.ok('extra inputs are prepended to the node inputs',
              '%s:%d' % (app.module.rel, ok_prepend.lineno))
    else:
        raise AnalysisError('AstBuilder.append: cannot find how extra inputs '
                            'are merged into the node inputs')
    # a compiled token function reaches add_function only whole: taking the
    # dict apart by hand (func['function'], .__wrapped__) loses extra_inputs,
    # i.e. the COMPILING flag the impure wrapper masks on
    rr.instances += 1
    compiled = set()
    for t, v, _st in assign_pairs(app):
        if isinstance(t, ast.Name) and isinstance(v, ast.Call) and \
                call_name(v) == 'compile' and isinstance(v.func, ast.Attribute):
            compiled.add(t.id)
    if not compiled:
        raise AnalysisError('AstBuilder.append: no `x = token.compile()`')
    partial_use = None
    n_add = 0
    for n in own_nodes(app):
        if not (isinstance(n, ast.Call) and call_name(n) == 'add_function'):
            continue
        n_add += 1
        fexprs = list(n.args[1:2]) + [k.value for k in n.keywords
                                      if k.arg == 'function']
        for k in n.keywords:
            if k.arg is None and isinstance(k.value, ast.Name):
                # **kw: the dict literal(s) bound to that name
                for t, v, _st in assign_pairs(app):
                    if isinstance(t, ast.Name) and t.id == k.value.id and \
                            isinstance(v, ast.Dict):
                        for kk, vv in zip(v.keys, v.values):
                            if isinstance(kk, ast.Constant) and \
                                    kk.value == 'function':
                                fexprs.append(vv)
        for e in fexprs:
            if isinstance(e, ast.Name):
                continue
            if names_in(e) & compiled or any(
                    isinstance(x, ast.Call) and call_name(x) == 'compile'
                    for x in ast.walk(e)):
                partial_use = partial_use or (n, e)
    if n_add == 0:
        raise AnalysisError('AstBuilder.append: no add_function call')
    if partial_use is not None:
        n, e = partial_use
        rr.fail(key_of(app, 'compiled function taken apart'),
                'AstBuilder.append registers `%s` as a node function: a piece '
                'of the value returned by token.compile(), not the value '
                'itself, so the extra inputs of a volatile function (the '
                'COMPILING flag) are not wired and the bare core is evaluated '
                '- and frozen - when the formula is compiled' % norm_src(e),
                file=app.module.rel, function=app.qualname, line=n.lineno)
    else:
        rr.ok('every node function taken from token.compile() is registered '
              'whole (%d add_function calls)' % n_add, app.module.rel)
    rr.instances += 1
    # add_data for extras guarded by `is not sh.NONE`
    guarded = False
    for n in own_nodes(app):
        if isinstance(n, ast.If):
            t = n.test
            if isinstance(t, ast.Compare) and len(t.ops) == 1 and isinstance(
                    t.ops[0], ast.IsNot) and is_ext(
                    ctx, app, t.comparators[0], 'schedula.NONE'):
                if any(isinstance(c, ast.Call) and call_name(c) == 'add_data'
                       for s in n.body for c in ast.walk(s)):
                    guarded = True
    if guarded:
        rr.ok('extra inputs with value NONE get no default (add_data skipped)',
              app.module.rel)
    else:
        rr.note('no `is not sh.NONE` guard around add_data of extra inputs')
    return rr


def _classify_mask(ctx, inner, flag, func_param):
    """Returns (masked: bool, leaks: [nodes]) or None when unrecognised."""
    masked, leaks = False, []

    def is_none(e):
        return is_ext(ctx, inner, e, 'schedula.NONE')

    def calls_core(e):
        return any(isinstance(c, ast.Call) and isinstance(c.func, ast.Name)
                   and c.func.id == func_param for c in ast.walk(e))

    def flag_test(t):
        t, neg = strip_not(t)
        if isinstance(t, ast.Name) and t.id == flag:
            return neg
        if isinstance(t, ast.Compare) and isinstance(t.left, ast.Name) and \
                t.left.id == flag and len(t.ops) == 1 and isinstance(
                t.comparators[0], ast.Constant):
            c, op = t.comparators[0].value, t.ops[0]
            if isinstance(op, (ast.Is, ast.Eq)) and c is True:
                return neg
            if isinstance(op, (ast.Is, ast.Eq)) and c is False:
                return not neg
            if isinstance(op, (ast.IsNot, ast.NotEq)) and c is True:
                return not neg
            if isinstance(op, (ast.IsNot, ast.NotEq)) and c is False:
                return neg
        return None

    def walk_expr(e, flag_state):
        """flag_state: True (flag true), False, None (unknown)."""
        nonlocal masked
        if isinstance(e, ast.IfExp):
            neg = flag_test(e.test)
            if neg is None:
                walk_expr(e.body, flag_state)
                walk_expr(e.orelse, flag_state)
            else:
                walk_expr(e.body, not neg)
                walk_expr(e.orelse, neg)
            return
        if is_none(e) and flag_state is True:
            masked = True
        if calls_core(e) and flag_state is not False:
            leaks.append(e)

    def walk_body(body, flag_state):
        for st in body:
            if isinstance(st, ast.If):
                neg = flag_test(st.test)
                if neg is None:
                    walk_body(st.body, flag_state)
                    walk_body(st.orelse, flag_state)
                else:
                    walk_body(st.body, not neg)
                    walk_body(st.orelse, neg)
                    # early return in a branch fixes the state afterwards
                    if st.body and isinstance(st.body[-1], (ast.Return, ast.Raise)) \
                            and not st.orelse:
                        flag_state = neg if flag_state is None else flag_state
                    elif st.orelse and isinstance(
                            st.orelse[-1], (ast.Return, ast.Raise)):
                        flag_state = (not neg) if flag_state is None else flag_state
            elif isinstance(st, ast.Return) and st.value is not None:
                walk_expr(st.value, flag_state)
            elif isinstance(st, (ast.Expr, ast.Assign)):
                walk_expr(st.value, flag_state)
            elif isinstance(st, (ast.Try, ast.With)):
                walk_body(st.body, flag_state)
                for h in getattr(st, 'handlers', []):
                    walk_body(h.body, flag_state)
            elif isinstance(st, (ast.For, ast.While)):
                walk_body(st.body, flag_state)

    walk_body(inner.body, None)
    return masked, leaks


def _reads_module_state(ctx, f):
    """(name, node) if f reads a module-level list/dict/set (mutable state)."""
    from .modelstate import _mutable_literal
    for n in own_nodes(f):
        if isinstance(n, ast.Name) and isinstance(n.ctx, ast.Load):
            r = ctx.cg.resolve_name_expr(f, n)
            if r and r[0] == 'var':
                vals = r[1].assigns.get(r[2]) or []
                if vals and all(_mutable_literal(v) for v in vals):
                    return r[2], n
    return None


def rule_nomemo(ctx, reaching, reach):
    spec = ctx.spec('volatile')
    rr = RuleResult('C13', 'C13.nomemo', 'EFF',
                    'no memoising decorator between a volatile registration '
                    'and its source', floor=3)
    R = ctx.registry
    cg = ctx.cg
    memo = set(spec['memoisers'])
    for name, found in sorted(reaching.items()):
        reg = R.functions.get(name) or R.operators.get(name)
        funcs, _ = reg_targets(ctx, reg)
        fwd = cg.reachable(funcs)
        for fq, (f, _e) in fwd.items():
            if not reach.get(fq):
                continue
            rr.instances += 1
            decs = [e for e in cg.out(f) if e.kind == 'decorator'
                    and e.dst in memo]
            gw = [w for w in ctx.effects.summ[f.fq].global_writes
                  if w.fi is f]
            if gw:
                w = gw[0]
                rr.fail(key_of(f, 'module-level state on volatile path'),
                        '%s lies on a call path from volatile %s to %s and '
                        'keeps state in the module-level object %s (%s): a '
                        'value read from the clock/generator can be served '
                        'again on a later calculation' % (
                            f.qualname, reg.key, sorted(reach[fq])[0],
                            w.is_global, w.describe()),
                        file=f.module.rel, function=f.qualname, line=w.lineno,
                        path=cg.path_to(fwd, fq))
                continue
            shared = _reads_module_state(ctx, f)
            if shared:
                nm, node = shared
                rr.fail(key_of(f, 'volatile value taken from module-level state'),
                        '%s lies on a call path from volatile %s to %s and '
                        'reads the module-level mutable object `%s` (line %d): '
                        'what it returns can be a value that some earlier '
                        'calculation left there instead of a fresh reading' % (
                            f.qualname, reg.key, sorted(reach[fq])[0], nm,
                            node.lineno),
                        file=f.module.rel, function=f.qualname,
                        line=node.lineno, path=cg.path_to(fwd, fq))
                continue
            if decs or ctx.effects.is_memoised(f):
                if not decs:
                    class _D:      # call-form memoisation: no decorator edge
                        dst = 'functools.lru_cache (call form)'
                    decs = [_D]
                rr.fail(key_of(f, 'memoised on volatile path'),
                        '%s is memoised (%s) and lies on a call path from '
                        'volatile %s to %s: the first value would be served '
                        'forever' % (f.qualname, decs[0].dst, reg.key,
                                     sorted(reach[fq])[0]),
                        file=f.module.rel, function=f.qualname, line=f.lineno,
                        path=cg.path_to(fwd, fq))
            else:
                rr.ok('%s (on path %s -> %s) carries no memoising decorator' % (
                    f.qualname, reg.key, sorted(reach[fq])[0]),
                    '%s:%d' % (f.module.rel, f.lineno))
    # the generic wrappers every registration of a volatile function goes
    # through, and the functions nested in them (the per-element evaluator):
    # a memo on one of them serves the first reading for ever
    seen_w = set()
    for name, found in sorted(reaching.items()):
        reg = R.functions.get(name) or R.operators.get(name)
        inner, _ = reg_targets(ctx, reg)
        layers, _ = reg_targets(ctx, reg, include_wrappers=True)
        for w in layers:
            if w in inner:
                continue
            for g in [w] + [x for x in ctx.project.functions.values()
                            if x.parent is not None and _top(x) is w]:
                if g.fq in seen_w:
                    continue
                seen_w.add(g.fq)
                rr.instances += 1
                if ctx.effects.is_memoised(g):
                    rr.fail(key_of(g, 'memoised wrapper layer of a volatile '
                                      'function'),
                            '%s is memoised and is a layer every call of the '
                            'volatile %s goes through: the first value '
                            'computed for a set of arguments is served on '
                            'every later calculation' % (g.qualname, reg.key),
                            file=g.module.rel, function=g.qualname,
                            line=g.lineno)
                else:
                    rr.ok('%s (wrapper layer of %s) is not memoised' % (
                        g.qualname, reg.key), '%s:%d' % (g.module.rel,
                                                          g.lineno))
    return rr


def _top(f):
    while f.parent is not None:
        f = f.parent
    return f


def find_preeval_sites(ctx):
    """Functions that reuse a dispatcher solution as blockers= (pre-evaluation)."""
    sites = []
    for f in ctx.project.functions.values():
        for n in own_nodes(f):
            if isinstance(n, ast.Call) and call_name(n) == \
                    'get_sub_dsp_from_workflow':
                b = kwarg(n, 'blockers')
                if b is not None:
                    sites.append((f, n, b))
    return sites


def rule_sites(ctx):
    rr = RuleResult('C13', 'C13.sites', 'MPT',
                    'every pre-evaluation runs with COMPILING set', floor=2)
    flag = _flag_token(ctx)
    for f, call, blockers in find_preeval_sites(ctx):
        rr.instances += 1
        if not isinstance(blockers, ast.Name):
            raise AnalysisError('%s: blockers= is not a simple name' % f.fq)
        # the assignment that computes the solution
        evals = []
        for n in own_nodes(f):
            if isinstance(n, ast.Assign):
                tnames = []
                for t in n.targets:
                    if isinstance(t, ast.Name):
                        tnames.append((t.id, n.value))
                    elif isinstance(t, ast.Tuple) and isinstance(
                            n.value, ast.Tuple):
                        for tt, vv in zip(t.elts, n.value.elts):
                            if isinstance(tt, ast.Name):
                                tnames.append((tt.id, vv))
                for nm, v in tnames:
                    if nm == blockers.id and isinstance(v, ast.Call):
                        evals.append((n, v))
        if len(evals) != 1:
            raise AnalysisError('%s: cannot find the single pre-evaluation '
                                'call bound to %s' % (f.fq, blockers.id))
        st, ev = evals[0]
        cfg = CFG(f)
        dom = cfg.dominators()
        ev_node = cfg.node_of(st)
        # is the flag stored True in a mapping passed to the call?
        arg_names = {a.id for a in ev.args if isinstance(a, ast.Name)}
        ok = False
        for n in own_nodes(f):
            if isinstance(n, ast.Assign) and len(n.targets) == 1 and \
                    isinstance(n.targets[0], ast.Subscript):
                t = n.targets[0]
                tok = module_token(ctx, f, t.slice)
                if tok is flag and isinstance(t.value, ast.Name) and \
                        t.value.id in arg_names and isinstance(
                        n.value, ast.Constant) and n.value.value is True:
                    sn = cfg.node_of(n)
                    if sn is not None and ev_node is not None and \
                            cfg.dominates(sn, ev_node, dom):
                        ok = True
        if not ok:
            # the mapping may come out of a private helper that sets the flag
            cands = [(a_, st) for a_ in ev.args if isinstance(a_, ast.Call)]
            for a_name in arg_names:
                for t_, v_, st_ in assign_pairs(f):
                    if isinstance(t_, ast.Name) and t_.id == a_name and \
                            isinstance(v_, ast.Call):
                        cands.append((v_, st_))
            for v_, st_ in cands:
                if True:
                    for e_ in ctx.cg._resolve_callee(f, v_.func, v_, 'call'):
                        if e_.is_ext or e_.precision != 'exact':
                            continue
                        h = e_.dst
                        hcfg = CFG(h)
                        hdom = hcfg.dominators()
                        rets = [r_ for r_ in own_nodes(h) if isinstance(
                            r_, ast.Return) and isinstance(r_.value, ast.Name)]
                        for r_ in rets:
                            for s_ in own_nodes(h):
                                if isinstance(s_, ast.Assign) and len(
                                        s_.targets) == 1 and isinstance(
                                        s_.targets[0], ast.Subscript) and \
                                        module_token(ctx, h, s_.targets[
                                            0].slice) is flag and isinstance(
                                        s_.targets[0].value, ast.Name) and \
                                        s_.targets[0].value.id == r_.value.id \
                                        and isinstance(s_.value, ast.Constant) \
                                        and s_.value.value is True and \
                                        hcfg.dominates(hcfg.node_of(s_),
                                                       hcfg.node_of(r_), hdom):
                                    sn = cfg.node_of(st_)
                                    if sn is not None and ev_node is not None \
                                            and cfg.dominates(sn, ev_node, dom):
                                        ok = True
        if not ok:
            # the flag is set somewhere this function reaches, but not where it
            # can be shown to cover the evaluation: undecided, not a violation
            from ..util import nodes_with_helpers
            elsewhere = any(
                isinstance(s_, ast.Assign) and len(s_.targets) == 1 and
                isinstance(s_.targets[0], ast.Subscript) and
                module_token(ctx, g_, s_.targets[0].slice) is flag and
                isinstance(s_.value, ast.Constant) and s_.value.value is True
                for g_, s_ in nodes_with_helpers(ctx, f))
            # ... unless this very function stores it into the mapping it
            # passes, on a path that does not cover the call (after it, or in
            # one branch only): that is the violation itself
            misplaced = any(
                isinstance(s_, ast.Assign) and len(s_.targets) == 1 and
                isinstance(s_.targets[0], ast.Subscript) and
                module_token(ctx, f, s_.targets[0].slice) is flag and
                isinstance(s_.targets[0].value, ast.Name) and
                s_.targets[0].value.id in arg_names
                for s_ in own_nodes(f))
            if elsewhere and not misplaced:
                raise AnalysisError(
                    '%s: COMPILING is set in code this function reaches, but '
                    'not in a place that provably covers `%s`' % (
                        f.qualname, src(ev)))
        where = '%s:%d' % (f.module.rel, ev.lineno)
        if ok:
            rr.ok('%s: pre-evaluation `%s` runs with COMPILING=True' % (
                f.qualname, src(ev)), where)
        else:
            rr.fail(key_of(f, 'pre-evaluation without COMPILING'),
                    '%s pre-evaluates with `%s` and reuses the solution as '
                    'blockers, but the COMPILING flag is not set for that '
                    'evaluation: volatile cells are computed once and frozen' % (
                        f.qualname, src(ev)),
                    file=f.module.rel, function=f.qualname, line=ev.lineno)
    return rr


def rule_refs(ctx):
    """Load-time evaluation of defined names keeps references only."""
    rr = RuleResult('C13', 'C13.refs', 'MPT',
                    'the load-time evaluation of defined names keeps only '
                    'range references, never computed values', floor=1)
    p = ctx.project
    f = p.func('formulas/excel/__init__.py', 'ExcelModel._update_refs')
    ranges_cls = p.cls('formulas/ranges.py', 'Ranges')
    # sol = <dispatcher>(...) ; refs.update({... for k, v in sol.items() if ...})
    sols = set()
    for n in own_nodes(f):
        if isinstance(n, ast.Assign) and isinstance(n.value, ast.Call) and \
                isinstance(n.value.func, ast.Name) and isinstance(
                n.targets[0], ast.Name):
            sols.add(n.targets[0].id)
    upd = [n for n in own_nodes(f) if isinstance(n, ast.Call)
           and call_name(n) == 'update' and n.args and isinstance(
        n.args[0], (ast.DictComp, ast.GeneratorExp, ast.ListComp))]
    def over_solution(u):
        # iterates `<sol>.items()` with <sol> a name bound to a call result, or
        # the call itself (`dsp({...}).items()`)
        for g in u.args[0].generators:
            it = g.iter
            if isinstance(it, ast.Call) and isinstance(
                    it.func, ast.Attribute) and it.func.attr in (
                    'items', 'values'):
                base = it.func.value
                if isinstance(base, ast.Name) and base.id in sols:
                    return True
                if isinstance(base, ast.Call) and isinstance(
                        base.func, ast.Name):
                    return True
        return any(isinstance(x, ast.Name) and x.id in sols
                   for x in ast.walk(u.args[0]))

    upd = [u for u in upd if over_solution(u)]
    # one view of the two spellings: (statement, name of the stored value,
    # conditions under which it is stored)
    stores = []
    for u in upd:
        g = u.args[0].generators[0]
        vn = None
        if isinstance(g.target, ast.Tuple) and len(g.target.elts) == 2 and \
                isinstance(g.target.elts[1], ast.Name):
            vn = g.target.elts[1].id
        stores.append((u, vn, list(g.ifs)))
    # ... or item by item: `for k, v in sol.items(): if ...: refs[k] = v`
    from ..util import path_conditions
    prm = set(f.params[1:])
    for lp in own_nodes(f):
        if not (isinstance(lp, ast.For) and isinstance(
                lp.iter, ast.Call) and isinstance(
                lp.iter.func, ast.Attribute) and lp.iter.func.attr in (
                'items', 'values') and (
                isinstance(lp.iter.func.value, ast.Name) and
                lp.iter.func.value.id in sols or isinstance(
                    lp.iter.func.value, ast.Call))):
            continue
        for n in ast.walk(lp):
            if isinstance(n, ast.Assign) and len(n.targets) == 1 and \
                    isinstance(n.targets[0], ast.Subscript) and isinstance(
                    n.targets[0].value, ast.Name) and \
                    n.targets[0].value.id in prm and isinstance(
                    n.value, ast.Name):
                stores.append((n, n.value.id, [
                    c for c, pol in path_conditions(f, n) if pol]))
    if not stores:
        raise AnalysisError('_update_refs: the statement that stores the '
                            'pre-evaluated references was not recognised')
    rr.instances = max(1, len(stores))
    for u, val_name, conds in stores:
        only_ranges = False
        admitted = []
        for cond in conds:
            for c in ast.walk(cond):
                if isinstance(c, ast.Call) and isinstance(c.func, ast.Name) and \
                        c.func.id == 'isinstance' and len(c.args) == 2 and \
                        isinstance(c.args[0], ast.Name) and \
                        c.args[0].id == val_name:
                    t = c.args[1]
                    elts = t.elts if isinstance(t, ast.Tuple) else [t]
                    classes = [ctx.cg.resolve_name_expr(f, e) for e in elts]
                    admitted = [src(e) for e in elts]
                    only_ranges = all(r and r[0] == 'class' and
                                      p.is_subclass(r[1], ranges_cls)
                                      for r in classes)
        if only_ranges:
            rr.ok('_update_refs keeps a result only if it is a Ranges '
                  '(a reference), so no computed value is fixed at load time',
                  '%s:%d' % (f.module.rel, u.lineno))
        else:
            rr.fail(key_of(f, 'keeps computed values of defined names'),
                    '_update_refs evaluates defined names at load time and '
                    'keeps results of kind %s: a name defined by a volatile '
                    'formula (=RAND(), =NOW()) is fixed when the workbook is '
                    'loaded and folded into every formula that uses it' % (
                        admitted or 'any'), file=f.module.rel,
                    function=f.qualname, line=u.lineno)
    return rr


INT_CALLS = {'builtins.int', 'math.floor', 'math.ceil', 'math.trunc',
             'numpy.random.randint', 'random.randint', 'random.randrange',
             'numpy.floor', 'numpy.ceil', 'numpy.rint', 'numpy.trunc',
             'numpy.fix', 'builtins.len'}
FLOAT_CALLS = {'numpy.random.rand', 'numpy.random.random', 'random.random',
               'random.uniform', 'numpy.random.uniform', 'builtins.float',
               'numpy.random.random_sample', 'numpy.random.ranf'}
HALF_OPEN_RANDINT = {'numpy.random.randint', 'random.randrange'}
ROUNDERS = {'builtins.int', 'builtins.round', 'math.floor', 'math.ceil',
            'math.trunc', 'numpy.floor', 'numpy.ceil', 'numpy.rint',
            'numpy.trunc', 'numpy.fix', 'numpy.round'}


def _kind(ctx, f, e, env):
    """'int' | 'float' | '?' - whether the value of e is integral by construction."""
    if isinstance(e, ast.Constant):
        if isinstance(e.value, bool):
            return '?'
        if isinstance(e.value, int):
            return 'int'
        if isinstance(e.value, float):
            return 'int' if e.value.is_integer() else 'float'
        return '?'
    if isinstance(e, ast.Name):
        return env.get(e.id, '?')
    if isinstance(e, ast.UnaryOp) and isinstance(e.op, (ast.USub, ast.UAdd)):
        return _kind(ctx, f, e.operand, env)
    if isinstance(e, ast.BinOp):
        l, r = _kind(ctx, f, e.left, env), _kind(ctx, f, e.right, env)
        if isinstance(e.op, ast.FloorDiv):
            return 'int' if 'float' not in (l, r) or True else '?'
        if isinstance(e.op, ast.Div):
            return 'float'
        if isinstance(e.op, (ast.Add, ast.Sub, ast.Mult)):
            if 'float' in (l, r):
                return 'float'
            return 'int' if l == r == 'int' else '?'
        return '?'
    if isinstance(e, ast.Call):
        r = ctx.cg.resolve_name_expr(f, e.func) if isinstance(
            e.func, (ast.Name, ast.Attribute)) else None
        name = r[1] if r and r[0] == 'ext' else None
        if name is None and isinstance(e.func, ast.Name) and \
                e.func.id in ('int', 'round', 'float', 'len'):
            name = 'builtins.' + e.func.id
        if name in INT_CALLS:
            return 'int'
        if name == 'builtins.round':
            return 'int' if len(e.args) == 1 and not e.keywords else 'float'
        if name in FLOAT_CALLS:
            return 'float'
        return '?'
    if isinstance(e, ast.IfExp):
        a, b = _kind(ctx, f, e.body, env), _kind(ctx, f, e.orelse, env)
        return a if a == b else ('float' if 'float' in (a, b) else '?')
    return '?'


def rule_randint(ctx):
    rr = RuleResult('C13', 'C13.randint', 'KIND',
                    'RANDBETWEEN draws an integer, both bounds attainable',
                    floor=1)
    reg = ctx.registry.functions.get('RANDBETWEEN')
    if reg is None or reg.core.kind != 'func':
        raise AnalysisError('RANDBETWEEN core not found')
    f = reg.core.fi
    rr.instances += 1
    # straight-line kind environment: names assigned at the top level of the
    # function, in order; a return sees the assignments before it
    env = {}
    verdicts = []

    def walk(stmts, env):
        for st in stmts:
            if isinstance(st, ast.Assign):
                pairs = []
                for t in st.targets:
                    if isinstance(t, ast.Tuple) and isinstance(
                            st.value, ast.Tuple) and len(t.elts) == len(
                            st.value.elts):
                        pairs += list(zip(t.elts, st.value.elts))
                    else:
                        pairs.append((t, st.value))
                new = {}
                for t, v in pairs:
                    if isinstance(t, ast.Name):
                        new[t.id] = _kind(ctx, f, v, env)
                env.update(new)
            elif isinstance(st, ast.If):
                walk(st.body, dict(env))
                walk(st.orelse, dict(env))
            elif isinstance(st, ast.Return) and st.value is not None:
                t = norm_src(st.value)
                if 'errors[' in t:
                    continue
                verdicts.append((st, _kind(ctx, f, st.value, env)))

    # a registered input_parser computes what the core receives: its returned
    # tuple gives the kinds of the core's parameters
    pf = None
    ip = reg.cfg.get('input_parser')
    from ..peval import FuncV as _FuncV
    if isinstance(ip, _FuncV) and not ip.fi.is_lambda:
        pf = ip.fi
        penv, pret = {}, []

        def pwalk(stmts, e_):
            for st in stmts:
                if isinstance(st, ast.Assign):
                    for t in st.targets:
                        if isinstance(t, ast.Tuple) and isinstance(
                                st.value, ast.Tuple) and len(t.elts) == len(
                                st.value.elts):
                            for tt, vv in zip(t.elts, st.value.elts):
                                if isinstance(tt, ast.Name):
                                    e_[tt.id] = _kind(ctx, pf, vv, e_)
                        elif isinstance(t, ast.Name):
                            e_[t.id] = _kind(ctx, pf, st.value, e_)
                elif isinstance(st, ast.If):
                    pwalk(st.body, dict(e_))
                    pwalk(st.orelse, dict(e_))
                elif isinstance(st, ast.Return) and isinstance(
                        st.value, ast.Tuple):
                    pret.append([_kind(ctx, pf, v, e_) for v in st.value.elts])

        pwalk(pf.body, penv)
        for i, prm in enumerate(f.params):
            ks = {r_[i] for r_ in pret if i < len(r_)}
            if len(ks) == 1:
                env[prm] = ks.pop()
    walk(f.body, env)
    if not verdicts:
        raise AnalysisError('%s: no value-returning path' % f.qualname)
    bad = [(st, k) for st, k in verdicts if k == 'float']
    unk = [(st, k) for st, k in verdicts if k == '?']
    if bad:
        st = bad[0][0]
        rr.fail(key_of(f, 'result is not integral'),
                '%s returns `%s`: a real number obtained from a uniform draw '
                'in [0, 1) without rounding to an integer, so RANDBETWEEN does '
                'not return an integer' % (f.qualname, norm_src(st.value)),
                file=f.module.rel, function=f.qualname, line=st.lineno)
    elif unk:
        raise AnalysisError('%s: cannot tell whether `%s` is integral' % (
            f.qualname, norm_src(unk[0][0].value)))
    else:
        rr.ok('every value %s returns is integral by construction (%s)' % (
            f.qualname, '; '.join(norm_src(st.value) for st, _ in verdicts)),
            '%s:%d' % (f.module.rel, f.lineno))
    # the empty-range guard must test the bounds the draw uses: if a bound is
    # re-assigned (rounded) after the guard, the guard judged other values
    for f in [x for x in (pf, f) if x is not None and len(x.params) >= 2]:
        lo, hi = f.params[0], f.params[1]
        guards = [st for st in f.node.body if isinstance(st, ast.If) and any(
            isinstance(r_, ast.Return) and r_.value is not None and
            'errors[' in norm_src(r_.value) or isinstance(r_, ast.Raise) and
            'errors[' in norm_src(r_) for r_ in st.body) and
            {lo, hi} <= names_in(st.test) | {
                x for t_, v_, _s in assign_pairs(f)
                if isinstance(t_, ast.Name) and t_.id in names_in(st.test)
                for x in names_in(v_)} and any(
                isinstance(c_, ast.Compare) and any(isinstance(
                    o_, (ast.Lt, ast.LtE, ast.Gt, ast.GtE)) for o_ in c_.ops)
                for c_ in ast.walk(st.test))]
        if guards:
            rr.instances += 1
            g = guards[-1]
            later = [st for st in f.node.body if st.lineno > g.lineno and
                     isinstance(st, (ast.Assign, ast.AugAssign)) and any(
                         isinstance(x, ast.Name) and x.id in (lo, hi) and
                         isinstance(x.ctx, ast.Store) for x in ast.walk(st))]
            # ... or the bounds are rounded on the way out (a parser that
            # returns `ceil(bottom), floor(top)` after the guard)
            later += [st for st in f.node.body if st.lineno > g.lineno and
                      isinstance(st, ast.Return) and any(
                          isinstance(c_, ast.Call) and isinstance(
                              c_.func, (ast.Name, ast.Attribute)) and (
                              ctx.cg.resolve_name_expr(f, c_.func) or ('',
                                                                        ''))[
                              1] in ROUNDERS and len(c_.args) == 1 and
                          isinstance(c_.args[0], ast.Name) and
                          c_.args[0].id in (lo, hi)
                          for c_ in ast.walk(st))]
            if later:
                rr.fail(key_of(f, 'range guard tests the bounds before they '
                                  'are rounded'),
                        '%s rejects an empty range with `%s` and re-assigns a '
                        'bound afterwards (`%s`): the guard judged the raw '
                        'bounds, the draw uses the rounded ones, so for bounds '
                        'with no integer between them the result lies outside '
                        '[bottom, top]' % (f.qualname, norm_src(g.test),
                                           norm_src(later[0])[:60]),
                        file=f.module.rel, function=f.qualname,
                        line=later[0].lineno)
            else:
                rr.ok('the empty-range guard `%s` tests the bounds the draw '
                      'uses' % norm_src(g.test), '%s:%d' % (f.module.rel,
                                                            g.lineno))
    # a half-open integer draw needs `top + 1` to make the upper bound attainable
    for n in own_nodes(f):
        if isinstance(n, ast.Call) and isinstance(n.func, (ast.Name,
                                                           ast.Attribute)):
            r = ctx.cg.resolve_name_expr(f, n.func)
            if r and r[0] == 'ext' and r[1] in HALF_OPEN_RANDINT and \
                    len(n.args) >= 2:
                rr.instances += 1
                hi = n.args[1]
                plus1 = isinstance(hi, ast.BinOp) and isinstance(
                    hi.op, ast.Add) and any(
                    isinstance(x, ast.Constant) and x.value == 1
                    for x in (hi.left, hi.right))
                if plus1:
                    rr.ok('half-open draw `%s` adds one to the upper bound' %
                          norm_src(n), '%s:%d' % (f.module.rel, n.lineno))
                else:
                    rr.fail(key_of(f, 'upper bound not attainable'),
                            '%s draws with `%s`, whose upper limit is '
                            'exclusive: the upper bound of RANDBETWEEN is '
                            'never returned' % (f.qualname, norm_src(n)),
                            file=f.module.rel, function=f.qualname,
                            line=n.lineno)
    # int() truncates toward zero: it may be applied to the non-negative
    # offset, not to a sum that contains the (possibly negative) lower bound
    lo = f.params[0] if f.params else None
    for n in own_nodes(f):
        if isinstance(n, ast.Call) and isinstance(n.func, ast.Name) and \
                n.func.id == 'int' and len(n.args) == 1 and isinstance(
                n.args[0], ast.BinOp) and isinstance(
                n.args[0].op, (ast.Add, ast.Sub)) and any(
                isinstance(c, ast.Call) and call_name(c) in (
                    'rand', 'random', 'random_sample', 'uniform')
                for c in ast.walk(n.args[0])):
            rr.instances += 1
            top_level = [n.args[0].left, n.args[0].right]
            if lo and any(isinstance(x, ast.Name) and x.id == lo
                          for x in top_level):
                rr.fail(key_of(f, 'truncation of a sum with the lower bound'),
                        '%s converts `%s` with int(), which truncates toward '
                        'zero: for a negative lower bound the draw is rounded '
                        '*up* and can exceed the upper bound' % (
                            f.qualname, norm_src(n.args[0])),
                        file=f.module.rel, function=f.qualname, line=n.lineno)
            else:
                rr.ok('int() is applied to the non-negative offset `%s`'
                      % norm_src(n.args[0]), '%s:%d' % (
                          f.module.rel, n.lineno))
    return rr


def rule_direct(ctx):
    """Who may evaluate a cell: the compiled function of a Cell/Ref (`.func`) is
    called by the dispatcher through CellWrapper.__call__ only.  A direct call
    from loading code runs volatile cores at that moment - outside a dispatch
    the COMPILING mask is not in force - and whatever stores the result has
    frozen it."""
    rr = RuleResult('C13', 'C13.direct', 'WHO',
                    'a cell function is evaluated only through the dispatcher',
                    floor=1)
    p = ctx.project
    cell = p.cls('formulas/cell.py', 'Cell')
    wrapper = p.cls('formulas/cell.py', 'CellWrapper')
    family = set(p.subclasses(cell)) | {cell}
    allowed = {m.fq for m in wrapper.methods.values() if m.name == '__call__'}
    n_sites = 0
    for f in p.functions.values():
        owner = f
        while owner is not None and owner.cls is None:
            owner = owner.parent
        selfn = owner.params[0] if owner is not None and owner.params else None
        for n in own_nodes(f):
            if not (isinstance(n, ast.Call) and isinstance(
                    n.func, ast.Attribute) and n.func.attr == 'func'):
                continue
            recv = n.func.value
            is_cell = False
            if isinstance(recv, ast.Name) and recv.id == selfn and \
                    owner.cls is not None and (
                    owner.cls in family or owner.cls is wrapper):
                is_cell = True
            else:
                for c in ctx.cg.receiver_classes(f, recv) if hasattr(
                        ctx.cg, 'receiver_classes') else []:
                    if c in family:
                        is_cell = True
                if not is_cell and isinstance(recv, ast.Name):
                    # a local bound from a Cell/Ref constructor call
                    from ..util import assigned_value
                    for v in assigned_value(f, recv.id):
                        for c in ast.walk(v):
                            if isinstance(c, ast.Call) and isinstance(
                                    c.func, (ast.Name, ast.Attribute)):
                                r = ctx.cg.resolve_name_expr(f, c.func)
                                if r and r[0] == 'class' and r[1] in family:
                                    is_cell = True
            if not is_cell:
                continue
            n_sites += 1
            rr.instances += 1
            if f.fq in allowed:
                rr.ok('%s calls the cell function: this is the dispatcher '
                      'entry' % f.qualname, '%s:%d' % (f.module.rel, n.lineno))
            else:
                rr.fail(key_of(f, 'evaluates a cell function directly'),
                        '%s calls `%s` itself. Cell functions are meant to be '
                        'run by the dispatcher (CellWrapper.__call__ during a '
                        'calculation); a direct call evaluates the formula - '
                        'volatile functions included - at that moment, and a '
                        'caller that keeps the result has fixed it at load or '
                        'compile time' % (f.qualname, norm_src(n)[:60]),
                        file=f.module.rel, function=f.qualname, line=n.lineno)
    if not n_sites:
        raise AnalysisError('C13.direct: the dispatcher entry '
                            'CellWrapper.__call__ -> self.func(...) was not '
                            'found')
    return rr


def run(ctx):
    S = ctx.soft
    from .modelstate import rule_history
    r1, reaching, reach = rule_impure(ctx)
    return [r1, S(rule_mask, ctx), S(rule_nomemo, ctx, reaching, reach),
            S(rule_sites, ctx), S(rule_refs, ctx), S(rule_direct, ctx),
            S(rule_randint, ctx),
            # a calculation that takes values from the solution of an earlier
            # one freezes every volatile cell among them (shared with C07/C08)
            S(rule_history, ctx, 'C13', 'C13.history')]
