"""Helpers shared by rule modules."""
import ast

from ..model import AnalysisError, FuncInfo
from ..peval import (FuncV, Ext, CallV, DictV, SeqV, TokenV, Const, ClassV,
                     Unknown, BoundV, is_const)
from ..registry import WRAPPERS, FUNCS_REL
from ..report import RuleResult


def reg_targets(ctx, reg, include_wrappers=False):
    """(package functions, ext names) named anywhere in a registration value."""
    funcs, exts = [], []
    for t in ctx.cg._av_targets(reg.value):
        if isinstance(t, str):
            exts.append(t)
        else:
            if not include_wrappers and t.module.rel == FUNCS_REL and \
                    t.name in WRAPPERS and t.parent is None:
                continue
            if t not in funcs:
                funcs.append(t)
    return funcs, exts


def match_source(name, sources):
    for pat, _why in sources:
        if pat.endswith('.'):
            if name.startswith(pat):
                return pat
        elif name == pat or name.startswith(pat + '.'):
            return pat
    return None


def source_reach(ctx, sources):
    """For every function: the set of (source ext name, witness edge) it reaches.

    Returns dict fq -> dict source name -> next-hop Edge (for witness paths).
    """
    cg = ctx.cg
    direct = {}
    for fq, edges in cg.edges.items():
        for e in edges:
            if e.is_ext and e.kind in ('call', 'ref') and \
                    match_source(e.dst, sources):
                direct.setdefault(fq, {}).setdefault(e.dst, e)
    reach = {fq: dict(v) for fq, v in direct.items()}
    changed = True
    while changed:
        changed = False
        for fq, edges in cg.edges.items():
            for e in edges:
                if e.is_ext:
                    continue
                sub = reach.get(e.dst.fq)
                if not sub:
                    continue
                cur = reach.setdefault(fq, {})
                for s in sub:
                    if s not in cur:
                        cur[s] = e
                        changed = True
    return reach


def witness(ctx, reach, fi, source):
    steps, cur, guard = [], fi, 0
    while guard < 100:
        guard += 1
        e = reach.get(cur.fq, {}).get(source)
        if e is None:
            break
        if e.is_ext:
            steps.append('%s:%s %s calls %s' % (
                cur.module.rel, getattr(e.node, 'lineno', '?'), cur.qualname,
                e.dst))
            break
        steps.append('%s:%s %s -> %s' % (
            cur.module.rel, getattr(e.node, 'lineno', '?'), cur.qualname,
            e.dst.qualname))
        cur = e.dst
    return steps


def ret_exprs(fi):
    """Return-value expressions of a function (lambda body or Return values)."""
    if fi.is_lambda:
        return [fi.node.body]
    from ..model import own_nodes
    return [n.value for n in own_nodes(fi)
            if isinstance(n, ast.Return) and n.value is not None]
