"""Helpers shared by rule modules."""
import ast

from ..model import AnalysisError, FuncInfo
from ..peval import (FuncV, Ext, CallV, DictV, SeqV, TokenV, Const, ClassV,
                     Unknown, BoundV, is_const)
from ..registry import WRAPPERS, FUNCS_REL
from ..report import RuleResult


def reg_targets(ctx, reg, include_wrappers=False):
    """(package functions, ext names) named anywhere in a registration value."""
    funcs, exts = [], []
    for t in ctx.cg._av_targets(reg.value):
        if isinstance(t, str):
            exts.append(t)
        else:
            if not include_wrappers and t.module.rel == FUNCS_REL and \
                    t.name in WRAPPERS and t.parent is None:
                continue
            if t not in funcs:
                funcs.append(t)
    return funcs, exts


def match_source(name, sources):
    for pat, _why in sources:
        if pat.endswith('.'):
            if name.startswith(pat):
                return pat
        elif name == pat or name.startswith(pat + '.'):
            return pat
    return None


def source_reach(ctx, sources):
    """For every function: the set of (source ext name, witness edge) it reaches.

    Returns dict fq -> dict source name -> next-hop Edge (for witness paths).
    """
    cg = ctx.cg
    direct = {}
    for fq, edges in cg.edges.items():
        for e in edges:
            if e.is_ext and e.kind in ('call', 'ref') and \
                    match_source(e.dst, sources):
                direct.setdefault(fq, {}).setdefault(e.dst, e)
    reach = {fq: dict(v) for fq, v in direct.items()}
    changed = True
    while changed:
        changed = False
        for fq, edges in cg.edges.items():
            for e in edges:
                if e.is_ext:
                    continue
                sub = reach.get(e.dst.fq)
                if not sub:
                    continue
                cur = reach.setdefault(fq, {})
                for s in sub:
                    if s not in cur:
                        cur[s] = e
                        changed = True
    return reach


def witness(ctx, reach, fi, source):
    steps, cur, guard = [], fi, 0
    while guard < 100:
        guard += 1
        e = reach.get(cur.fq, {}).get(source)
        if e is None:
            break
        if e.is_ext:
            steps.append('%s:%s %s calls %s' % (
                cur.module.rel, getattr(e.node, 'lineno', '?'), cur.qualname,
                e.dst))
            break
        steps.append('%s:%s %s -> %s' % (
            cur.module.rel, getattr(e.node, 'lineno', '?'), cur.qualname,
            e.dst.qualname))
        cur = e.dst
    return steps


def ret_exprs(fi):
    """Return-value expressions of a function (lambda body or Return values)."""
    if fi.is_lambda:
        return [fi.node.body]
    from ..model import own_nodes
    return [n.value for n in own_nodes(fi)
            if isinstance(n, ast.Return) and n.value is not None]


# ---------------------------------------------------------------------------
# typed memoisation: equal-but-differently-typed Excel values share a cache slot
# ---------------------------------------------------------------------------
NUMERIC_KINDS = {'bool', 'int', 'float', 'bool_', 'number', 'integer', 'floating'}


def _inspects_kind(ctx, g, seen=None, depth=0):
    """Does g (or an exact callee fed by g's parameters) test whether a
    parameter-derived value is a bool/int/float?  Returns a description or None."""
    from ..model import own_nodes, norm_src
    from ..errflow import ErrFlow
    seen = seen if seen is not None else set()
    if g.fq in seen or depth > 3:
        return None
    seen.add(g.fq)
    ef = ErrFlow(ctx)
    der = ef.derived(g)
    for n in own_nodes(g):
        if isinstance(n, ast.Call) and isinstance(n.func, ast.Name) and \
                n.func.id == 'isinstance' and len(n.args) == 2:
            if not ef.sources(g, n.args[0], der):
                continue
            t = n.args[1]
            elts = t.elts if isinstance(t, ast.Tuple) else [t]
            names = {norm_src(e).split('.')[-1] for e in elts}
            if names & NUMERIC_KINDS:
                return '%s:%d `%s`' % (g.module.rel, n.lineno, norm_src(n))
        if isinstance(n, ast.Call) and isinstance(n.func, ast.Name) and \
                n.func.id == 'type' and n.args and ef.sources(g, n.args[0], der):
            return '%s:%d `%s`' % (g.module.rel, n.lineno, norm_src(n))
    for n in own_nodes(g):
        if isinstance(n, ast.Call):
            if not any(ef.sources(g, a, der) for a in n.args):
                continue
            for ed in ctx.cg._resolve_callee(g, n.func, n, 'call'):
                if ed.is_ext or ed.precision != 'exact':
                    continue
                r = _inspects_kind(ctx, ed.dst, seen, depth + 1)
                if r:
                    return r
    # a function nested in a builder that assembles a dispatcher and calls it
    # with its own arguments: the node and filter functions of that
    # dispatcher see those arguments
    if g.parent is not None and any(
            isinstance(n, ast.Call) and any(ef.sources(g, a, der)
                                            for a in n.args)
            for n in own_nodes(g)):
        par = g.parent
        for n in own_nodes(par):
            if not (isinstance(n, ast.Call) and isinstance(
                    n.func, ast.Attribute) and n.func.attr in (
                    'add_function', 'add_data')):
                continue
            cands = []
            for k in n.keywords:
                if k.arg == 'function':
                    cands.append(k.value)
                elif k.arg == 'filters' and isinstance(
                        k.value, (ast.List, ast.Tuple)):
                    cands += list(k.value.elts)
            if n.func.attr == 'add_function' and len(n.args) > 1:
                cands.append(n.args[1])
            for c in cands:
                if isinstance(c, ast.Call) and c.args:   # partial(f, ...)
                    c = c.args[0]
                r_ = ctx.cg.resolve_name_expr(par, c) if isinstance(
                    c, (ast.Name, ast.Attribute)) else None
                if r_ and r_[0] in ('func', 'nested'):
                    r = _inspects_kind(ctx, r_[1], seen, depth + 1)
                    if r:
                        return r
    return None


def untyped_memo_hazards(ctx):
    """[(function, decorator node, evidence)] for memoised functions whose result
    depends on the *kind* (bool vs number) of an argument while the cache key
    does not (functools.lru_cache without typed=True: 1 == 1.0 == True)."""
    out = []
    for g in ctx.project.functions.values():
        for d in g.decorators():
            fn = d.func if isinstance(d, ast.Call) else d
            r = ctx.project.resolve_expr(g.module, fn)
            if not (r and r[0] == 'ext' and r[1] in ('functools.lru_cache',
                                                      'functools.cache')):
                continue
            typed = isinstance(d, ast.Call) and any(
                k.arg == 'typed' and isinstance(k.value, ast.Constant)
                and k.value.value for k in d.keywords)
            if typed or not g.all_params:
                continue
            ev = _inspects_kind(ctx, g) or _returns_mixed_param(ctx, g)
            if ev:
                out.append((g, d, ev))
    return out


def _returns_mixed_param(ctx, g):
    """A memoised function that hands one of its own arguments back (possibly
    inside a tuple) while that argument is of mixed kinds (the function tests
    its type with isinstance): the cached object of the first caller is
    returned to callers passing an equal value of another kind."""
    from ..model import own_nodes, norm_src
    s = ctx.effects.summ.get(g.fq)
    if s is None:
        return None
    back = set(s.returns_alias) | set(s.returns_elem)
    if s.returns_tuple:
        for a, b in s.returns_tuple:
            back |= set(a) | set(b)
    for n in own_nodes(g):
        if isinstance(n, ast.Call) and isinstance(n.func, ast.Name) and \
                n.func.id == 'isinstance' and len(n.args) == 2 and isinstance(
                n.args[0], ast.Name) and n.args[0].id in back and \
                n.args[0].id in g.all_params:
            return '%s:%d returns its argument `%s`, whose type it tests ' \
                   '(`%s`)' % (g.module.rel, n.lineno, n.args[0].id, norm_src(n))
    return None


def norm_src_(n):
    from ..model import norm_src
    return norm_src(n)


def handmade_memoisers(ctx):
    """Package functions that wrap a callable in a value-keyed dict memo:
    `def M(func): memo = {}; def w(*vals): try: return memo[vals] except
    KeyError: memo[vals] = r = func(*vals) ...; return w`.  Returns
    {M.fq: (M, wrapper, index of the wrapped-callable parameter)}; only memos
    keyed by the raw arguments (no type() in the key) count."""
    from ..model import own_nodes, norm_src
    out = {}
    for m in ctx.project.functions.values():
        if m.is_lambda or not m.nested or not m.params:
            continue
        rets = {n.value.id for n in own_nodes(m) if isinstance(n, ast.Return)
                and isinstance(n.value, ast.Name)}
        for w in m.nested.values():
            if w.name not in rets:
                continue
            keyv = w.vararg
            if keyv is None:
                continue
            memo_names = set()
            for n in ast.walk(w.node):
                if isinstance(n, ast.Subscript) and isinstance(
                        n.value, ast.Name) and isinstance(
                        n.slice, ast.Name) and n.slice.id == keyv:
                    memo_names.add(n.value.id)
            memo_names = {d for d in memo_names if d not in w.all_params}
            stores = any(isinstance(n, ast.Subscript) and isinstance(
                n.ctx, ast.Store) and isinstance(n.value, ast.Name) and
                n.value.id in memo_names for n in ast.walk(w.node))
            if not (memo_names and stores):
                continue
            # which parameter of M does the wrapper call with the key?
            for i, prm in enumerate(m.params):
                if any(isinstance(n, ast.Call) and isinstance(
                        n.func, ast.Name) and n.func.id == prm and any(
                        isinstance(a, ast.Starred) and isinstance(
                            a.value, ast.Name) and a.value.id == keyv
                        for a in n.args) for n in ast.walk(w.node)):
                    out[m.fq] = (m, w, i)
    return out


def handmade_memo_hazards(ctx):
    """[(site function, call node, memoised function, registration or None,
    evidence)]: a hand-written value-keyed memo applied to a function whose
    result depends on the kind (logical vs number) of an argument."""
    from ..model import own_nodes
    from ..util import bound_arg
    from .c07 import _funcs_of
    memoisers = handmade_memoisers(ctx)
    out = []
    if not memoisers:
        return out
    for f in ctx.project.functions.values():
        for n in own_nodes(f):
            if not (isinstance(n, ast.Call) and isinstance(
                    n.func, (ast.Name, ast.Attribute))):
                continue
            r = ctx.cg.resolve_name_expr(f, n.func)
            if not (r and r[0] == 'func' and r[1].fq in memoisers):
                continue
            m, w, idx = memoisers[r[1].fq]
            a = bound_arg(ctx, f, n, idx)
            if not isinstance(a, (ast.Name, ast.Attribute)):
                continue
            rg = ctx.cg.resolve_name_expr(f, a)
            if not (rg and rg[0] in ('func', 'nested')):
                continue
            g = rg[1]
            ev = _inspects_kind(ctx, g)
            if ev:
                out.append((f, n, g, None, ev))
                continue
            # g is a closure of a registration wrapper: what it calls is bound
            # per registration
            fac = g.parent
            if fac is None:
                continue
            called = [p_ for p_ in fac.all_params if any(
                isinstance(x, ast.Call) and isinstance(x.func, ast.Name)
                and x.func.id == p_ for x in ast.walk(g.node))]
            # is the application guarded by a parameter of the factory?
            guard = None
            for x in ast.walk(fac.node):
                if isinstance(x, (ast.IfExp, ast.If)) and isinstance(
                        x.test, ast.Name) and x.test.id in fac.all_params \
                        and any(y is n for y in ast.walk(x)):
                    guard = x.test.id
            defaults = {}
            fa = fac.node.args
            pos = fa.posonlyargs + fa.args
            for prm, dv in zip(pos[len(pos) - len(fa.defaults):], fa.defaults):
                defaults[prm.arg] = dv
            for reg in ctx.registry.all():
                if not reg.has(fac.name):
                    continue
                bound = dict([c for c in reg.chain if c[0] == fac.name][0][2])
                if guard is not None:
                    gv = bound.get(guard)
                    if not (is_const(gv) and gv.v):
                        continue
                for p_ in called:
                    funcs = _funcs_of(bound[p_]) if p_ in bound else []
                    if p_ not in bound and isinstance(
                            defaults.get(p_), ast.Lambda):
                        funcs = [l for l in fac.lambdas
                                 if l.node is defaults[p_]]
                    for h in funcs:
                        ev = _inspects_kind(ctx, h)
                        if ev:
                            out.append((f, n, g, reg, '%s `%s` - %s' % (
                                p_, h.qualname, ev)))
                            break
    return out


def rule_memo(ctx, prop, rule, regs, roots=None):
    """No memoised function reachable from `regs` (or the given root functions)
    conflates values of different kinds."""
    from ..util import key_of
    rr = RuleResult(prop, rule, 'EFF',
                    'memoised helpers keyed by value must not depend on the '
                    'kind (logical vs number) of that value', floor=1)
    roots = list(roots or [])
    for reg in regs:
        f, _ = reg_targets(ctx, reg, include_wrappers=True)
        roots += [x for x in f if x not in roots]
    reach = ctx.cg.reachable(roots)
    memo = [g for g in ctx.project.functions.values()
            if ctx.effects.is_memoised(g) and g.fq in reach]
    hazards = {g.fq: (g, d, ev) for g, d, ev in untyped_memo_hazards(ctx)}
    rr.instances = max(1, len(memo))
    for g in memo:
        if g.fq in hazards:
            _, d, ev = hazards[g.fq]
            rr.fail(key_of(g, 'untyped memo on kind-dependent function'),
                    '%s is memoised with an untyped cache but its result '
                    'depends on whether an argument is a logical or a number '
                    '(%s): 1, 1.0 and TRUE compare equal and share one cache '
                    'slot, so the first one evaluated decides the others' % (
                        g.qualname, ev), file=g.module.rel,
                    function=g.qualname, line=g.lineno,
                    path=ctx.cg.path_to(reach, g.fq))
        else:
            rr.ok('memoised %s does not depend on the kind of its arguments '
                  '(or uses a typed cache)' % g.qualname,
                  '%s:%d' % (g.module.rel, g.lineno))
    # hand-written value-keyed memos (`memo[vals]`) applied to kind-dependent
    # functions, for the registrations in scope
    keys = {r.key for r in regs}
    seen = set()
    for f, n, g, reg, ev in handmade_memo_hazards(ctx):
        if reg is not None and reg.key not in keys:
            continue
        if reg is None and f.fq not in reach and g.fq not in reach:
            continue
        k = g.fq
        if k in seen:
            continue
        seen.add(k)
        rr.instances += 1
        rr.fail(key_of(f, 'hand-written memo on kind-dependent %s' % g.name),
                '%s memoises %s in a dict keyed by the raw argument values '
                '(`%s`), but for %s the result depends on whether a value is a '
                'logical or a number (%s): 1, 1.0 and TRUE hash and compare '
                'equal, so within one evaluation the first of them decides the '
                'result of the others' % (
                    f.qualname, g.qualname, norm_src_(n)[:50],
                    reg.key if reg is not None else 'its callers', ev),
                file=f.module.rel, function=f.qualname, line=n.lineno)
    if not memo and not seen:
        rr.ok('no memoised function reachable', '', nontrivial=False)
    return rr



def _defs_of(f, name):
    """Every expression a local name is bound from (assignments - also tuple
    unpacking and chained targets -, augmented assignments, loop targets)."""
    from ..model import own_nodes
    out = []
    for n in own_nodes(f):
        if isinstance(n, ast.Assign):
            for t in n.targets:
                if isinstance(t, ast.Name) and t.id == name:
                    out.append(n.value)
                elif isinstance(t, (ast.Tuple, ast.List)):
                    if isinstance(n.value, (ast.Tuple, ast.List)) and len(
                            t.elts) == len(n.value.elts):
                        for tt, vv in zip(t.elts, n.value.elts):
                            if isinstance(tt, ast.Name) and tt.id == name:
                                out.append(vv)
                    elif any(isinstance(x, ast.Name) and x.id == name
                             for x in ast.walk(t)):
                        out.append(n.value)
        elif isinstance(n, ast.AugAssign) and isinstance(
                n.target, ast.Name) and n.target.id == name:
            out.append(n.value)
        elif isinstance(n, ast.For) and any(
                isinstance(x, ast.Name) and x.id == name
                for x in ast.walk(n.target)):
            out.append(n.iter)
    return out


def _access_deps(ctx, f, e, loc, depth=0, seen=None):
    """Dependencies of expression e on the locals of f, following single local
    definitions.  Returns (whole, parts, lossy): names used as a whole, name ->
    set of constant keys (None = unknown key) for names only subscripted /
    .get()-ed, and names that enter only through a filtering comprehension or
    a key function that filters."""
    from ..model import own_nodes
    from ..util import assigned_value
    seen = set() if seen is None else seen
    whole, parts, lossy = set(), {}, set()
    if depth > 4:
        return whole, parts, lossy
    comp_vars = {}
    for x in ast.walk(e):
        if isinstance(x, ast.comprehension):
            for t in ast.walk(x.target):
                if isinstance(t, ast.Name):
                    comp_vars[t.id] = x.iter
    consumed = set()

    def const_keys(k):
        """Constant keys a subscript/get key expression may take."""
        if isinstance(k, ast.Constant):
            return {k.value}
        if isinstance(k, ast.Name) and k.id in comp_vars:
            it = comp_vars[k.id]
            if isinstance(it, (ast.Tuple, ast.List)) and all(
                    isinstance(z, ast.Constant) for z in it.elts):
                return {z.value for z in it.elts}
            if isinstance(it, (ast.Name, ast.Attribute)):
                r = ctx.cg.resolve_name_expr(f, it)
                if r and r[0] == 'var':
                    av = ctx.ev.module_env(r[1]).get(r[2])
                    els = ctx.ev.iterate(av) if av is not None else None
                    if els and all(is_const(z) for z in els):
                        return {z.v for z in els}
        return {None}

    for x in ast.walk(e):
        base = key = None
        if isinstance(x, ast.Subscript) and isinstance(x.value, ast.Name):
            base, key = x.value, x.slice
        elif isinstance(x, ast.Call) and isinstance(x.func, ast.Attribute) and \
                x.func.attr == 'get' and isinstance(x.func.value, ast.Name) \
                and x.args:
            base, key = x.func.value, x.args[0]
        if base is not None and base.id in loc and base.id not in comp_vars:
            parts.setdefault(base.id, set()).update(const_keys(key))
            consumed.add(id(base))
        # attribute paths of a parameter/local: x.attr is the part '.attr' of x
        if isinstance(x, ast.Attribute) and isinstance(x.value, ast.Name) and \
                x.value.id in loc and x.value.id not in comp_vars and \
                id(x.value) not in consumed:
            parts.setdefault(x.value.id, set()).add('.' + x.attr)
            consumed.add(id(x.value))
    for x in ast.walk(e):
        if isinstance(x, ast.Name) and isinstance(x.ctx, ast.Load) and \
                x.id in loc and x.id not in comp_vars and id(x) not in consumed:
            whole.add(x.id)
    for x in ast.walk(e):
        if isinstance(x, (ast.ListComp, ast.GeneratorExp, ast.SetComp,
                          ast.DictComp)):
            for g in x.generators:
                if g.ifs:
                    lossy |= {y.id for y in ast.walk(g.iter)
                              if isinstance(y, ast.Name) and y.id in loc}
        if isinstance(x, ast.Call) and isinstance(x.func, (ast.Name,
                                                           ast.Attribute)):
            r = ctx.cg.resolve_name_expr(f, x.func)
            if r and r[0] == 'func' and r[1].fq not in seen:
                g = r[1]
                gloc = ctx.cg.locals_of(g)
                for ret in [n.value for n in own_nodes(g) if isinstance(
                        n, ast.Return) and n.value is not None]:
                    _w, _p, gl = _access_deps(ctx, g, ret, gloc, depth + 1,
                                              seen | {g.fq})
                    for i, a in enumerate(x.args):
                        if i < len(g.params) and g.params[i] in gl:
                            lossy |= {y.id for y in ast.walk(a)
                                      if isinstance(y, ast.Name) and y.id in loc}
    # replace locals by what their definitions depend on
    params = set(f.all_params)
    for nme in sorted(whole):
        if nme in params or nme in seen:
            continue
        vals = _defs_of(f, nme)
        if not vals:
            continue
        whole.discard(nme)
        for v in vals:
            w2, p2, l2 = _access_deps(ctx, f, v, loc, depth + 1, seen | {nme})
            whole |= w2
            for k, v2 in p2.items():
                parts.setdefault(k, set()).update(v2)
            lossy |= l2
    # attribute parts assigned in this function: follow what was stored there
    for nme in list(parts):
        for key in sorted(k for k in parts[nme] if isinstance(k, str)
                          and k.startswith('.')):
            tag = '%s%s' % (nme, key)
            if tag in seen:
                continue
            vals = []
            for n in own_nodes(f):
                if isinstance(n, ast.Assign):
                    for t in n.targets:
                        ts = t.elts if isinstance(t, (ast.Tuple, ast.List)) \
                            else [t]
                        vs = n.value.elts if isinstance(t, (
                            ast.Tuple, ast.List)) and isinstance(
                            n.value, (ast.Tuple, ast.List)) and len(
                            n.value.elts) == len(ts) else [n.value] * len(ts)
                        for tt, vv in zip(ts, vs):
                            if isinstance(tt, ast.Attribute) and isinstance(
                                    tt.value, ast.Name) and tt.value.id == nme \
                                    and '.' + tt.attr == key and not any(
                                    y is e for y in ast.walk(n)):
                                vals.append(vv)
            if not vals:
                continue
            parts[nme].discard(key)
            for v in vals:
                w2, p2, l2 = _access_deps(ctx, f, v, loc, depth + 1,
                                          seen | {tag})
                whole |= w2
                for k, v2 in p2.items():
                    parts.setdefault(k, set()).update(v2)
                lossy |= l2
        if not parts[nme]:
            parts.pop(nme)
    for nme in list(parts):
        if nme in whole:
            parts.pop(nme)
    return whole, parts, lossy


def _judge_key(ctx, rr, f, rel, n, D, K, V, kn, loc):
    from ..model import norm_src
    from ..util import key_of
    dn = {x.id for x in ast.walk(D) if isinstance(x, ast.Name)}
    kw, kp, klossy = _access_deps(ctx, f, K, loc)
    vw, vp, _vl = _access_deps(ctx, f, V, loc)
    knames = {x.id for x in ast.walk(K) if isinstance(x, ast.Name)}
    # the key variable itself may appear in the value (`a, b = key`)
    vw -= knames
    missing = []
    for nme in sorted(vw - kw - dn):
        if nme in kp:
            missing.append('%s (the key uses only %s of it)' % (nme, ', '.join(
                repr(k) for k in sorted(kp[nme], key=str))))
        else:
            missing.append(nme)
    for nme, keys in sorted(vp.items()):
        if nme in kw or nme in dn or nme in knames:
            continue
        have = kp.get(nme)
        if have is None:
            missing.append(nme)
        elif None in have or None in keys:
            continue  # dynamic keys on both sides: not decidable, not reported
        elif not keys <= have:
            missing.append('%s[%s]' % (nme, ', '.join(
                repr(k) for k in sorted(keys - have, key=str))))
    partial = sorted((vw | set(vp)) & klossy)
    if missing:
        rr.fail(key_of(f, 'cache key %s misses %s' % (
            norm_src(K), ','.join(m.split(' ')[0] for m in missing))),
            '%s caches `%s` under the key `%s`, but the value is '
            'computed from %s, which the key does not identify: '
            'entries that differ only there collide (e.g. same-titled '
            'sheets of two workbooks, the same [n] index under different '
            'link tables)' % (
                f.qualname, norm_src(V)[:80], norm_src(K), '; '.join(missing)),
            file=rel, function=f.qualname, line=n.lineno)
    elif partial:
        rr.fail(key_of(f, 'cache key %s keeps only part of %s' % (
            norm_src(K), ','.join(partial))),
            '%s caches `%s` under the key `%s`; the key is built from %s '
            'through a filter (a comprehension with a condition), while the '
            'value is computed from all of it: two calls that differ only in '
            'the filtered-out part share one entry (e.g. the same [n] index '
            'with different external-link tables)' % (
                f.qualname, norm_src(V)[:80], norm_src(K), ', '.join(partial)),
            file=rel, function=f.qualname, line=n.lineno)
    else:
        rr.ok('%s: cache `%s[%s] = %s` - the key names everything '
              'the value is computed from' % (
                  f.qualname, norm_src(D), norm_src(K),
                  norm_src(V)[:80]), '%s:%d' % (rel, n.lineno))


def rule_cachekey(ctx, prop, rule, modules):
    """`if K not in D: D[K] = V` with a computed key: the key must mention every
    local the cached value is computed from (otherwise two different values
    share one slot)."""
    from ..model import own_nodes, norm_src
    from ..util import key_of
    rr = RuleResult(prop, rule, 'TAB',
                    'a per-call cache key determines the cached value', floor=0)
    for rel in modules:
        m = ctx.project.module(rel)
        for f in m.all_funcs:
            loc = ctx.cg.locals_of(f)
            for n in own_nodes(f):
                if not (isinstance(n, ast.If) and isinstance(n.test, ast.Compare)
                        and len(n.test.ops) == 1 and isinstance(
                            n.test.ops[0], ast.NotIn)):
                    continue
                K, D = n.test.left, n.test.comparators[0]
                if isinstance(K, ast.Constant) or not isinstance(
                        D, (ast.Name, ast.Attribute)):
                    continue
                stores = [s for s in n.body if isinstance(s, ast.Assign) and any(
                    isinstance(t, ast.Subscript) and norm_src(t.value) ==
                    norm_src(D) and norm_src(t.slice) == norm_src(K)
                    for t in s.targets)]
                if not stores:
                    continue
                rr.instances += 1
                V = stores[0].value
                kn = {x.id for x in ast.walk(K) if isinstance(x, ast.Name)}
                _judge_key(ctx, rr, f, rel, n, D, K, V, kn, loc)
                continue
            # x = D.get(K); if x is None: x = D[K] = v
            from ..util import assign_pairs as _ap
            gets = {}
            for t, v, _st in _ap(f):
                # `x = D.get(K)`, also as one arm of a conditional expression
                # (`x = None if D is None else D.get(K)`)
                arms = [v]
                if isinstance(v, ast.IfExp):
                    arms = [v.body, v.orelse]
                for v in arms:
                    if isinstance(t, ast.Name) and isinstance(v, ast.Call) and \
                            isinstance(v.func, ast.Attribute) and \
                            v.func.attr == 'get' and len(v.args) == 1 and \
                            isinstance(v.func.value, (ast.Name, ast.Attribute)):
                        gets[t.id] = (v.func.value, v.args[0])
            for n in own_nodes(f):
                if not (isinstance(n, ast.If) and isinstance(
                        n.test, ast.Compare) and len(n.test.ops) == 1 and
                        isinstance(n.test.ops[0], ast.Is) and isinstance(
                            n.test.left, ast.Name) and n.test.left.id in gets
                        and isinstance(n.test.comparators[0], ast.Constant)
                        and n.test.comparators[0].value is None):
                    continue
                D, K = gets[n.test.left.id]
                if isinstance(K, ast.Constant):
                    continue
                stores = [x for st in n.body for x in ast.walk(st)
                          if isinstance(x, ast.Assign) and any(
                              isinstance(tt, ast.Subscript) and
                              norm_src(tt.value) == norm_src(D) and
                              norm_src(tt.slice) == norm_src(K)
                              for tt in x.targets)]
                if not stores:
                    continue
                rr.instances += 1
                kn = {x.id for x in ast.walk(K) if isinstance(x, ast.Name)}
                V = stores[0].value
                if isinstance(V, ast.Name):
                    # the value computed under the test, then stored by name
                    from ..util import assigned_value
                    vs = [v for v in assigned_value(f, V.id)
                          if any(v is y for st in n.body for y in ast.walk(st))]
                    V = ast.Tuple(elts=vs, ctx=ast.Load()) if vs else V
                _judge_key(ctx, rr, f, rel, n, D, K, V, kn, loc)
            # if K in D: use D[K]  else: ... D[K] = v
            for n in own_nodes(f):
                if not (isinstance(n, ast.If) and n.orelse):
                    continue
                tests = n.test.values if isinstance(
                    n.test, ast.BoolOp) and isinstance(n.test.op, ast.And) \
                    else [n.test]
                for t in tests:
                    if not (isinstance(t, ast.Compare) and len(t.ops) == 1 and
                            isinstance(t.ops[0], ast.In) and isinstance(
                                t.comparators[0], (ast.Name, ast.Attribute))):
                        continue
                    K, D = t.left, t.comparators[0]
                    if isinstance(K, ast.Constant):
                        continue
                    stores = [x for st in n.orelse for x in ast.walk(st)
                              if isinstance(x, ast.Assign) and any(
                                  isinstance(tt, ast.Subscript) and
                                  norm_src(tt.value) == norm_src(D) and
                                  norm_src(tt.slice) == norm_src(K)
                                  for tt in x.targets)]
                    if not stores:
                        continue
                    rr.instances += 1
                    kn = {x.id for x in ast.walk(K) if isinstance(x, ast.Name)}
                    _judge_key(ctx, rr, f, rel, n, D, K, stores[0].value, kn,
                               loc)
            # try: v = D[K] / except KeyError: ... D[K] = v
            for n in own_nodes(f):
                if not isinstance(n, ast.Try):
                    continue
                look = [x for st in n.body for x in ast.walk(st)
                        if isinstance(x, ast.Subscript) and isinstance(
                            x.ctx, ast.Load) and isinstance(
                            x.value, (ast.Name, ast.Attribute))]
                hs = [h for h in n.handlers if h.type is not None and
                      'KeyError' in norm_src(h.type)]
                if not look or not hs:
                    continue
                for lk in look:
                    D, K = lk.value, lk.slice
                    stores = [x for h in hs for st in h.body
                              for x in ast.walk(st)
                              if isinstance(x, ast.Assign) and any(
                                  isinstance(t, ast.Subscript) and
                                  norm_src(t.value) == norm_src(D) and
                                  norm_src(t.slice) == norm_src(K)
                                  for t in x.targets)]
                    if not stores:
                        continue
                    r = ctx.cg.resolve_name_expr(f, D)
                    if not (r and r[0] == 'var') and not isinstance(
                            D, ast.Attribute):
                        continue  # a per-call local mapping
                    rr.instances += 1
                    V = stores[0].value
                    if isinstance(V, ast.Name):
                        # the value computed in the handler
                        from ..util import assigned_value
                        vs = [v for v in assigned_value(f, V.id)
                              if any(v is y for h in hs for st in h.body
                                     for y in ast.walk(st))]
                        V = ast.Tuple(elts=vs, ctx=ast.Load()) if vs else V
                    kn = {x.id for x in ast.walk(K) if isinstance(x, ast.Name)}
                    _judge_key(ctx, rr, f, rel, n, D, K, V, kn, loc)
    if not rr.instances:
        rr.instances = 1
        rr.ok('no hand-written cache (computed key) in %s' % ', '.join(modules),
              modules[0], nontrivial=False)
    return rr


def slot_memo_sites(ctx, f):
    """`if 'k' not in P: P['k'] = V` where P is a parameter of f: a memo slot
    on an object that outlives the call.  Yields (if node, P, key, V, outside)
    where `outside` lists what V depends on besides P itself (data and control
    dependence through the locals of f)."""
    from ..model import own_nodes, norm_src
    from ..util import assign_pairs
    params = set(f.all_params)
    loc = ctx.cg.locals_of(f)
    pairs = assign_pairs(f)
    # guards: assignment stmt id -> names in the tests of enclosing ifs
    ctrl = {}

    def rec(stmts, names):
        for st in stmts:
            ctrl[id(st)] = set(names)
            if isinstance(st, ast.If):
                t = {x.id for x in ast.walk(st.test) if isinstance(x, ast.Name)}
                rec(st.body, names | t)
                rec(st.orelse, names | t)
            elif isinstance(st, (ast.For, ast.While, ast.With, ast.Try)):
                for fld in ('body', 'orelse', 'finalbody'):
                    rec(getattr(st, fld, []) or [], names)
                for h in getattr(st, 'handlers', []) or []:
                    rec(h.body, names)

    rec(f.body, set())
    imported = set()
    for x in own_nodes(f):
        if isinstance(x, (ast.Import, ast.ImportFrom)):
            imported |= {(a.asname or a.name).split('.')[0] for a in x.names}
        elif isinstance(x, (ast.FunctionDef, ast.ClassDef)):
            imported.add(x.name)

    def deps(e, P, seen):
        """Names outside {P} that expression e depends on."""
        out = set()
        for x in ast.walk(e):
            if not isinstance(x, ast.Name) or not isinstance(x.ctx, ast.Load):
                continue
            n = x.id
            if n == P or n not in loc or n in imported:
                continue  # the memo object itself / module-level name
            if n in params:
                out.add(n)
                continue
            if n in seen:
                continue
            seen.add(n)
            defs = [(v, st) for t, v, st in pairs
                    if isinstance(t, ast.Name) and t.id == n]
            if not defs:
                out.add(n)  # loop variable etc.
                continue
            multi = len(defs) > 1
            for v, st in defs:
                out |= deps(v, P, seen)
                if multi:
                    # which definition reaches depends on the enclosing tests
                    for c in ctrl.get(id(st), ()):
                        if c != P and c in loc:
                            if c in params:
                                out.add(c)
                            else:
                                out |= deps(ast.Name(id=c, ctx=ast.Load()), P,
                                            seen)
        return out

    for n in own_nodes(f):
        if not (isinstance(n, ast.If) and isinstance(n.test, ast.Compare)
                and len(n.test.ops) == 1 and isinstance(
                    n.test.ops[0], ast.NotIn)
                and isinstance(n.test.left, ast.Constant)
                and isinstance(n.test.comparators[0], ast.Name)
                and n.test.comparators[0].id in params):
            continue
        P, key = n.test.comparators[0].id, n.test.left.value
        for s in n.body:
            if isinstance(s, ast.Assign) and any(
                    isinstance(t, ast.Subscript) and isinstance(
                        t.value, ast.Name) and t.value.id == P and isinstance(
                        t.slice, ast.Constant) and t.slice.value == key
                    for t in s.targets):
                yield n, P, key, s.value, sorted(deps(s.value, P, set()))


def rule_slotmemo(ctx, prop, rule, funcs, floor=1):
    from ..model import norm_src
    from ..util import key_of
    rr = RuleResult(prop, rule, 'DEP',
                    'a value memoised in a slot of an argument is a function '
                    'of that argument alone', floor=floor)
    for f in funcs:
        for n, P, key, V, outside in slot_memo_sites(ctx, f):
            rr.instances += 1
            if outside:
                rr.fail(key_of(f, 'memo slot %r of %s depends on %s' % (
                    key, P, ','.join(outside))),
                    '%s stores `%s` in `%s[%r]` once and reuses it on later '
                    'calls, but the value also depends on %s: a later call '
                    'with a different %s finds the slot filled and works with '
                    'the value computed for the earlier one' % (
                        f.qualname, norm_src(V)[:70], P, key,
                        ', '.join(outside), '/'.join(outside)),
                    file=f.module.rel, function=f.qualname, line=n.lineno)
            else:
                rr.ok('%s: `%s[%r]` is computed from `%s` alone' % (
                    f.qualname, P, key, P), '%s:%d' % (f.module.rel, n.lineno))
    return rr


def nomut_for(ctx, prop, rule, regs, floor):
    """C07's in-place-write rule restricted to what the given registrations run:
    their cores, parsers and bound arguments, plus the shared wrappers/helpers."""
    from .c07 import rule_nomut
    allowed = set()
    for reg in regs:
        fs, _ = reg_targets(ctx, reg, include_wrappers=True)
        allowed |= {f.fq for f in fs}
        for f in fs:  # closures handed out by registration-time factories
            allowed |= {g.fq for g in f.nested.values()}
            allowed |= {g.fq for g in f.lambdas}
    return rule_nomut(
        ctx, prop, rule, floor=floor,
        only=lambda f, role: f.fq in allowed or role.startswith(
            ('wrapper', 'wrap_ufunc', 'helper')))


# ---------------------------------------------------------------------------
# a bounds guard must measure the object that is indexed afterwards
# ---------------------------------------------------------------------------
LEN_PRESERVING = {'builtins.list', 'builtins.tuple', 'numpy.asarray',
                  'numpy.array', 'numpy.asanyarray', 'numpy.matrix',
                  'numpy.copy'}


def stale_bounds_guards(ctx, f):
    """[(guard If, name, reassignment stmt, later subscript)]: an `if` that
    compares an index with `len(V)` / `V.shape` and leaves (raise/return), then
    V is re-bound to something that need not have the same extent, then V is
    indexed - the guard measured another object."""
    from ..model import own_nodes
    out = []
    if f.is_lambda:
        return out
    nodes = list(own_nodes(f))
    for g in nodes:
        if not (isinstance(g, ast.If) and g.body and isinstance(
                g.body[-1], (ast.Raise, ast.Return))):
            continue
        measured = set()
        for c in ast.walk(g.test):
            if isinstance(c, ast.Call) and isinstance(c.func, ast.Name) and \
                    c.func.id == 'len' and c.args and isinstance(
                    c.args[0], ast.Name):
                measured.add(c.args[0].id)
            if isinstance(c, ast.Attribute) and c.attr in ('shape', 'size') \
                    and isinstance(c.value, ast.Name):
                measured.add(c.value.id)
        if not measured or not isinstance(g.test, (ast.Compare, ast.BoolOp)):
            continue
        gend = getattr(g, 'end_lineno', g.lineno)
        for v in sorted(measured):
            re_ = []
            for n in nodes:
                if isinstance(n, ast.Assign) and n.lineno > gend and any(
                        isinstance(t, ast.Name) and t.id == v
                        for t in n.targets):
                    val = n.value
                    keep = False
                    if isinstance(val, ast.Call) and isinstance(
                            val.func, (ast.Name, ast.Attribute)):
                        r = ctx.cg.resolve_name_expr(f, val.func)
                        if r and r[0] == 'ext' and r[1] in LEN_PRESERVING:
                            keep = True
                    if not keep:
                        re_.append(n)
            for a in re_:
                uses = [n for n in nodes if isinstance(n, ast.Subscript) and
                        isinstance(n.value, ast.Name) and n.value.id == v and
                        isinstance(n.ctx, ast.Load) and n.lineno > a.lineno]
                if uses:
                    out.append((g, v, a, uses[0]))
                    break
    return out


def rule_stale_guard(ctx, prop, rule, funcs, floor=0):
    from ..model import norm_src
    from ..util import key_of
    rr = RuleResult(prop, rule, 'DEF',
                    'a bounds test measures the object that is indexed', floor=floor)
    n = 0
    for f in funcs:
        if f.is_lambda:
            continue
        n += 1
        for g, v, a, use in stale_bounds_guards(ctx, f):
            rr.instances += 1
            rr.fail(key_of(f, 'bounds of `%s` tested before it is re-bound' % v),
                    '%s rejects an index with `%s` (line %d), then re-binds '
                    '`%s` (`%s`, line %d) and indexes the new object (`%s`): '
                    'the test measured the extent of the old one, so a valid '
                    'index can be refused and an invalid one accepted when the '
                    'two extents differ (e.g. a table that is wider than '
                    'tall)' % (f.qualname, norm_src(g.test)[:60], g.lineno, v,
                               norm_src(a)[:40], a.lineno, norm_src(use)[:40]),
                    file=f.module.rel, function=f.qualname, line=a.lineno)
    rr.instances = max(rr.instances, 1)
    if not rr.findings:
        rr.ok('%d functions: no bounds test is separated from the indexing it '
              'protects by a re-binding of the measured object' % n,
              funcs[0].module.rel if funcs else '', nontrivial=False)
    return rr
