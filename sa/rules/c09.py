"""C09 - JSON round trip: writer/reader tag agreement and escape symmetry (structural clauses)."""
import ast

from ..model import AnalysisError, own_nodes, norm_src
from ..report import RuleResult
from ..util import key_of, src, call_name, kwarg
from ..callgraph import fi_cls

META = {
    'decides': (
        'C09, structural clauses only: (tags) every wrapped form to_dict can '
        'emit (typed dict for HexValue, the #EMPTY marker, ="..."-escaped '
        'text) has a branch in from_dict and vice versa; (shadow) no type test of the encoders sits where a test for one of its base classes has already failed (a dead branch loses the tag); (quote) escape '
        'symmetry for both quote delimiters - wherever a value is written '
        'between a delimiter that a reader un-doubles, the writer writes the '
        'still-doubled source text or re-doubles it; (render) exported formula '
        'text re-parses to the same tree (= C01.render/fold); (ids) canonical '
        'sheet identifiers re-parse (= C04.quote); (refs) both load paths '
        'pre-evaluate defined names on the nodes their references added and '
        'from_dict compiles the cells against that complete table; (source) '
        'to_dict reads only state that survives __getstate__ (the dispatcher), '
        'not the cell registry; (memo/cachekey) no memoised helper of the '
        'export/import path conflates a logical with the equal number, and a '
        'cache of compiled cells is keyed by everything the compiled function '
        'depends on (the cell itself included). The writer/reader pairing '
        'follows helper functions of the same module; (fallback) the cell '
        'constructor and the defined-name constructor it falls back to in '
        'from_dict receive the same instruction on whether the value is to be '
        'parsed as a formula.'),
    'not_decided': (
        'Value equality after the round trip and the fixed point of repeated '
        'exports for all workbooks.'),
    'trusted_base': ['CPython ast'],
    'assumptions': ['values are placed between quotes by %-formatting or '
                    'str.format with a constant template'],
}

EXCEL = 'formulas/excel/__init__.py'


def helper_closure(ctx, f, depth=3):
    """f and the functions of its own module it calls (transitively): an
    export/import routine may be split into helpers without changing what it
    writes."""
    out, work = [f], [(f, 0)]
    while work:
        g, d = work.pop()
        if d >= depth:
            continue
        for e in ctx.cg.out(g):
            if e.is_ext or e.kind != 'call' or e.precision != 'exact':
                continue
            h = e.dst
            if h.module is f.module and h not in out and h.name != '__init__':
                out.append(h)
                work.append((h, d + 1))
    return out


def _closure_nodes(ctx, f):
    for g in helper_closure(ctx, f):
        for n in own_nodes(g):
            yield n


def rule_tags(ctx):
    rr = RuleResult('C09', 'C09.tags', 'EXH',
                    'to_dict wrapped forms <-> from_dict branches', floor=3)
    p = ctx.project
    td = p.func(EXCEL, 'ExcelModel.to_dict')
    fd = p.func(EXCEL, 'ExcelModel.from_dict')

    def tags(f):
        marks, types, keys = set(), set(), set()
        typed_vars = set()
        nodes = list(_closure_nodes(ctx, f))
        for n in nodes:
            if isinstance(n, ast.Constant) and isinstance(n.value, str):
                if n.value.startswith('#') and n.value[1:].isalpha():
                    marks.add(n.value.upper())
            if isinstance(n, ast.Dict):
                ks = {k.value: v for k, v in zip(n.keys, n.values)
                      if isinstance(k, ast.Constant)}
                if 'type' in ks and isinstance(ks['type'], ast.Constant):
                    types.add(ks['type'].value)
                    keys |= {k for k in ks if isinstance(k, str)}
            if isinstance(n, ast.Compare) and isinstance(
                    n.left, ast.Subscript) and isinstance(
                    n.left.slice, ast.Constant) and n.left.slice.value == 'type':
                for c in n.comparators:
                    if isinstance(c, ast.Constant):
                        types.add(c.value)
                keys.add('type')
                if isinstance(n.left.value, ast.Name):
                    typed_vars.add(n.left.value.id)
        for n in nodes:
            if isinstance(n, ast.Subscript) and isinstance(
                    n.value, ast.Name) and n.value.id in typed_vars and \
                    isinstance(n.slice, ast.Constant) and isinstance(
                    n.slice.value, str):
                keys.add(n.slice.value)
        return marks, types, keys

    wm, wt, wk = tags(td)
    rm, rt, rk = tags(fd)
    rr.instances = len(wm | rm) + len(wt | rt) + 1
    for m in sorted(wm | rm):
        if m in wm and m in rm:
            rr.ok('marker %s is written by to_dict and read by from_dict' % m,
                  EXCEL)
        elif m in wm:
            rr.fail(key_of(fd, 'marker %s not read back' % m),
                    'to_dict writes the marker %s but from_dict has no branch '
                    'for it: the value is imported as literal text' % m,
                    file=EXCEL, function=fd.qualname, line=fd.lineno)
        else:
            rr.fail(key_of(td, 'marker %s never written' % m),
                    'from_dict recognises %s but to_dict never writes it (the '
                    'two spellings differ)' % m, file=EXCEL,
                    function=td.qualname, line=td.lineno)
    for t in sorted(wt | rt):
        if t in wt and t in rt:
            rr.ok('typed value %r round-trips (written and read)' % t, EXCEL)
        elif t in wt:
            rr.fail(key_of(fd, 'typed value %s not read back' % t),
                    "to_dict emits {'type': %r} but from_dict does not "
                    'reconstruct it' % t, file=EXCEL, function=fd.qualname,
                    line=fd.lineno)
        else:
            rr.fail(key_of(td, 'typed value %s never written' % t),
                    'from_dict reconstructs type %r which to_dict never emits'
                    % t, file=EXCEL, function=td.qualname, line=td.lineno)
    if (wt or rt) and wk != rk:
        rr.fail(key_of(fd, 'typed value keys'),
                'typed values are written with keys %s and read with keys %s'
                % (sorted(wk), sorted(rk)), file=EXCEL, function=fd.qualname,
                line=fd.lineno)
    else:
        rr.ok('typed values use the keys %s on both sides' % sorted(wk), EXCEL)
    # the class reconstructed is the class tested when writing
    rr.instances += 1
    wcls = {norm_src(n.args[1]) for n in _closure_nodes(ctx, td)
            if isinstance(n, ast.Call)
            and isinstance(n.func, ast.Name) and n.func.id == 'isinstance'
            and len(n.args) == 2 and 'Hex' in norm_src(n.args[1])}
    rcls = {norm_src(n.func) for n in _closure_nodes(ctx, fd)
            if isinstance(n, ast.Call)
            and 'Hex' in norm_src(n.func)}
    if wcls == rcls:
        rr.ok('typed value class agrees: %s' % sorted(wcls), EXCEL)
    else:
        rr.fail(key_of(fd, 'typed value class differs'),
                'to_dict wraps instances of %s, from_dict rebuilds %s' % (
                    sorted(wcls), sorted(rcls)), file=EXCEL,
                function=fd.qualname, line=fd.lineno)
    return rr


def _quote_sites(ctx):
    """Format operations whose template puts a placeholder directly between
    two equal quote characters: (function, node, quote char, value exprs)."""
    p = ctx.project
    out = []
    for f in p.functions.values():
        for n in own_nodes(f):
            # the three spellings of formatting, one view: placeholders `{}`
            from ..util import template_of
            tp_ = template_of(n) if isinstance(
                n, (ast.BinOp, ast.Call, ast.JoinedStr)) else None
            if tp_ is None:
                continue
            tmpl, vals = tp_[0].replace('{{', '\x00').replace(
                '}}', '\x01'), tp_[1]
            ph = '{}'
            for q in ('"', "'"):
                # every placeholder lying between two q characters
                i, k = 0, 0
                idxs = []
                pos = 0
                while True:
                    j = tmpl.find(ph, pos)
                    if j < 0:
                        break
                    idxs.append(j)
                    pos = j + len(ph)
                for k, j in enumerate(idxs):
                    before = tmpl[:j]
                    after = tmpl[j + len(ph):]
                    if before.count(q) % 2 == 1 and q in after and \
                            before.rstrip('[]{}')[-1:] in (q, '[', ']') or (
                            before.endswith(q) and after.startswith(q)):
                        if before.count(q) % 2 == 1 and k < len(vals):
                            out.append((f, n, q, vals[k], tmpl))
    return out


def _undoubling_readers(ctx):
    """Quote characters for which some function un-doubles (replace(qq, q))."""
    out = {}
    for f in ctx.project.functions.values():
        for n in own_nodes(f):
            if isinstance(n, ast.Call) and call_name(n) == 'replace' and \
                    len(n.args) == 2 and all(isinstance(a, ast.Constant)
                                             for a in n.args):
                a, b = n.args[0].value, n.args[1].value
                if isinstance(a, str) and isinstance(b, str) and len(b) == 1 \
                        and a == b * 2 and b in '\'"':
                    out.setdefault(b, []).append(f)
    return out


def _classify(ctx, f, q, e):
    """'redoubled' | 'raw' | 'plain' for the value written between quotes."""
    for n in ast.walk(e):
        if isinstance(n, ast.Call) and call_name(n) == 'replace' and \
                len(n.args) == 2 and all(isinstance(a, ast.Constant)
                                         for a in n.args) and \
                n.args[0].value == q and n.args[1].value == q * 2:
            return 'redoubled'
    # raw token text: self.name inside a token class whose compile un-doubles
    cls = fi_cls(f)
    if isinstance(e, ast.Attribute) and isinstance(e.value, ast.Name) and \
            f.params and e.value.id == f.params[0] and cls is not None:
        comp = ctx.project.find_method(cls, 'compile')
        if comp is not None and any(
                isinstance(n, ast.Call) and call_name(n) == 'replace' and
                len(n.args) == 2 and getattr(n.args[0], 'value', None) == q * 2
                for n in own_nodes(comp)):
            return 'raw'
    # a local that was assigned a re-doubled value on every path is accepted
    if isinstance(e, ast.Name):
        vals = [n.value for n in own_nodes(f) if isinstance(n, ast.Assign)
                and any(isinstance(t, ast.Name) and t.id == e.id
                        for t in n.targets)]
        if vals and _classify(ctx, f, q, vals[-1]) == 'redoubled' and not any(
                isinstance(c, ast.Call) and call_name(c) == 'replace' and
                getattr(c.args[0], 'value', None) == q * 2
                for v in vals for c in ast.walk(v) if isinstance(c, ast.Call)
                and len(c.args) == 2):
            return 'redoubled'
    return 'plain'


def rule_quote(ctx):
    rr = RuleResult('C09', 'C09.quote', 'SYM',
                    'values written between quotes are raw or re-doubled',
                    floor=4)
    readers = _undoubling_readers(ctx)
    rr.note('un-doubling readers: %s' % {q: [f.qualname for f in fs]
                                         for q, fs in readers.items()})
    if '"' not in readers:
        raise AnalysisError('no reader un-doubles the double quote '
                            '(String.compile expected)')
    for f, n, q, val, tmpl in _quote_sites(ctx):
        if q not in readers:
            continue
        if f in readers[q]:
            # writer and un-doubling reader are one function (_build_sheet_id):
            # decided by C09.ids (= C04.quote), not repeated here
            rr.instances += 1
            rr.ok('%s: `%s` - writer is itself the un-doubling reader; see '
                  'C09.ids' % (f.qualname, tmpl), '%s:%d' % (
                      f.module.rel, n.lineno), nontrivial=False)
            continue
        rr.instances += 1
        kind = _classify(ctx, f, q, val)
        where = '%s:%d' % (f.module.rel, n.lineno)
        if kind in ('raw', 'redoubled'):
            rr.ok('%s: `%s` writes a %s value between %s' % (
                f.qualname, tmpl, kind, q), where)
        else:
            rr.fail(key_of(f, 'value between %s not re-doubled (%s)' % (
                'double quotes' if q == '"' else 'single quotes', tmpl)),
                '%s formats `%s` with the value `%s` between %s characters '
                'without doubling embedded quotes, but the reader (%s) '
                'un-doubles them: a value containing %s does not read back' % (
                    f.qualname, tmpl, norm_src(val), q,
                    ', '.join(x.qualname for x in readers[q]), q),
                file=f.module.rel, function=f.qualname, line=n.lineno)
    return rr


def rule_refs(ctx):
    rr = RuleResult('C09', 'C09.refs', 'SIB',
                    'both load paths pre-evaluate defined names on the nodes '
                    'their references added', floor=2)
    p = ctx.project
    for q in ('ExcelModel.add_references', 'ExcelModel.from_dict'):
        f = p.func(EXCEL, q)
        rr.instances += 1
        calls = [n for n in own_nodes(f) if isinstance(n, ast.Call)
                 and call_name(n) == '_update_refs']
        if not calls:
            rr.fail(key_of(f, 'no reference pre-evaluation'),
                    '%s no longer calls _update_refs: defined names are not '
                    'resolved to ranges on this load path' % q, file=EXCEL,
                    function=q, line=f.lineno)
            continue
        c = calls[0]
        from ..util import bound_arg as _ba
        first = _ba(ctx, f, c, 0, 'nodes')
        ok = False
        if isinstance(first, ast.Name):
            # the set must be fed with the results of <ref>.add(self.dsp, ...)
            for n in own_nodes(f):
                if isinstance(n, ast.Call) and call_name(n) == 'update' and \
                        norm_src(n.func.value) == first.id and n.args and any(
                        isinstance(x, ast.Call) and call_name(x) == 'add' and
                        x.args and norm_src(x.args[0]).endswith('.dsp')
                        for x in ast.walk(n.args[0])):
                    ok = True
        if ok:
            rr.ok('%s: _update_refs runs on the nodes returned by the '
                  'references\' add()' % q, '%s:%d' % (EXCEL, c.lineno))
        else:
            rr.fail(key_of(f, 'reference pre-evaluation on the wrong nodes'),
                    '%s calls _update_refs(%s, ...): the first argument is not '
                    'the set of nodes returned by each reference\'s add(), so '
                    'the sub-model evaluated lacks the reference functions and '
                    'no defined name is resolved to its range (the other load '
                    'path does)' % (q, norm_src(first) if first is not None
                                    else ''), file=EXCEL, function=q,
                    line=c.lineno)
    # from_dict compiles the cells with the very table _update_refs filled
    f = p.func(EXCEL, 'ExcelModel.from_dict')
    from ..util import bound_arg
    upd = [n for n in own_nodes(f) if isinstance(n, ast.Call)
           and call_name(n) == '_update_refs' and
           bound_arg(ctx, f, n, 1, 'refs') is not None]
    comp = [n for n in own_nodes(f) if isinstance(n, ast.Call)
            and call_name(n) == 'compile' and kwarg(n, 'references') is not None]
    if upd and comp and isinstance(bound_arg(ctx, f, upd[0], 1, 'refs'),
                                   ast.Name):
        table = bound_arg(ctx, f, upd[0], 1, 'refs').id
        from ..util import assigned_value
        for c in comp:
            rr.instances += 1
            x = kwarg(c, 'references')
            vals = [x]
            if isinstance(x, ast.Name) and x.id != table:
                vals = assigned_value(f, x.id) or [x]
            verdict = None
            for v in vals:
                t = norm_src(v)
                if t in (table, 'dict(%s)' % table, '%s.copy()' % table,
                         '{**%s}' % table):
                    verdict = verdict or 'same'
                elif isinstance(v, (ast.DictComp,)) and any(
                        g.ifs for g in v.generators) and table in {
                        n.id for n in ast.walk(v) if isinstance(n, ast.Name)}:
                    verdict = 'filtered'
                elif isinstance(v, ast.DictComp) and table in {
                        n.id for n in ast.walk(v) if isinstance(n, ast.Name)}:
                    verdict = verdict or 'same'
                else:
                    verdict = verdict or 'unknown'
            if verdict == 'same':
                rr.ok('from_dict compiles cells against the complete table '
                      '`%s` that _update_refs resolved' % table,
                      '%s:%d' % (EXCEL, c.lineno))
            elif verdict == 'filtered':
                rr.fail(key_of(f, 'cells compiled against a filtered '
                                  'reference table'),
                        'from_dict compiles the cells with `references=%s`, a '
                        'filtered copy of `%s`: names whose entry was filtered '
                        'out (those _update_refs could not turn into a range) '
                        'are unknown to the formulas that use them and become '
                        '#REF!, while the workbook load path passes the whole '
                        'table' % (norm_src(x), table), file=EXCEL,
                        function=f.qualname, line=c.lineno)
            else:
                raise AnalysisError('from_dict: references=%s is not '
                                    'recognisably the table given to '
                                    '_update_refs' % norm_src(x))
    else:
        raise AnalysisError('from_dict: _update_refs / compile(references=) '
                            'not recognised')
    return rr


def rule_fallback(ctx):
    """from_dict builds a cell and, when the key is not a range (ValueError),
    falls back to a defined name built from the *same* value: both constructors
    must be told the same about how to read that value (whether text that looks
    like a formula is parsed)."""
    rr = RuleResult('C09', 'C09.fallback', 'SIB',
                    'cell and defined-name constructors read the imported '
                    'value the same way', floor=1)
    p = ctx.project
    f = p.func(EXCEL, 'ExcelModel.from_dict')
    cell = p.cls('formulas/cell.py', 'Cell')
    init = cell.methods.get('__init__')
    if init is None:
        raise AnalysisError('Cell.__init__ not found')
    # parameters of Cell.__init__ that decide whether the value is parsed
    deciding = set()
    for n in own_nodes(init):
        if isinstance(n, ast.If) and any(
                isinstance(c, ast.Call) and call_name(c) in ('ast', 'is_formula')
                for c in ast.walk(n.test) if isinstance(c, ast.Call)) or (
                isinstance(n, ast.If) and any(
                    isinstance(c, ast.Call) and call_name(c) == 'ast'
                    for s_ in n.body for c in ast.walk(s_))):
            deciding |= {x.id for x in ast.walk(n.test)
                         if isinstance(x, ast.Name) and x.id in init.params}
    deciding -= set(init.params[:3])  # self, reference, value
    if not deciding:
        raise AnalysisError('Cell.__init__: parameters deciding whether the '
                            'value is parsed were not found')
    family = set(p.subclasses(cell)) | {cell}

    def ctor_kwargs(call):
        """Keyword names a constructor call may pass (through **dict too)."""
        names, maybe = set(), set()
        for k in call.keywords:
            if k.arg is not None:
                names.add(k.arg)
            elif isinstance(k.value, ast.Name):
                for n in own_nodes(f):
                    if isinstance(n, ast.Assign):
                        for t in n.targets:
                            if isinstance(t, ast.Name) and t.id == k.value.id \
                                    and isinstance(n.value, ast.Dict):
                                names |= {kk.value for kk in n.value.keys
                                          if isinstance(kk, ast.Constant)}
                            if isinstance(t, ast.Subscript) and isinstance(
                                    t.value, ast.Name) and t.value.id == \
                                    k.value.id and isinstance(
                                    t.slice, ast.Constant):
                                maybe.add(t.slice.value)
        return names, maybe

    found = 0
    for n in own_nodes(f):
        if not isinstance(n, ast.Try):
            continue
        prim = [c for s_ in n.body for c in ast.walk(s_)
                if isinstance(c, ast.Call) and isinstance(
                    c.func, (ast.Name, ast.Attribute)) and (
                    ctx.cg.resolve_name_expr(f, c.func) or (None,))[0] ==
                'class' and ctx.cg.resolve_name_expr(f, c.func)[1] in family]
        for h in n.handlers:
            fb = [c for s_ in h.body for c in ast.walk(s_)
                  if isinstance(c, ast.Call) and isinstance(
                      c.func, (ast.Name, ast.Attribute)) and (
                      ctx.cg.resolve_name_expr(f, c.func) or (None,))[0] ==
                  'class' and ctx.cg.resolve_name_expr(f, c.func)[1] in family]
            if not (prim and fb):
                continue
            found += 1
            rr.instances += 1
            pn, pm = ctor_kwargs(prim[0])
            fn_, fm = ctor_kwargs(fb[0])
            diff = sorted(((pn | pm) ^ (fn_ | fm)) & deciding)
            if diff:
                rr.fail(key_of(f, 'fallback constructor reads the value '
                                  'differently'),
                        'from_dict tries `%s` and falls back to `%s` with the '
                        'same value, but only one of them can be passed %s '
                        '(which decides whether the value is parsed as a '
                        'formula): a value prepared for one reading is read '
                        'the other way by the fallback - text that looks like '
                        'a formula becomes a formula for defined names' % (
                            norm_src(prim[0])[:50], norm_src(fb[0])[:50],
                            ', '.join(diff)), file=EXCEL,
                        function=f.qualname, line=fb[0].lineno)
            else:
                rr.ok('primary and fallback constructors agree on %s' %
                      ', '.join(sorted(deciding)), '%s:%d' % (
                          EXCEL, fb[0].lineno))
    if not found:
        raise AnalysisError('from_dict: try/except pair of cell constructors '
                            'not found')
    return rr


def _retag(r, prop, rule):
    r.prop, r.rule = prop, rule
    for f in r.findings:
        f.prop, f.rule = prop, rule
    for o in r.obligations:
        o.rule = rule
    return r


def rule_shadow(ctx):
    """A type test that can never succeed: `isinstance(x, S)` reached only
    where `isinstance(x, B)` has already failed, with S a subclass of B.  In
    the encoders of the export this is how a tagged form is lost (HexValue is
    a str: tested after str, its branch is dead and the value is exported as
    plain text)."""
    from ..util import path_conditions, with_helpers
    rr = RuleResult('C09', 'C09.shadow', 'ORD',
                    'no type test of the import/export encoders is shadowed by '
                    'an earlier test for a base class', floor=1)
    p = ctx.project
    roots = [p.func(EXCEL, 'ExcelModel.to_dict'),
             p.func(EXCEL, 'ExcelModel.from_dict')]
    scope = []
    for r in roots:
        for g in with_helpers(ctx, r):
            if g not in scope:
                scope.append(g)

    def classes_of(g, e):
        elts = e.elts if isinstance(e, ast.Tuple) else [e]
        out = []
        for x in elts:
            r_ = ctx.cg.resolve_name_expr(g, x) if isinstance(
                x, (ast.Name, ast.Attribute)) else None
            if r_ and r_[0] == 'class':
                out.append(('pkg', r_[1]))
            elif r_ and r_[0] == 'ext':
                out.append(('ext', r_[1].split('.')[-1]))
            elif isinstance(x, ast.Name):
                out.append(('ext', x.id))     # a builtin
            else:
                out.append(None)
        return out

    def is_sub(c, b):
        if c is None or b is None:
            return False
        if c[0] == 'pkg' and b[0] == 'pkg':
            return b[1] in p.mro(c[1])
        if c[0] == 'pkg' and b[0] == 'ext':
            return b[1] in [str(x).split('.')[-1] for x in p.ext_bases(c[1])]
        if c[0] == 'ext' and b[0] == 'ext':
            return c[1] == b[1] or (c[1], b[1]) == ('bool', 'int')
        return False

    def tests_in(e):
        for n in ast.walk(e):
            if isinstance(n, ast.Call) and isinstance(
                    n.func, ast.Name) and n.func.id == 'isinstance' and len(
                    n.args) == 2 and isinstance(n.args[0], ast.Name):
                yield n

    for g in scope:
        for st in own_nodes(g):
            if not isinstance(st, ast.stmt):
                continue
            heads = [v for k, v in ast.iter_fields(st) if k not in (
                'body', 'orelse', 'finalbody', 'handlers') and isinstance(
                v, ast.AST)]
            mine = [t for h in heads for t in tests_in(h)]
            if not mine:
                continue
            failed = [c for c, pol in path_conditions(g, st) if not pol
                      and isinstance(c, ast.Call) and isinstance(
                c.func, ast.Name) and c.func.id == 'isinstance' and len(
                c.args) == 2 and isinstance(c.args[0], ast.Name)]
            for t in mine:
                rr.instances += 1
                shadow = None
                for c in failed:
                    if c.args[0].id != t.args[0].id:
                        continue
                    for sc in classes_of(g, t.args[1]):
                        if sc is not None and all(
                                any(is_sub(sc, b) for b in classes_of(
                                    g, c.args[1])) for _ in (0,)) and any(
                                is_sub(sc, b)
                                for b in classes_of(g, c.args[1])):
                            shadow = (c, sc)
                if shadow is None:
                    rr.ok('%s: `%s` is reachable' % (g.qualname, norm_src(t)),
                          '%s:%d' % (g.module.rel, t.lineno),
                          nontrivial=bool(failed))
                else:
                    rr.fail(key_of(g, 'type test `%s` shadowed by `%s`' % (
                        norm_src(t), norm_src(shadow[0]))),
                        '%s tests `%s` only where `%s` has already failed; '
                        '%s is a subclass of that class, so the branch is dead '
                        'and values of that type are treated like the base '
                        'type (a HexValue is exported without its tag and '
                        'comes back as plain text)' % (
                            g.qualname, norm_src(t), norm_src(shadow[0]),
                            norm_src(t.args[1])), file=g.module.rel,
                        function=g.qualname, line=t.lineno)
    if not rr.instances:
        raise AnalysisError('C09.shadow: no type test found in the '
                            'import/export code')
    return rr


def run(ctx):
    S = ctx.soft
    from .c01 import rule_render
    from .c04 import rule_quote as c04_quote
    rs = [S(rule_tags, ctx), S(rule_quote, ctx), S(rule_refs, ctx),
          S(rule_shadow, ctx),
          _retag(S(rule_render, ctx), 'C09', 'C09.render'),
          _retag(S(c04_quote, ctx), 'C09', 'C09.ids')]
    from .modelstate import rule_emptied
    rs.append(S(rule_emptied, ctx, 'C09', 'C09.source', ops=('to_dict',)))
    from .common import rule_memo, rule_cachekey
    ck = S(rule_cachekey, ctx, 'C09', 'C09.cachekey', [EXCEL, 'formulas/cell.py'])
    ck.floor = 0
    if not ck.instances:
        ck.instances = 1
        ck.ok('import/export keep no hand-written cache of compiled cells',
              EXCEL, nontrivial=False)
    rs.append(ck)
    rs.append(S(rule_fallback, ctx))
    pr = ctx.project
    rs.append(S(rule_memo, ctx, 'C09', 'C09.memo', [], roots=[
        pr.func(EXCEL, 'ExcelModel.to_dict'),
        pr.func(EXCEL, 'ExcelModel.from_dict')]))
    return rs
