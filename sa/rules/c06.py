"""C06 - reference operators: table wiring, lattice directions, inclusive coordinates (structural clauses)."""
import ast

from ..model import AnalysisError, own_nodes, norm_src
from ..peval import FuncV, Const, is_const
from ..report import RuleResult
from ..util import key_of, src, call_name, kwarg, assign_pairs
from .common import ret_exprs

META = {
    'decides': (
        'C06, structural clauses only: (ops) the formula operators , space : '
        'are the reference wrappers of union, intersection and hull, union '
        'concatenates the operand areas without de-duplication, an empty '
        'result evaluates to #NULL!; (lattice) intersection takes the maximum '
        'of the lower bounds and the minimum of the upper bounds, the hull the '
        'opposite; (inclusive) coordinates are inclusive everywhere: every '
        'size or index range computed from a (lower, upper) pair adds one, '
        'emptiness tests between a lower and an upper bound are non-strict, '
        'and rectangle splitting steps by exactly one; (tuple) the areas of '
        'every reference set that outlives an expression are an immutable '
        'tuple (operators extend them with += / +, which must re-bind, not '
        'write into an operand); (cachefill) the cached value of a '
        'reference set is stored only by the property that computes it and '
        'reset where the areas change - no operator assembles it from the '
        'cached values of its operands; (value) in value extraction the fragments a '
        'partial cover leaves are re-matched against all value blocks '
        '(fix-point loop); (nodup) set difference '
        'removes from each area of the left operand what earlier areas already '
        'contributed (the pieces produced so far join the set it is split '
        'against), or de-duplicates afterwards; (shared) the value-extraction '
        'and operator code of ranges.py never writes into a module-level '
        'object or a memoised result, so the values seen through one reference '
        'cannot leak into another.'
        ' (allvalues) a reference operator hands on every value block of its operands, never a selection by area name.'),
    'not_decided': (
        'Correctness of split/merge/simplify on all rectangle pairs (the '
        'known loss of contained areas in simplify is value-level) and value '
        'extraction.'),
    'trusted_base': ['CPython ast'],
    'assumptions': ['rectangle bounds are named r1/r2 (rows) and n1/n2 '
                    '(columns), as dict keys or locals'],
}

RANGES = 'formulas/ranges.py'
OPS = 'formulas/functions/operators.py'


def rule_ops(ctx):
    rr = RuleResult('C06', 'C06.ops', 'TAB', 'reference operator wiring',
                    floor=5)
    R = ctx.registry
    p = ctx.project
    want = {',': (ast.BitOr, '__or__', 'union'),
            ' ': (ast.BitAnd, '__and__', 'intersection'),
            ':': (ast.Add, '__add__', 'bounding range')}
    Rg = p.cls(RANGES, 'Ranges')
    for key, (op, dunder, what) in want.items():
        reg = R.operators.get(key)
        rr.instances += 1
        if reg is None:
            rr.fail('%s::OPERATORS::missing %r' % (OPS, key),
                    'reference operator %r is not registered' % key, file=OPS,
                    function='OPERATORS', line=1)
            continue
        problems = []
        if reg.chain_names != ['wrap_func']:
            problems.append('chain is %s, expected wrap_func' % reg.chain_names)
        rk = reg.wrap_func_kw.get('ranges')
        if not (is_const(rk) and rk.v is True):
            problems.append('not registered with ranges=True (operands would '
                            'be replaced by their values)')
        core = reg.core
        ok = False
        if core.kind == 'func':
            rets = ret_exprs(core.fi)
            f = core.fi
            ok = len(rets) == 1 and isinstance(rets[0], ast.BinOp) and \
                isinstance(rets[0].op, op) and isinstance(
                rets[0].left, ast.Name) and isinstance(
                rets[0].right, ast.Name) and [rets[0].left.id,
                                              rets[0].right.id] == f.params[:2]
        if not ok:
            problems.append('core is not `x %s y`' % {
                ast.BitOr: '|', ast.BitAnd: '&', ast.Add: '+'}[op])
        if dunder not in Rg.methods:
            problems.append('Ranges.%s is missing' % dunder)
        if problems:
            rr.fail('%s::OPERATORS[%s]::reference operator wiring' % (OPS, key),
                    'operator %r (%s): %s' % (key, what, '; '.join(problems)),
                    file=OPS, function='OPERATORS[%r]' % key, line=reg.lineno)
        else:
            rr.ok('%r is Ranges.%s (%s) on unevaluated references' % (
                key, dunder, what), reg.site)
    # union concatenates self's areas then other's, no dedup, no reordering
    orf = Rg.methods.get('__or__')
    rr.instances += 1
    verdict = None
    if orf is not None:
        E = ctx.effects
        me, you = orf.params[0], orf.params[1]
        for n in own_nodes(orf):
            left = right = None
            if isinstance(n, ast.BinOp) and isinstance(n.op, ast.Add):
                left, right = n.left, n.right
            elif isinstance(n, (ast.Tuple, ast.List)) and len(n.elts) == 2 and \
                    all(isinstance(e, ast.Starred) for e in n.elts):
                # (*a.ranges, *b.ranges)
                left, right = n.elts[0].value, n.elts[1].value
            if isinstance(left, ast.Attribute) and isinstance(
                    right, ast.Attribute) and left.attr == 'ranges' and \
                    right.attr == 'ranges':
                st = E.state_at(orf, n) or {}
                la = E.alias2(orf, left.value, st)[0]
                ra = E.alias2(orf, right.value, st)[0]
                if la == {me} and ra == {you}:
                    verdict = 'ok'
                else:
                    verdict = 'the concatenated operands may be %s then %s' % (
                        sorted(la), sorted(ra))
        dedup = any(isinstance(n, ast.Call) and call_name(n) in (
            'set', 'simplify', 'unique', '_merge') for n in own_nodes(orf))
        if dedup:
            verdict = 'the result is de-duplicated/merged'
    if verdict == 'ok':
        rr.ok('union keeps every operand area in order (self.ranges + '
              'other.ranges, no de-duplication)', RANGES)
    else:
        rr.fail(key_of(orf, 'union not a concatenation') if orf else
                '%s::Ranges::__or__ missing' % RANGES,
                'Ranges.__or__ no longer concatenates the areas of the left '
                'operand followed by those of the right operand (%s): areas '
                'are reordered or overlapping cells are no longer counted once '
                'per area' % (verdict or 'no `a.ranges + b.ranges` found'),
                file=RANGES, function='Ranges.__or__',
                line=orf.lineno if orf else 1)
    # empty -> #NULL!
    val = p.func(RANGES, 'Ranges.value')
    rr.instances += 1
    t = ' '.join(norm_src(n) for n in own_nodes(val) if isinstance(n, ast.Assign))
    if "#NULL!" in t:
        rr.ok('a reference with no area evaluates to #NULL!', RANGES)
    else:
        rr.fail(key_of(val, 'empty reference value'),
                'Ranges.value no longer yields #NULL! for an empty reference '
                '(empty intersection)', file=RANGES, function='Ranges.value',
                line=val.lineno)
    return rr


def _bound_assigns(f):
    """(bound key r1/r2/n1/n2, 'min'/'max', node) for bound computations.

    A bound is recognised by the dict key it is stored under - directly
    (`rng['r1'] = min(...)`) or through a local that the returned/assigned dict
    literal maps to that key (`{'n1': lo, 'r1': str(top)}`)."""
    keys = ('r1', 'r2', 'n1', 'n2')
    var2key = {k: k for k in keys}
    for n in own_nodes(f):
        if isinstance(n, ast.Dict):
            for k, v in zip(n.keys, n.values):
                if isinstance(k, ast.Constant) and k.value in keys:
                    names = [x.id for x in ast.walk(v) if isinstance(x, ast.Name)
                             and x.id not in ('str', 'int')]
                    if len(names) == 1:
                        var2key.setdefault(names[0], k.value)
    out = []
    for n in own_nodes(f):
        if not isinstance(n, ast.Assign):
            continue
        t = n.targets[0]
        if isinstance(t, ast.Tuple) and isinstance(n.value, ast.Tuple):
            pairs = list(zip(t.elts, n.value.elts))
        else:
            pairs = [(t, n.value)]
        for tt, vv in pairs:
            name = None
            if isinstance(tt, ast.Name):
                name = var2key.get(tt.id)
            elif isinstance(tt, ast.Subscript) and isinstance(
                    tt.slice, ast.Constant) and tt.slice.value in keys:
                name = tt.slice.value
            if name and isinstance(vv, ast.Call) and isinstance(
                    vv.func, ast.Name) and vv.func.id in ('min', 'max'):
                out.append((name, vv.func.id, n))
    return out


def rule_lattice(ctx):
    rr = RuleResult('C06', 'C06.lattice', 'TAB',
                    'direction of every bound computation', floor=8)
    p = ctx.project
    specs = [(p.func(RANGES, '_intersect'), {'r1': 'max', 'n1': 'max',
                                             'r2': 'min', 'n2': 'min'},
              'intersection'),
             (p.func(RANGES, 'Ranges.__add__'), {'r1': 'min', 'n1': 'min',
                                                 'r2': 'max', 'n2': 'max'},
              'bounding range')]
    for f, want, what in specs:
        got = {}
        from ..util import with_helpers
        for g in with_helpers(ctx, f):
            for name, fn, node in _bound_assigns(g):
                got.setdefault(name, (fn, node))
        if not got:
            # nothing recognisable at all: the computation was rewritten in a
            # form this rule does not read - undecided, not a violation
            raise AnalysisError('C06.lattice: no min/max bound computation '
                                'found in %s or its private helpers'
                                % f.qualname)
        for name, fn in sorted(want.items()):
            rr.instances += 1
            if name not in got:
                rr.fail(key_of(f, 'bound %s not computed' % name),
                        '%s (%s) does not compute %s with min/max' % (
                            f.qualname, what, name), file=RANGES,
                        function=f.qualname, line=f.lineno)
            elif got[name][0] == fn:
                rr.ok('%s: %s = %s(...)' % (what, name, fn),
                      '%s:%d' % (RANGES, got[name][1].lineno))
            else:
                rr.fail(key_of(f, 'bound %s direction' % name),
                        '%s (%s) computes %s with %s(); it must be %s() (%s '
                        'bound of an %s)' % (
                            f.qualname, what, name, got[name][0], fn,
                            'lower' if name.endswith('1') else 'upper', what),
                        file=RANGES, function=f.qualname,
                        line=got[name][1].lineno)
    return rr


def _mentions(e, suffix):
    """Does expression e mention a bound whose name ends with suffix ('1'/'2')?"""
    for n in ast.walk(e):
        if isinstance(n, ast.Name) and n.id in ('r' + suffix, 'n' + suffix):
            return True
        if isinstance(n, ast.Subscript) and isinstance(n.slice, ast.Constant) \
                and n.slice.value in ('r' + suffix, 'n' + suffix):
            return True
    return False


_NOCONST = object()


def _constval(x):
    if isinstance(x, ast.Constant):
        return x.value
    if isinstance(x, ast.UnaryOp) and isinstance(x.op, ast.USub) and \
            isinstance(x.operand, ast.Constant) and isinstance(
            x.operand.value, (int, float)):
        return -x.operand.value
    return _NOCONST


def _table_rows(f, it):
    """[(constants of the row, field names or None)] of a constant table: a
    tuple/list display of tuples, or of calls of a module-level namedtuple
    class, written in place, bound once in f or at module level."""
    mod, v = f.module, it
    if isinstance(v, ast.Name):
        vals = [n.value for n in own_nodes(f) if isinstance(n, ast.Assign) and
                any(isinstance(t, ast.Name) and t.id == v.id
                    for t in n.targets)] or mod.assigns.get(v.id, [])
        if len(vals) != 1:
            return None
        v = vals[0]
    if not isinstance(v, (ast.Tuple, ast.List)) or not v.elts:
        return None
    rows = []
    for e in v.elts:
        fields = None
        if isinstance(e, (ast.Tuple, ast.List)):
            elts = e.elts
        elif isinstance(e, ast.Call) and isinstance(e.func, ast.Name) and \
                not e.keywords:
            defs = mod.assigns.get(e.func.id, [])
            if len(defs) != 1:
                return None
            d = defs[0]
            if not (isinstance(d, ast.Call) and call_name(d) == 'namedtuple'
                    and len(d.args) >= 2):
                return None
            fa = d.args[1]
            if isinstance(fa, ast.Constant) and isinstance(fa.value, str):
                fields = fa.value.replace(',', ' ').split()
            elif isinstance(fa, (ast.Tuple, ast.List)) and all(
                    isinstance(x, ast.Constant) for x in fa.elts):
                fields = [x.value for x in fa.elts]
            else:
                return None
            elts = e.args
            if len(elts) != len(fields):
                return None
        else:
            return None
        consts = [_constval(x) for x in elts]
        if any(c is _NOCONST for c in consts):
            return None
        rows.append((consts, fields))
    return rows


class _RowSubst(ast.NodeTransformer):
    """One iteration of a loop over a constant table: loop names replaced by
    the row's constants, constant sub-expressions and constant tests folded."""

    def __init__(self, names, rowvar, consts, fields):
        self.names, self.rowvar = names, rowvar
        self.consts, self.fields = consts, fields or []

    @staticmethod
    def _c(v, at):
        return ast.copy_location(ast.Constant(value=v), at)

    def visit_Name(self, n):
        if isinstance(n.ctx, ast.Load) and n.id in self.names:
            return self._c(self.names[n.id], n)
        return n

    def visit_Attribute(self, n):
        if isinstance(n.value, ast.Name) and n.value.id == self.rowvar and \
                n.attr in self.fields:
            return self._c(self.consts[self.fields.index(n.attr)], n)
        self.generic_visit(n)
        return n

    def visit_Subscript(self, n):
        if isinstance(n.value, ast.Name) and n.value.id == self.rowvar and \
                isinstance(n.slice, ast.Constant) and isinstance(
                n.slice.value, int) and -len(self.consts) <= n.slice.value < \
                len(self.consts):
            return self._c(self.consts[n.slice.value], n)
        self.generic_visit(n)
        if isinstance(n.value, ast.Constant) and isinstance(
                n.value.value, str) and isinstance(
                n.slice, ast.Constant) and isinstance(n.slice.value, int):
            try:
                return self._c(n.value.value[n.slice.value], n)
            except IndexError:
                return n
        return n

    def visit_UnaryOp(self, n):
        self.generic_visit(n)
        c = _constval(n.operand)
        if c is not _NOCONST:
            if isinstance(n.op, ast.Not):
                return self._c(not c, n)
            if isinstance(n.op, ast.USub) and isinstance(c, (int, float)):
                return self._c(-c, n)
        return n

    def visit_Compare(self, n):
        self.generic_visit(n)
        if len(n.ops) == 1:
            a, b = _constval(n.left), _constval(n.comparators[0])
            if a is not _NOCONST and b is not _NOCONST:
                op = n.ops[0]
                try:
                    if isinstance(op, ast.Eq):
                        return self._c(a == b, n)
                    if isinstance(op, ast.NotEq):
                        return self._c(a != b, n)
                    if isinstance(op, ast.In):
                        return self._c(a in b, n)
                    if isinstance(op, ast.NotIn):
                        return self._c(a not in b, n)
                    if isinstance(op, ast.Gt):
                        return self._c(a > b, n)
                    if isinstance(op, ast.Lt):
                        return self._c(a < b, n)
                except TypeError:
                    return n
        return n

    def visit_Call(self, n):
        self.generic_visit(n)
        if isinstance(n.func, ast.Attribute) and n.func.attr in (
                'startswith', 'endswith') and len(n.args) == 1 and \
                not n.keywords:
            a, b = _constval(n.func.value), _constval(n.args[0])
            if isinstance(a, str) and isinstance(b, str):
                return self._c(getattr(a, n.func.attr)(b), n)
        return n

    def visit_IfExp(self, n):
        self.generic_visit(n)
        c = _constval(n.test)
        if c is not _NOCONST:
            return n.body if c else n.orelse
        return n

    def visit_BoolOp(self, n):
        self.generic_visit(n)
        # `c and x or y` with c constant is x (when x cannot be false: the
        # rule only reads the arithmetic inside) or y
        vals = list(n.values)
        if isinstance(n.op, ast.And):
            out = []
            for v in vals:
                c = _constval(v)
                if c is _NOCONST:
                    out.append(v)
                elif not c:
                    return self._c(c, n)
            if not out:
                return self._c(True, n)
            if len(out) == 1:
                return out[0]
            n.values = out
            return n
        c0 = _constval(vals[0])
        if c0 is not _NOCONST and not c0 and len(vals) == 2:
            return vals[1]
        if isinstance(vals[0], ast.BinOp) or isinstance(vals[0], ast.Call):
            # `<arithmetic> or y`: the first operand is what is computed
            return n
        return n

    def visit_If(self, n):
        n.test = self.visit(n.test)
        c = _constval(n.test)
        if c is not _NOCONST:
            out = []
            for st in (n.body if c else n.orelse):
                r = self.visit(st)
                out.extend(r if isinstance(r, list) else [r])
            return out or ast.copy_location(ast.Pass(), n)
        self.generic_visit(n)
        return n


def _split_sides(ctx, sp):
    """[(side cut K, bound of the remainder that is set F, step c)] - one per
    row of the table `_split` iterates over, read off the loop body written
    out for that row: the store `r[F] = <Z[K]> - c` (through int()/str())."""
    import copy
    loops = []
    for lp in own_nodes(sp):
        if isinstance(lp, ast.For) and not lp.orelse:
            rows = _table_rows(sp, lp.iter)
            if rows:
                loops.append((lp, rows))
    if len(loops) != 1:
        raise AnalysisError('C06.inclusive: the table of sides that _split '
                            'iterates over was not found')
    lp, rows = loops[0]
    out = []
    for consts, fields in rows:
        names, rowvar = {}, None
        if isinstance(lp.target, ast.Name):
            rowvar = lp.target.id
        elif isinstance(lp.target, (ast.Tuple, ast.List)) and all(
                isinstance(e, ast.Name) for e in lp.target.elts) and len(
                lp.target.elts) == len(consts):
            names = {e.id: c for e, c in zip(lp.target.elts, consts)}
        else:
            raise AnalysisError('C06.inclusive: loop target of _split not '
                                'recognised')
        body = []
        sub = _RowSubst(names, rowvar, consts, fields)
        for st in copy.deepcopy(lp.body):
            r = sub.visit(st)
            body.extend(r if isinstance(r, list) else [r])
        mod_ = ast.Module(body=body, type_ignores=[])
        alias = {}
        for n in ast.walk(mod_):
            if isinstance(n, ast.Assign) and len(n.targets) == 1 and \
                    isinstance(n.targets[0], ast.Name) and isinstance(
                    n.value, ast.Subscript) and isinstance(
                    n.value.slice, ast.Constant):
                alias[n.targets[0].id] = n.value
        found = []
        for n in ast.walk(mod_):
            if not (isinstance(n, ast.Assign) and len(n.targets) == 1 and
                    isinstance(n.targets[0], ast.Subscript) and isinstance(
                        n.targets[0].slice, ast.Constant) and isinstance(
                        n.targets[0].slice.value, str)):
                continue
            for b in ast.walk(n.value):
                if isinstance(b, ast.BinOp) and isinstance(
                        b.op, (ast.Sub, ast.Add)) and isinstance(
                        _constval(b.right), (int, float)) and not isinstance(
                        _constval(b.right), bool):
                    left = b.left
                    while isinstance(left, ast.Call) and isinstance(
                            left.func, ast.Name) and left.func.id in (
                            'int', 'float') and len(left.args) == 1:
                        left = left.args[0]
                    if isinstance(left, ast.Name) and left.id in alias:
                        left = alias[left.id]
                    if isinstance(left, ast.Subscript) and isinstance(
                            left.slice, ast.Constant) and isinstance(
                            left.slice.value, str):
                        c = _constval(b.right)
                        found.append((left.slice.value,
                                      n.targets[0].slice.value,
                                      c if isinstance(b.op, ast.Sub) else -c))
        found = sorted(set(found))
        if len(found) != 1:
            raise AnalysisError(
                'C06.inclusive: where _split applies the step of its table '
                'was not found (row %r: %d candidate stores)' % (
                    tuple(consts), len(found)))
        out.append(found[0])
    return out


def rule_inclusive(ctx):
    rr = RuleResult('C06', 'C06.inclusive', 'SIB',
                    'inclusive coordinates: sizes add one, emptiness tests are '
                    'non-strict, splitting steps by one', floor=8)
    p = ctx.project
    # every module of the package except the function library outside
    # look.py (whose r1/r2 are not range bounds) and the token classes
    scope = [m for m in p.modules.values() if m.rel in (
        RANGES, 'formulas/cell.py', 'formulas/functions/look.py',
        'formulas/builder.py', 'formulas/parser.py') or
        m.rel.startswith('formulas/excel/')]
    for m in scope:
        for f in m.all_funcs:
            parents = {}
            for n in ast.walk(f.node):
                for c in ast.iter_child_nodes(n):
                    parents[id(c)] = n
            for n in own_nodes(f):
                # (a) upper - lower must be followed by + 1
                if isinstance(n, ast.BinOp) and isinstance(n.op, ast.Sub) and \
                        _mentions(n.left, '2') and _mentions(n.right, '1') and \
                        not _mentions(n.left, '1') and not _mentions(n.right, '2'):
                    rr.instances += 1
                    par = parents.get(id(n))
                    ok = isinstance(par, ast.BinOp) and isinstance(
                        par.op, ast.Add) and isinstance(
                        par.right, ast.Constant) and par.right.value == 1
                    if ok:
                        rr.ok('%s: size `%s` adds one' % (
                            f.qualname, norm_src(par)), '%s:%d' % (
                                m.rel, n.lineno))
                    else:
                        rr.fail(key_of(f, 'size without + 1: %s' % norm_src(n)),
                                '%s computes the extent `%s` from inclusive '
                                'bounds without adding one: the last row/'
                                'column is lost (every other site adds 1)' % (
                                    f.qualname, norm_src(n)), file=m.rel,
                                function=f.qualname, line=n.lineno)
                # (b) range()/arange(lower, upper + 1)
                if isinstance(n, ast.Call) and call_name(n) in (
                        'range', 'arange') and len(n.args) == 2 and \
                        _mentions(n.args[0], '1') and _mentions(n.args[1], '2'):
                    rr.instances += 1
                    hi = n.args[1]
                    ok = isinstance(hi, ast.BinOp) and isinstance(
                        hi.op, ast.Add) and isinstance(
                        hi.right, ast.Constant) and hi.right.value == 1
                    if ok:
                        rr.ok('%s: `%s` includes the upper bound' % (
                            f.qualname, norm_src(n)), '%s:%d' % (
                                m.rel, n.lineno))
                    else:
                        rr.fail(key_of(f, 'index range excludes the upper '
                                          'bound: %s' % norm_src(n)),
                                '%s enumerates `%s`: the inclusive upper bound '
                                'is excluded' % (f.qualname, norm_src(n)),
                                file=m.rel, function=f.qualname, line=n.lineno)
                # (c) slices  (i1 - base) : (i2 - base + 1)
                if isinstance(n, ast.Call) and call_name(n) == 'slice' and \
                        len(n.args) == 2 and _mentions(n.args[0], '1') and \
                        _mentions(n.args[1], '2'):
                    rr.instances += 1
                    hi = n.args[1]
                    ok = isinstance(hi, ast.BinOp) and isinstance(
                        hi.op, ast.Add) and isinstance(
                        hi.right, ast.Constant) and hi.right.value == 1
                    if ok:
                        rr.ok('%s: `%s` includes the upper bound' % (
                            f.qualname, norm_src(n)), '%s:%d' % (
                                m.rel, n.lineno))
                    else:
                        rr.fail(key_of(f, 'slice excludes the upper bound: %s'
                                       % norm_src(n)),
                                '%s builds `%s`: the inclusive upper bound is '
                                'excluded' % (f.qualname, norm_src(n)),
                                file=m.rel, function=f.qualname, line=n.lineno)
                # (d) emptiness tests lower <= upper
                if isinstance(n, ast.Compare) and len(n.ops) == 1 and \
                        isinstance(n.left, ast.Name) and isinstance(
                        n.comparators[0], ast.Name):
                    l, r = n.left.id, n.comparators[0].id
                    if (l, r) in (('n1', 'n2'), ('r1', 'r2')):
                        rr.instances += 1
                        if isinstance(n.ops[0], ast.LtE):
                            rr.ok('%s: emptiness test `%s` is non-strict' % (
                                f.qualname, norm_src(n)), '%s:%d' % (
                                    m.rel, n.lineno))
                        else:
                            rr.fail(key_of(f, 'strict emptiness test %s' %
                                           norm_src(n)),
                                    '%s tests `%s`: with inclusive bounds a '
                                    'one-cell overlap (lower == upper) is a '
                                    'non-empty intersection' % (
                                        f.qualname, norm_src(n)), file=m.rel,
                                    function=f.qualname, line=n.lineno)
    # (f) row bounds are kept as strings: ordering them needs int()
    conv_of = {}
    for m in scope:
        for f in m.all_funcs:
            # local dicts whose row entries were converted in place:
            #   X[k] = int(X[k])
            converted = conv_of.setdefault(f.fq, set())
            for n in own_nodes(f):
                if isinstance(n, ast.Assign) and isinstance(
                        n.targets[0], ast.Subscript) and isinstance(
                        n.targets[0].value, ast.Name) and isinstance(
                        n.value, ast.Call) and isinstance(
                        n.value.func, ast.Name) and n.value.func.id == 'int' \
                        and n.value.args and norm_src(n.value.args[0]) == \
                        norm_src(n.targets[0]):
                    converted.add(n.targets[0].value.id)
                # X.update(r1=int(...), r2=int(...)) / X.update({'r1': int(..)})
                if isinstance(n, ast.Call) and isinstance(
                        n.func, ast.Attribute) and n.func.attr == 'update' and \
                        isinstance(n.func.value, ast.Name):
                    def _is_int(v):
                        return isinstance(v, ast.Call) and isinstance(
                            v.func, ast.Name) and v.func.id == 'int'
                    kws = {k.arg: k.value for k in n.keywords if k.arg}
                    for a in n.args:
                        if isinstance(a, ast.Dict):
                            kws.update({k.value: v for k, v in zip(
                                a.keys, a.values) if isinstance(k, ast.Constant)})
                    if {'r1', 'r2'} <= set(kws) and all(
                            _is_int(kws[k]) for k in ('r1', 'r2')):
                        converted.add(n.func.value.id)
                # X = {..., 'r1': int(..), 'r2': int(..)} / dict(r1=int(..), ..)
                if isinstance(n, ast.Assign) and len(n.targets) == 1 and \
                        isinstance(n.targets[0], ast.Name):
                    v = n.value
                    kws = {}
                    if isinstance(v, ast.Dict):
                        kws = {k.value: x for k, x in zip(v.keys, v.values)
                               if isinstance(k, ast.Constant)}
                    elif isinstance(v, ast.Call) and isinstance(
                            v.func, ast.Name) and v.func.id == 'dict':
                        kws = {k.arg: k.value for k in v.keywords if k.arg}
                    if {'r1', 'r2'} <= set(kws) and all(
                            isinstance(kws[k], ast.Call) and isinstance(
                                kws[k].func, ast.Name) and
                            kws[k].func.id == 'int' for k in ('r1', 'r2')):
                        converted.add(n.targets[0].id)
    # a private helper that is always handed such a converted mapping sees
    # integers in its parameter too
    for m in scope:
        for h in m.all_funcs:
            if not (h.name.startswith('_') and not h.name.startswith('__')
                    and h.parent is None):
                continue
            hp = h.params[1:] if h.cls is not None else h.params
            sites = []
            for m2 in scope:
                for f in m2.all_funcs:
                    for n in own_nodes(f):
                        if isinstance(n, ast.Call) and call_name(n) == h.name \
                                and any(not e.is_ext and e.dst is h
                                        for e in ctx.cg._resolve_callee(
                                            f, n.func, n, 'call')):
                            sites.append((f, n))
            for i, prm in enumerate(hp):
                if sites and all(
                        i < len(c.args) and isinstance(c.args[i], ast.Name)
                        and c.args[i].id in conv_of.get(f.fq, ())
                        for f, c in sites):
                    conv_of.setdefault(h.fq, set()).add(prm)
    for m in scope:
        for f in m.all_funcs:
            converted = conv_of.get(f.fq, set())

            def raw_row(e, converted=converted):
                return isinstance(e, ast.Subscript) and isinstance(
                    e.slice, ast.Constant) and e.slice.value in ('r1', 'r2') \
                    and not (isinstance(e.value, ast.Name) and
                             e.value.id in converted)

            for n in own_nodes(f):
                bad = None
                if isinstance(n, ast.Compare) and any(isinstance(
                        o, (ast.Lt, ast.LtE, ast.Gt, ast.GtE)) for o in n.ops):
                    ops = [n.left] + list(n.comparators)
                    for i, o in enumerate(n.ops):
                        if isinstance(o, (ast.Lt, ast.LtE, ast.Gt, ast.GtE)) \
                                and (raw_row(ops[i]) or raw_row(ops[i + 1])):
                            bad = n
                elif isinstance(n, ast.Call) and isinstance(
                        n.func, ast.Name) and n.func.id in ('min', 'max') and \
                        any(raw_row(a) for a in n.args):
                    bad = n
                if isinstance(n, (ast.Compare, ast.Call)) and (
                        bad is not None or any(
                            raw_row(x) for x in ast.walk(n)
                            if isinstance(n, ast.Compare) and any(isinstance(
                                o, (ast.Lt, ast.LtE, ast.Gt, ast.GtE))
                                for o in n.ops))):
                    rr.instances += 1
                    if bad is not None:
                        rr.fail(key_of(f, 'row bounds ordered as text: %s' %
                                       norm_src(bad)[:60]),
                                '%s orders row bounds without int(): `%s`. Row '
                                'bounds (r1/r2) are stored as strings, so "12" '
                                '< "8" - every other site converts with int() '
                                'first' % (f.qualname, norm_src(bad)[:90]),
                                file=m.rel, function=f.qualname, line=n.lineno)
                    else:
                        rr.ok('%s: row bounds converted with int() before '
                              'ordering (`%s`)' % (f.qualname, norm_src(n)[:60]),
                              '%s:%d' % (m.rel, n.lineno))
    # (e) _split steps by +-1 and uses matching sign: the loop over the table
    # of sides is written out row by row (constants substituted, constant
    # tests folded) and each remainder must end one cell outside the overlap
    sp = p.func(RANGES, '_split')
    rr.instances += 1
    sides = _split_sides(ctx, sp)
    want = {'n1': ('n2', 1), 'n2': ('n1', -1), 'r1': ('r2', 1), 'r2': ('r1', -1)}
    bad = [(k, f_, c) for k, f_, c in sides if want.get(k) != (f_, c)]
    missing = sorted(set(want) - {k for k, _f, _c in sides})
    if not bad and not missing:
        rr.ok('_split cuts the remainder at (overlap bound -/+ 1) on each of '
              'the four sides', RANGES)
    else:
        rr.fail(key_of(sp, 'split step'),
                '_split no longer cuts the four remainders exactly one cell '
                'outside the overlap (%s)' % (
                    '; '.join(['side %s: remainder bound %s = overlap %s - (%s)'
                               % (k, f_, k, c) for k, f_, c in bad] +
                              ['side %s not cut' % k for k in missing])),
                file=RANGES, function='_split', line=sp.lineno)
    # merge adjacency: base.r2 + 1 >= rng.r1 ; base.n2 + 1 == rng.n1
    from ..util import path_conditions
    for fn, want, key_ in (
            ('_merge_raw_update', "int({b}['r2']) + 1 >= int({r}['r1'])", 'r2'),
            ('_merge_col_update', "{b}['n2'] + 1 == {r}['n1']", 'n2')):
        # the function is found by what it does - it extends its first
        # parameter's `key_` bound to that of its second - and by name
        # otherwise
        role = []
        for g in p.module(RANGES).all_funcs:
            if g.cls is None and g.parent is None and len(g.params) >= 2 and \
                    any(isinstance(n, ast.Assign) and len(n.targets) == 1 and
                        norm_src(n.targets[0]) == "%s['%s']" % (
                            g.params[0], key_) and norm_src(n.value) ==
                        "%s['%s']" % (g.params[1], key_)
                        for n in own_nodes(g)):
                role.append(g)
        f = role[0] if len(role) == 1 else p.func(RANGES, fn)
        fn = f.name
        rr.instances += 1
        b_, r_ = (f.params + ['base', 'rng'])[:2]
        want = want.format(b=b_, r=r_)
        # the conditions under which the base rectangle is extended
        cmps = []
        for n in own_nodes(f):
            if isinstance(n, ast.Assign) and any(
                    isinstance(t, ast.Subscript) and isinstance(
                        t.value, ast.Name) and t.value.id == b_ and
                    isinstance(t.slice, ast.Constant) and t.slice.value == key_
                    for t in n.targets):
                for t, pol in path_conditions(f, n):
                    conj = t.values if isinstance(t, ast.BoolOp) and \
                        isinstance(t.op, ast.And) and pol else [t]
                    inv = {ast.Lt: ast.GtE, ast.Gt: ast.LtE, ast.LtE: ast.Gt,
                           ast.GtE: ast.Lt}
                    for c in conj:
                        if pol:
                            cmps.append(norm_src(c))
                        elif isinstance(c, ast.Compare) and len(
                                c.ops) == 1 and type(c.ops[0]) in inv:
                            # integers: `not a < b` is `a >= b`
                            import copy as _copy
                            c2 = _copy.copy(c)
                            c2.ops = [inv[type(c.ops[0])]()]
                            cmps.append(norm_src(c2))
        if want in cmps or ('(%s)' % want) in cmps or any(
                c.replace('(', '').replace(')', '') ==
                want.replace('(', '').replace(')', '') for c in cmps):
            rr.ok('%s: adjacency test `%s`' % (fn, want), RANGES)
        else:
            rr.fail(key_of(f, 'adjacency test'),
                    '%s: adjacency of inclusive rectangles is tested with %s; '
                    'expected `%s`' % (fn, cmps, want), file=RANGES,
                    function=fn, line=f.lineno)
    return rr


def _tuple_kind(ctx, f, e, depth=0, seen=()):
    """True if e is a tuple by construction, False if it is another kind of
    sequence by construction, None if unknown ('N': only defined in terms of a
    name already being resolved)."""
    if depth > 6:
        return None

    def comb(ks):
        ks = [k for k in ks if k != 'N']
        if not ks:
            return 'N'
        if any(k is False for k in ks):
            return False
        return True if all(k is True for k in ks) else None

    if isinstance(e, ast.Tuple):
        return True
    if isinstance(e, (ast.List, ast.ListComp, ast.Set, ast.SetComp,
                      ast.GeneratorExp, ast.Dict, ast.DictComp)):
        return False
    if isinstance(e, ast.Call) and isinstance(e.func, ast.Name):
        if e.func.id == 'tuple':
            return True
        if e.func.id in ('list', 'set', 'sorted', 'map', 'filter', 'dict'):
            return False
    if isinstance(e, ast.Call) and isinstance(e.func, (ast.Name,
                                                       ast.Attribute)):
        # a package function: the kind of what it returns
        r_ = ctx.cg.resolve_name_expr(f, e.func)
        if r_ and r_[0] == 'func' and isinstance(r_[1].node, ast.FunctionDef):
            rets = [n.value for n in own_nodes(r_[1]) if isinstance(
                n, ast.Return) and n.value is not None]
            if rets:
                k = comb([_tuple_kind(ctx, r_[1], v, depth + 1, ())
                          for v in rets])
                return None if k == 'N' else k
    if isinstance(e, ast.Attribute) and e.attr == 'ranges':
        return True  # the invariant being established
    if isinstance(e, ast.Subscript) and isinstance(e.slice, ast.Slice):
        return _tuple_kind(ctx, f, e.value, depth + 1, seen)
    if isinstance(e, ast.BinOp) and isinstance(e.op, ast.Add):
        return comb([_tuple_kind(ctx, f, e.left, depth + 1, seen),
                     _tuple_kind(ctx, f, e.right, depth + 1, seen)])
    if isinstance(e, ast.IfExp):
        return comb([_tuple_kind(ctx, f, e.body, depth + 1, seen),
                     _tuple_kind(ctx, f, e.orelse, depth + 1, seen)])
    if isinstance(e, ast.Name):
        if e.id in seen:
            return 'N'
        from .common import _defs_of
        vals = _defs_of(f, e.id)
        if not vals:
            if e.id in f.params:
                # default value of a parameter (`ranges=()`)
                a = f.node.args
                pos = a.posonlyargs + a.args
                i = [x.arg for x in pos].index(e.id) - (len(pos) - len(a.defaults))
                if i >= 0:
                    return _tuple_kind(ctx, f, a.defaults[i], depth + 1, seen)
            return None
        k = comb([_tuple_kind(ctx, f, v, depth + 1, seen + (e.id,))
                  for v in vals])
        return None if k == 'N' else k
    return None


def rule_tuple(ctx):
    """`Ranges.ranges` is a tuple: `__sub__`, `push` and `__add__` extend it
    with `+=` / `+`, which re-binds a tuple but would write into a list that
    the other operand still holds."""
    rr = RuleResult('C06', 'C06.tuple', 'KIND',
                    'the areas of a reference set are an immutable tuple',
                    floor=5)
    p = ctx.project
    R = p.cls(RANGES, 'Ranges')
    for f in sorted(p.functions.values(), key=lambda f: f.fq):
        sites = []
        for n in own_nodes(f):
            if isinstance(n, ast.Call) and isinstance(
                    n.func, (ast.Name, ast.Attribute)):
                r = ctx.cg.resolve_name_expr(f, n.func)
                if r and r[0] == 'class' and r[1] is R:
                    a = n.args[0] if n.args else kwarg(n, 'ranges')
                    if a is not None:
                        sites.append((n, a, 'Ranges(...)'))
            if isinstance(n, (ast.Assign, ast.AugAssign)) and f.cls is R:
                tg = n.targets if isinstance(n, ast.Assign) else [n.target]
                for t in tg:
                    if isinstance(t, ast.Attribute) and t.attr == 'ranges' and \
                            isinstance(t.value, ast.Name) and f.params and \
                            t.value.id == f.params[0]:
                        if f.name == '__init__' and isinstance(
                                n.value, ast.Name) and n.value.id in f.params:
                            continue  # the constructor argument: call sites
                        sites.append((n, n.value, 'self.ranges'))
        # parents, to see whether a constructed object is consumed at once
        parents = {}
        for x in ast.walk(f.node):
            for c in ast.iter_child_nodes(x):
                parents[id(c)] = x
        for n, a, what in sites:
            rr.instances += 1
            k = _tuple_kind(ctx, f, a)
            par = parents.get(id(n))
            transient = what == 'Ranges(...)' and isinstance(
                par, ast.Attribute) and par.value is n
            if k is True:
                rr.ok('%s: %s receives a tuple (`%s`)' % (
                    f.qualname, what, norm_src(a)[:50]),
                    '%s:%d' % (f.module.rel, n.lineno))
            elif k is False and not transient:
                rr.fail(key_of(f, 'areas stored as a mutable sequence'),
                        '%s builds a reference set whose areas are `%s`, a '
                        'mutable sequence. Ranges.__sub__ and push extend the '
                        'areas of an operand with `+=`: on a list that writes '
                        'into the operand itself, so `X - Y` changes Y and '
                        'returns the wrong areas' % (
                            f.qualname, norm_src(a)[:60]),
                        file=f.module.rel, function=f.qualname, line=n.lineno)
            elif transient:
                rr.ok('%s: a temporary Ranges over `%s` is consumed at once by '
                      '.%s()' % (f.qualname, norm_src(a)[:40], par.attr),
                      '%s:%d' % (f.module.rel, n.lineno), nontrivial=False)
            else:
                raise AnalysisError('%s: cannot tell whether `%s` is a tuple' %
                                    (f.qualname, norm_src(a)[:60]))
    return rr


def rule_cachefill(ctx):
    """`Ranges._value` caches what the `value` property computes from the
    areas and value blocks.  It is written only there, and reset to sh.NONE
    where the areas change: anything else that fills it (an operator
    assembling the value of its result from the cached values of its
    operands) by-passes the one place that knows how a value is put
    together - areas that overlap, are empty or were never read."""
    rr = RuleResult('C06', 'C06.cachefill', 'WHO',
                    'the cached value of a reference set is filled only by '
                    'the property that computes it', floor=2)
    p = ctx.project
    R = p.cls(RANGES, 'Ranges')
    owner = [m for m in R.methods.values() if m.name == 'value' or (
        m.name in ('_sweep_values',))]
    # the computing function(s): the `value` property and its private helpers
    from ..util import with_helpers
    allowed = set()
    for m in R.methods.values():
        if m.name == 'value':
            for g in with_helpers(ctx, m):
                allowed.add(g.fq)
    if not allowed:
        raise AnalysisError('C06.cachefill: Ranges.value not found')
    for f in sorted(p.functions.values(), key=lambda f: f.fq):
        for n in own_nodes(f):
            tg = []
            if isinstance(n, ast.Assign):
                tg = n.targets
            elif isinstance(n, (ast.AugAssign, ast.AnnAssign)):
                tg = [n.target]
            for t in tg:
                if not (isinstance(t, ast.Attribute) and t.attr == '_value'):
                    continue
                rr.instances += 1
                val = getattr(n, 'value', None)
                reset = val is not None and isinstance(
                    val, (ast.Name, ast.Attribute)) and \
                    ctx.cg.resolve_name_expr(f, val) == ('ext', 'schedula.NONE')
                if reset:
                    rr.ok('%s resets the cached value' % f.qualname,
                          '%s:%d' % (f.module.rel, n.lineno))
                elif f.fq in allowed:
                    rr.ok('%s (the computing property) stores the value it '
                          'computed' % f.qualname,
                          '%s:%d' % (f.module.rel, n.lineno))
                else:
                    rr.fail(key_of(f, 'fills the cached value of a reference '
                                      'set'),
                            '%s stores `%s` into `%s`: the cached value of a '
                            'reference set is filled outside Ranges.value, so '
                            'what a later read returns depends on whether - '
                            'and in which state - the operands had been read '
                            'before' % (f.qualname, norm_src(val)[:50]
                                        if val is not None else '?',
                                        norm_src(t)),
                            file=f.module.rel, function=f.qualname,
                            line=n.lineno)
    return rr


def rule_value(ctx):
    """Value extraction: an area that one value block covers only in part is
    split, and the remaining fragments have to be matched against *every* value
    block again (another block may cover them) - the matching loop sits in a
    loop that repeats while fragments are left."""
    rr = RuleResult('C06', 'C06.value', 'LOOP',
                    'fragments left by a partial cover are re-matched against '
                    'all value blocks', floor=1)
    p = ctx.project
    f = p.func(RANGES, 'Ranges.value')
    # the selection loop may live in a private helper of the property
    from ..util import with_helpers
    for g_ in with_helpers(ctx, f):
        if any(isinstance(n, ast.Call) and call_name(n) == '_split'
               for n in own_nodes(g_)):
            f = g_
            break
    rr.instances += 1
    parents = {}
    for x in ast.walk(f.node):
        for c in ast.iter_child_nodes(x):
            parents[id(c)] = x
    splits = [n for n in own_nodes(f) if isinstance(n, ast.Call)
              and call_name(n) == '_split']
    if not splits:
        raise AnalysisError('Ranges.value: no _split call')
    sp = splits[0]
    # the work-list: the list whose top is split and that receives the pieces
    work = None
    for n in own_nodes(f):
        if isinstance(n, ast.Call) and call_name(n) in ('extend', 'append') \
                and isinstance(n.func.value, ast.Name):
            src_names = {x.id for a in n.args for x in ast.walk(a)
                         if isinstance(x, ast.Name)}
            for t, v, _st in assign_pairs(f):
                if isinstance(t, ast.Name) and t.id in src_names and any(
                        c is sp for c in ast.walk(v)):
                    work = n.func.value.id
    if work is None:
        raise AnalysisError('Ranges.value: the list that receives the pieces '
                            'of _split was not found')
    # innermost loop over the value blocks around the split
    cur, inner_for, fix = parents.get(id(sp)), None, None
    while cur is not None and cur is not f.node:
        if isinstance(cur, ast.For) and inner_for is None:
            inner_for = cur
        elif isinstance(cur, ast.While) and inner_for is not None:
            t = cur.test
            if (isinstance(t, ast.Constant) and t.value) or any(
                    isinstance(x, ast.Name) and x.id == work
                    for x in ast.walk(t)):
                fix = cur
                break
        cur = parents.get(id(cur))
    if inner_for is None:
        raise AnalysisError('Ranges.value: _split is not inside a loop over '
                            'the value blocks')
    f0 = p.func(RANGES, 'Ranges.value')
    if fix is None and f is not f0:
        # the scan lives in a helper: the repetition may be the caller's
        # `while` around (or testing) the call of that helper, with the list
        # of fragments handed over as an argument
        prm = f.params[1:] if f.cls is not None else f.params
        for w_ in own_nodes(f0):
            if not isinstance(w_, ast.While):
                continue
            for c in ast.walk(w_):
                if isinstance(c, ast.Call) and call_name(c) == f.name and \
                        work in prm and prm.index(work) < len(c.args):
                    a = c.args[prm.index(work)]
                    if isinstance(a, ast.Name) and any(
                            isinstance(x, ast.Name) and x.id == a.id
                            for x in ast.walk(w_.test)) or (
                            isinstance(w_.test, ast.Constant) and
                            w_.test.value):
                        fix = w_
    if fix is not None:
        rr.ok('the loop over the value blocks is repeated while `%s` still '
              'holds fragments (line %d)' % (work, fix.lineno),
              '%s:%d' % (RANGES, inner_for.lineno))
    else:
        rr.fail(key_of(f, 'fragments matched against later value blocks only'),
                'Ranges.value pushes the fragments of a partly covered area '
                'onto `%s` inside `for %s in %s`, and no enclosing loop '
                'repeats that scan while fragments are left: a fragment is '
                'only compared with the value blocks that come later in the '
                'iteration (and only while it is on top), so cells of '
                'overlapping or nested areas are silently missing from the '
                'value' % (work, norm_src(inner_for.target),
                           norm_src(inner_for.iter)[:40]),
                file=RANGES, function=f.qualname, line=inner_for.lineno)
    return rr


def rule_nodup(ctx):
    rr = RuleResult('C06', 'C06.nodup', 'DEP',
                    'set difference does not repeat cells that overlapping '
                    'areas of the left operand share', floor=1)
    p = ctx.project
    f = p.func(RANGES, 'Ranges.__sub__')
    selfn = f.params[0]
    rr.instances += 1
    outer = [n for n in f.node.body if isinstance(n, ast.For) and any(
        isinstance(x, ast.Name) and x.id == selfn for x in ast.walk(n.iter))]
    if len(outer) != 1:
        raise AnalysisError('Ranges.__sub__: loop over the areas of the left '
                            'operand not recognised')
    lp = outer[0]
    splits = [c for c in ast.walk(lp) if isinstance(c, ast.Call) and
              call_name(c) == '_split' and c.args]
    # ... or a private helper that does the splitting: the rectangles it
    # splits against are one of its parameters, i.e. an argument here
    from ..util import with_helpers, bound_arg
    via = []  # (call in the loop, expression the subtrahends are drawn from)
    if not splits:
        helpers = {h.name: h for h in with_helpers(ctx, f)[1:]}
        for c in ast.walk(lp):
            h = helpers.get(call_name(c)) if isinstance(c, ast.Call) else None
            if h is None:
                continue
            for c2 in own_nodes(h):
                if not (isinstance(c2, ast.Call) and call_name(c2) == '_split'
                        and c2.args and isinstance(c2.args[0], ast.Name)):
                    continue
                it_ = None
                for n in own_nodes(h):
                    if isinstance(n, (ast.For, ast.comprehension)) and any(
                            isinstance(x, ast.Name) and x.id == c2.args[0].id
                            for x in ast.walk(n.target)):
                        it_ = n.iter
                hp = h.params[1:] if (h.cls is not None and h.params and
                                      h.params[0] in ('self', 'cls')) else h.params
                if isinstance(it_, ast.Name) and it_.id in hp:
                    a = bound_arg(ctx, f, c, hp.index(it_.id), it_.id)
                    if a is not None:
                        via.append((c, a))
                        continue
                raise AnalysisError('Ranges.__sub__: the helper %s splits '
                                    'against something that is not one of its '
                                    'parameters' % h.name)
        splits = [c for c, _a in via]
    if not splits:
        raise AnalysisError('Ranges.__sub__: no _split call in the loop')
    # names derived from the split results inside the loop
    derived = set()
    changed = True
    while changed:
        changed = False
        for n in ast.walk(lp):
            val, tgts = None, []
            if isinstance(n, ast.Assign):
                val, tgts = n.value, n.targets
            elif isinstance(n, ast.AugAssign):
                val, tgts = n.value, [n.target]
            elif isinstance(n, ast.Expr) and isinstance(n.value, ast.Call) and \
                    call_name(n.value) in ('extend', 'append', 'update', 'add') \
                    and isinstance(n.value.func, ast.Attribute):
                val, tgts = n.value, [n.value.func.value]
            if val is None:
                continue
            dep = any(c in splits for c in ast.walk(val)) or any(
                isinstance(x, ast.Name) and x.id in derived
                for x in ast.walk(val))
            if dep:
                for t in tgts:
                    for x in ast.walk(t):
                        if isinstance(x, ast.Name) and x.id not in derived:
                            derived.add(x.id)
                            changed = True
    # the collections the subtrahend rectangle `b` of _split(b, r) is drawn from
    against = [a for _c, a in via]
    for c in ([] if via else splits):
        b = c.args[0]
        if not isinstance(b, ast.Name):
            raise AnalysisError('Ranges.__sub__: first argument of _split is '
                                'not a loop variable')
        src_it = None
        for n in ast.walk(lp):
            if isinstance(n, (ast.For, ast.comprehension)) and any(
                    isinstance(x, ast.Name) and x.id == b.id
                    for x in ast.walk(n.target)):
                src_it = n.iter
        if src_it is None:
            raise AnalysisError('Ranges.__sub__: origin of `%s` not found' % b.id)
        against.append(src_it)
    carried = all(any(isinstance(x, ast.Name) and x.id in derived
                      for x in ast.walk(it)) for it in against)
    dedup = any(isinstance(c, ast.Call) and call_name(c) in (
        'simplify', '_merge') for c in ast.walk(f.node))
    if carried:
        rr.ok('each area of the left operand is split against the right '
              'operand *and* the pieces already produced (`%s` grows inside '
              'the loop)' % ', '.join(sorted({norm_src(i) for i in against})),
              '%s:%d' % (RANGES, lp.lineno))
    elif dedup:
        rr.ok('the result is de-duplicated by simplify()/_merge()',
              '%s:%d' % (RANGES, f.lineno))
    else:
        rr.fail(key_of(f, 'pieces not split against earlier pieces'),
                'Ranges.__sub__ splits every area of the left operand only '
                'against `%s`, which does not grow with the pieces already '
                'produced, and nothing de-duplicates the result: when areas '
                'of the left operand overlap (a union keeps overlaps), the '
                'shared cells appear twice in the difference' % ', '.join(
                    sorted({norm_src(i) for i in against})),
                file=RANGES, function=f.qualname, line=lp.lineno)
    return rr


def rule_allvalues(ctx):
    rr = RuleResult('C06', 'C06.allvalues', 'DEP',
                    'a reference operator hands on every value block of its '
                    'operands, not a selection by area name', floor=3)
    from ..util import with_helpers
    p = ctx.project
    rc = p.cls(RANGES, 'Ranges')
    for name in ('__add__', '__or__', '__and__', '__sub__'):
        f = rc.methods.get(name)
        if f is None:
            continue
        fs = with_helpers(ctx, f)
        if not any(isinstance(n, ast.Attribute) and n.attr == 'values'
                   for g in fs for n in own_nodes(g)):
            continue
        rr.instances += 1
        sel = None
        for g in fs:
            for n in own_nodes(g):
                # selector(keys, mapping) / {k: m[k] for k in names if k in m}
                # applied to the operands' value blocks
                if isinstance(n, ast.Call) and call_name(n) == 'selector' and \
                        len(n.args) >= 2 and any(
                        isinstance(x, ast.Attribute) and x.attr == 'values'
                        for a in n.args[1:] for x in ast.walk(a)):
                    sel = (g, n)
                elif isinstance(n, ast.DictComp) and n.generators and any(
                        isinstance(x, ast.Attribute) and x.attr == 'ranges'
                        for x in ast.walk(n.generators[0].iter)) and any(
                        isinstance(x, ast.Attribute) and x.attr == 'values'
                        for x in ast.walk(n.value)):
                    sel = (g, n)
                elif isinstance(n, ast.DictComp) and any(
                        g_.ifs for g_ in n.generators) and any(
                        isinstance(x, ast.Attribute) and x.attr == 'values'
                        for g_ in n.generators for x in ast.walk(g_.iter)):
                    # {k: v for k, v in <all blocks>.items() if k in names}
                    sel = (g, n)
        if sel is not None:
            g, n = sel
            rr.fail(key_of(f, 'value blocks selected by area name'),
                    'Ranges.%s keeps only the value blocks stored under the '
                    'names of its operands\' areas (`%s`): the blocks of areas '
                    'produced by an intersection, a difference or simplify() '
                    'are stored under the names of the areas they came from, '
                    'so their cells come out blank' % (
                        name, norm_src(n)[:80]), file=g.module.rel,
                    function=g.qualname, line=n.lineno)
        else:
            rr.ok('Ranges.%s passes on all value blocks of both operands'
                  % name, '%s:%d' % (RANGES, f.lineno))
    return rr


def run(ctx):
    S = ctx.soft
    from .c17 import rule_global
    shared = S(rule_global, ctx, 'C06', 'C06.shared', floor=8,
                         only=lambda f: f.module.rel == RANGES)
    return [S(rule_ops, ctx), S(rule_lattice, ctx), S(rule_inclusive, ctx),
            S(rule_nodup, ctx), S(rule_tuple, ctx), S(rule_value, ctx), shared,
            S(rule_cachefill, ctx), S(rule_allvalues, ctx)]
