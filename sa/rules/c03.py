"""C03 - order independence of model building and positional wiring (structural clauses)."""
import ast

from ..model import AnalysisError, own_nodes, norm_src
from ..report import RuleResult
from ..util import key_of, src, call_name, kwarg
from .c10 import rule_ord

META = {
    'decides': (
        'C03, two clauses only: (ord) in the model-building modules no choice '
        'made from a hash-ordered collection (set iteration with an early '
        'exit, first-element selection) escapes - so results cannot depend on '
        'PYTHONHASHSEED through such a choice; (pair) wherever values are '
        'paired with node ids by position, producer and consumer take the '
        'order from the same ordered attribute (never a set, a sorted copy or '
        'a reversed view): Cell.add/_args, RangesAssembler.add/__call__, the '
        'inverse assembler\'s outputs, and the compiled formula\'s input '
        'mapping; (snapshot) a local copy of the derived `references` property '
        'is never used after a call that can load a workbook without being '
        're-read, so the names a cell is compiled with do not depend on the '
        'order in which the work-list met the workbooks; (refs) both load '
        'paths (workbook and dictionary) resolve defined names on the nodes '
        'their references added and compile the cells against that complete '
        'table; (bounds) every comparison between row bounds is made on '
        'numbers, not on the digit strings the parts carry, and sizes/index '
        'ranges are inclusive - the tests that decide which cells a range is '
        'wired to.'
        ' (extlink) the table behind [n]Sheet!A1 is keyed by the 1-based position in the complete list of external links; (cachekey) a per-run cache in the loader is keyed by everything the cached value is computed from.'),
    'not_decided': (
        'That each formula cell holds the value of its formula (the fixed '
        'point), range/blank wiring and equality of the two load paths.'),
    'trusted_base': ['CPython ast', 'schedula passes inputs to a node function '
                     'in the order of the registered `inputs` list and maps '
                     'returned values to `outputs` by position'],
    'assumptions': ['dict/OrderedDict preserve insertion order (Python >= 3.7)'],
}

CELL = 'formulas/cell.py'
ORDER_BREAKERS = ('sorted', 'set', 'frozenset', 'reversed')


def _order_view(e, attr_texts):
    """True if e is an order-preserving view of one of attr_texts.

    Allowed wrappers: .values()/.keys()/.items(), list(), tuple(), `x or None`.
    """
    t = norm_src(e)
    while True:
        if isinstance(e, ast.BoolOp) and isinstance(e.op, ast.Or):
            e = e.values[0]
        elif isinstance(e, ast.Call) and isinstance(e.func, ast.Attribute) and \
                e.func.attr in ('values', 'keys', 'items') and not e.args:
            e = e.func.value
        elif isinstance(e, ast.Call) and isinstance(e.func, ast.Name) and \
                e.func.id in ('list', 'tuple', 'iter') and len(e.args) == 1:
            e = e.args[0]
        else:
            break
    return norm_src(e) in attr_texts, norm_src(e)


def _find_call(f, name, pred=None):
    return [n for n in own_nodes(f) if isinstance(n, ast.Call)
            and call_name(n) == name and (pred is None or pred(n))]


def _local_alias(f, name):
    """If `name` is a local assigned once from an attribute expression, its text."""
    vals = [n.value for n in own_nodes(f) if isinstance(n, ast.Assign) and any(
        isinstance(t, ast.Name) and t.id == name for t in n.targets)]
    if len(vals) == 1:
        return norm_src(vals[0])
    return None


def _filtered_pass(f, attr_texts):
    """True if f takes a *filtered* pass over an order view of one of the
    attributes (a comprehension with a condition, or filter()) - results built
    from such a pass plus another one come out in a different order than a
    single pass gives."""
    aliases = set(attr_texts)
    for n in own_nodes(f):
        if isinstance(n, ast.Assign) and len(n.targets) == 1 and isinstance(
                n.targets[0], ast.Name) and _order_view(n.value, attr_texts)[0]:
            aliases.add(n.targets[0].id)
    for n in own_nodes(f):
        if isinstance(n, (ast.ListComp, ast.GeneratorExp, ast.SetComp)):
            for g in n.generators:
                if g.ifs and (_order_view(g.iter, aliases)[0] or
                              norm_src(g.iter) in aliases):
                    return True
        if isinstance(n, ast.Call) and isinstance(n.func, ast.Name) and \
                n.func.id == 'filter' and len(n.args) == 2 and (
                _order_view(n.args[1], aliases)[0] or
                norm_src(n.args[1]) in aliases):
            return True
    return False


def rule_pair(ctx):
    rr = RuleResult('C03', 'C03.pair', 'SIB',
                    'positional protocols use one ordered source on both sides',
                    floor=4)
    p = ctx.project
    from ..util import with_helpers

    def _find_call(f, name, pred=None):  # noqa - shadows the module helper
        out = []
        for g_ in with_helpers(ctx, f):
            out += [n for n in own_nodes(g_) if isinstance(n, ast.Call)
                    and call_name(n) == name and (pred is None or pred(n))]
        return out

    KNOWN_ATTRS = {'self.inputs', 'self.outputs', 'self.assembler.outputs',
                   'self.assembler.inputs', 'self.func.inputs',
                   'self.func.outputs'}

    def wrong_view(exprs, expected, scope=None):
        """True if one of the expressions is *recognisably* another order: a
        sorted/set/reversed view, or a view of a different ordered attribute.
        An expression the rule cannot follow is not evidence of a defect."""
        for e in exprs:
            if isinstance(e, ast.BoolOp) and isinstance(e.op, ast.Or):
                e = e.values[0]   # `inputs or None`
            t = norm_src(e)
            if isinstance(e, ast.Name) and scope is not None:
                # a local named once from an expression stands for it
                al = _local_alias(scope, e.id)
                if al:
                    t = al
                    try:
                        e = ast.parse(al, mode='eval').body
                    except SyntaxError:
                        pass
            if any(('%s(' % b) in t for b in ORDER_BREAKERS) or '[::-1]' in t:
                return True
            ok_, base_ = _order_view(e, expected)
            if not ok_ and base_ in KNOWN_ATTRS:
                return True
        return False

    def undecided(what):
        raise AnalysisError('C03.pair: %s - the positional protocol could not '
                            'be followed through this rewrite' % what)

    # (a) Cell.add registers self.func with self.inputs ; Cell._args zips self.inputs.values()
    add = p.func(CELL, 'Cell.add')
    args = p.func(CELL, 'Cell._args')
    rr.instances += 1
    calls = [c for c in _find_call(add, 'add_function')
             if any('self.func' == norm_src(a) for a in c.args)]
    if len(calls) != 1:
        raise AnalysisError('Cell.add: registration of self.func not found')
    inp = calls[0].args[2] if len(calls[0].args) > 2 else kwarg(calls[0], 'inputs')
    texts = {'self.inputs'}
    ok, base = _order_view(inp, texts)
    if not ok:
        al = _local_alias(add, base)
        ok = al in texts
    zips = [z for z in _find_call(args, 'zip')]
    zok = any(_order_view(a, texts)[0] for z in zips for a in z.args)
    if ok and zok:
        rr.ok('Cell.add registers the cell function with `self.inputs` and '
              'Cell._args zips the arguments against `self.inputs.values()`',
              '%s:%d' % (CELL, calls[0].lineno))
    elif not wrong_view([inp], texts, add) and not wrong_view(
            [a for z in zips for a in z.args], texts, args):
        undecided('Cell.add / Cell._args')
    else:
        rr.fail(key_of(add if not ok else args, 'cell inputs order'),
                'the cell function is registered with inputs `%s` but _args '
                'pairs arguments with %s: argument values are wired to the '
                'wrong references whenever the two orders differ' % (
                    norm_src(inp), [norm_src(a) for z in zips for a in z.args]),
                file=CELL, function='Cell.add/_args', line=calls[0].lineno)
    # self.inputs is an ordered mapping
    upd = p.func(CELL, 'Cell.update_inputs')
    rr.instances += 1
    ctor = [norm_src(n.value) for n in own_nodes(upd) if isinstance(n, ast.Assign)
            and any('self.inputs' in norm_src(t) for t in n.targets)]
    if ctor and all(('OrderedDict' in c or c in ('{}', 'dict()')) for c in ctor):
        rr.ok('Cell.inputs is an insertion-ordered mapping (%s)' % ctor[0], CELL)
    else:
        rr.fail(key_of(upd, 'inputs container'),
                'Cell.inputs is built as `%s`, not an ordered mapping' % ctor,
                file=CELL, function=upd.qualname, line=upd.lineno)
    # iteration of update_inputs / _args over self.func.inputs
    rr.instances += 1
    it1 = [norm_src(n.iter) for n in own_nodes(upd) if isinstance(n, ast.For)]
    it2 = [norm_src(g.iter) for n in own_nodes(args) if isinstance(
        n, ast.DictComp) for g in n.generators]
    it2 += [norm_src(n.iter) for n in own_nodes(args) if isinstance(n, ast.For)]
    it1 += [norm_src(g.iter) for n in own_nodes(upd) if isinstance(
        n, (ast.DictComp, ast.ListComp, ast.GeneratorExp))
        for g in n.generators]
    if any(i == 'self.func.inputs.items()' for i in it1) and any(
            i == 'self.func.inputs.items()' for i in it2):
        rr.ok('update_inputs and _args both iterate self.func.inputs.items() '
              '(the compiled formula\'s own ordered mapping)', CELL)
    elif not wrong_view(
            [ast.parse(i, mode='eval').body for i in it1 + it2
             if 'func.inputs' in i], {'self.func.inputs'}):
        undecided('Cell.update_inputs / Cell._args iteration')
    else:
        rr.fail(key_of(upd, 'formula inputs iteration'),
                'update_inputs iterates %s and _args %s: both must walk '
                'self.func.inputs in its own order' % (it1, it2), file=CELL,
                function='Cell.update_inputs/_args', line=upd.lineno)
    # (b) RangesAssembler.add / __call__
    ra_add = p.func(CELL, 'RangesAssembler.add')
    ra_call = p.func(CELL, 'RangesAssembler.__call__')
    rr.instances += 1
    calls = [c for c in _find_call(ra_add, 'add_function')
             if len(c.args) > 1 and norm_src(c.args[1]) == 'self']
    if len(calls) != 1:
        raise AnalysisError('RangesAssembler.add: registration of self not found')
    ok, base = _order_view(calls[0].args[2], {'self.inputs'})
    zips = _find_call(ra_call, 'zip')
    zok = any(_order_view(a, {'self.inputs'})[0] for z in zips for a in z.args)
    if ok and zok:
        rr.ok('RangesAssembler registers `self.inputs` and __call__ zips the '
              'cells against `self.inputs.values()`', '%s:%d' % (
                  CELL, calls[0].lineno))
    elif not wrong_view([calls[0].args[2]] + [a for z in zips for a in z.args],
                        {'self.inputs'}):
        undecided('RangesAssembler.add / __call__')
    else:
        rr.fail(key_of(ra_add if not ok else ra_call, 'assembler inputs order'),
                'RangesAssembler is registered with inputs `%s` but __call__ '
                'pairs cells with %s' % (norm_src(calls[0].args[2]), [
                    norm_src(a) for z in zips for a in z.args]), file=CELL,
                function='RangesAssembler', line=calls[0].lineno)
    init = p.func(CELL, 'RangesAssembler.__init__')
    rr.instances += 1
    ctors = {norm_src(t): norm_src(n.value) for n in own_nodes(init)
             if isinstance(n, ast.Assign) for t in n.targets}
    if all('OrderedDict' in ctors.get(k, '') for k in ('self.inputs',
                                                        'self.outputs')):
        rr.ok('RangesAssembler.inputs/outputs are OrderedDicts', CELL)
    else:
        rr.fail(key_of(init, 'assembler containers'),
                'RangesAssembler.inputs/outputs are %s / %s, not ordered '
                'mappings' % (ctors.get('self.inputs'), ctors.get('self.outputs')),
                file=CELL, function=init.qualname, line=init.lineno)
    # (c) inverse assembler outputs
    inv_call = p.func(CELL, 'InvRangesAssembler.__call__')
    rr.instances += 1
    calls = [c for c in _find_call(ra_add, 'add_function')
             if len(c.args) > 1 and 'InvRangesAssembler' in norm_src(c.args[1])]
    if len(calls) != 1:
        raise AnalysisError('registration of InvRangesAssembler not found')
    ok, base = _order_view(calls[0].args[3], {'self.outputs'})
    loops = [n for n in own_nodes(inv_call) if isinstance(n, ast.For)]
    lok = any(_order_view(l.iter, {'self.assembler.outputs'})[0] for l in loops)
    rets = [n for n in own_nodes(inv_call) if isinstance(n, ast.Return)]
    resname = norm_src(rets[-1].value) if rets and rets[-1].value is not None \
        else None
    appends = any(isinstance(n, ast.Call) and call_name(n) == 'append' and
                  norm_src(n.func.value) == resname
                  for l in loops if _order_view(
                      l.iter, {'self.assembler.outputs'})[0]
                  for n in ast.walk(l))
    if ok and lok and appends and rets:
        rr.ok('the inverse assembler is registered with outputs '
              '`self.outputs` and emits one result per '
              '`assembler.outputs.values()` in that order', '%s:%d' % (
                  CELL, calls[0].lineno))
    elif not wrong_view([calls[0].args[3]] + [l.iter for l in loops],
                        {'self.outputs', 'self.assembler.outputs'}) and \
            not _filtered_pass(inv_call, {'self.assembler.outputs'}):
        undecided('InvRangesAssembler registration / __call__')
    else:
        rr.fail(key_of(inv_call if ok else ra_add, 'inverse outputs order'),
                'the inverse assembler is registered with outputs `%s` but its '
                'results are produced over %s' % (
                    norm_src(calls[0].args[3]), [norm_src(l.iter) for l in loops]),
                file=CELL, function='InvRangesAssembler', line=calls[0].lineno)
    # (d) compiled formula: ordered mapping passed unchanged
    comp = p.func('formulas/builder.py', 'AstBuilder.compile')
    rr.instances += 1
    cc = [c for c in own_nodes(comp) if isinstance(c, ast.Call) and
          norm_src(c.func) == 'self.compile_class']
    if not cc or len(cc[0].args) < 3:
        raise AnalysisError('AstBuilder.compile: compile_class call not found')
    ivar = norm_src(cc[0].args[2])
    base = cc[0].args[2]
    while isinstance(base, ast.Call) and base.args:
        base = base.args[0]  # sorted(i) / list(i) wrappers are judged below
    mvar = base.id if isinstance(base, ast.Name) else ivar
    # the mapping may be built by a private helper that returns it
    scope = comp
    hcall = base if isinstance(base, ast.Call) else None
    if hcall is None and isinstance(base, ast.Name):
        defs = [n.value for n in own_nodes(comp) if isinstance(n, ast.Assign)
                and any(isinstance(t, ast.Name) and t.id == mvar
                        for t in n.targets)]
        if len(defs) == 1 and isinstance(defs[0], ast.Call):
            hcall = defs[0]
    if hcall is not None:
        for e_ in ctx.cg._resolve_callee(comp, hcall.func, hcall, 'call'):
            if not e_.is_ext and e_.precision == 'exact' and \
                    e_.dst.name.startswith('_'):
                rets_ = [r_.value.id for r_ in own_nodes(e_.dst) if isinstance(
                    r_, ast.Return) and isinstance(r_.value, ast.Name)]
                if len(set(rets_)) == 1:
                    scope, mvar = e_.dst, rets_[0]
                    ivar = mvar
    comp_ = comp
    comp = scope
    i_ctor = [norm_src(n.value) for n in own_nodes(comp) if isinstance(n, ast.Assign)
              and any(isinstance(t, ast.Name) and t.id == mvar for t in n.targets)]
    fills = [n for n in own_nodes(comp) if isinstance(n, ast.For) and any(
        isinstance(s, ast.Assign) and any(
            isinstance(t, ast.Subscript) and norm_src(t.value) == mvar
            for t in s.targets) for s in ast.walk(n))]
    if not fills or not i_ctor:
        raise AnalysisError('AstBuilder.compile: input mapping idiom not found')
    passed = ivar == mvar
    def _sorted(it):
        if isinstance(it, ast.Call) and call_name(it) == 'sorted':
            return True
        # `keys = list(x); keys.sort(); for k in keys`
        if isinstance(it, ast.Name):
            return any(isinstance(n, ast.Call) and isinstance(
                n.func, ast.Attribute) and n.func.attr == 'sort' and
                isinstance(n.func.value, ast.Name) and n.func.value.id == it.id
                and not n.args and not any(k.arg == 'key' for k in n.keywords)
                for n in own_nodes(comp))
        return False

    sorted_iter = all(_sorted(f.iter) for f in fills)
    if 'OrderedDict' in i_ctor[0] and passed and sorted_iter:
        rr.ok('the formula\'s input mapping is an OrderedDict filled over '
              '`%s` and handed unchanged to the compiled pipe' % norm_src(
                  fills[0].iter), comp.module.rel)
    else:
        rr.fail(key_of(comp, 'input mapping order'),
                'AstBuilder.compile builds its input mapping as %s filled over '
                '%s and passes `%s`: the reported input order is no longer a '
                'deterministic (sorted) order shared with the pipe' % (
                    i_ctor, [norm_src(f.iter) for f in fills],
                    norm_src(cc[0].args[2]) if len(cc[0].args) > 2 else '?'),
                file=comp.module.rel, function=comp.qualname, line=comp.lineno)
    return rr


SCOPE = ['formulas/excel/__init__.py', 'formulas/cell.py', 'formulas/ranges.py',
         'formulas/builder.py', 'formulas/excel/cycle.py']


def _bounds(ctx, prop):
    """Range containment/intersection tests decide which cells a range node
    gets its values from: the inclusive-bounds rule of C06 (rows compared as
    numbers, sizes add one, ...) is a necessary condition here too."""
    from .c06 import rule_inclusive
    from .c09 import _retag
    return _retag(rule_inclusive(ctx), prop, prop + '.bounds')


def _extlink(ctx):
    """Cross-workbook references by index ([n]Sheet!A1) reach the n-th linked
    workbook: the rule of C04 is a necessary condition for the cross-workbook
    clause here as well."""
    from .c04 import rule_extlink
    from .c09 import _retag
    return _retag(rule_extlink(ctx), 'C03', 'C03.extlink')


def _refs(ctx):
    from .c09 import rule_refs, _retag
    return _retag(rule_refs(ctx), 'C03', 'C03.refs')


def run(ctx):
    S = ctx.soft
    funcs = []
    for rel in SCOPE:
        funcs += ctx.project.module(rel).all_funcs
    from .common import rule_cachekey
    from .modelstate import rule_snapshot
    return [S(rule_ord, ctx, funcs, prop='C03', rule='C03.ord', floor=5),
            S(rule_pair, ctx),
            S(rule_snapshot, ctx, 'C03', 'C03.snapshot'),
            S(_refs, ctx), S(_bounds, ctx, 'C03'), S(_extlink, ctx),
            S(rule_cachekey, ctx, 'C03', 'C03.cachekey', SCOPE)]
