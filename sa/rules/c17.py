"""C17 - copies and serialised models are equivalent and independent (structural clauses)."""
import ast

from ..model import AnalysisError, own_nodes, norm_src
from ..peval import TokenV, Const, DictV, SeqV, ClassV, is_const
from ..report import RuleResult
from ..util import key_of, src, call_name
from .c07 import entry_functions

META = {
    'decides': (
        'C17, structural clauses only: (array) the attributes Array.__reduce__ '
        'saves and __deepcopy__ copies are exactly the instance attributes the '
        'package assigns on Array objects; (slots) Ranges.__slots__ equals the '
        'attributes its methods use and ExcelModel.__getstate__ keeps dsp; '
        '(deepmemo) an object re-created by hand inside a __deepcopy__ is '
        'entered in the memo before its state is copied; '
        '(classattr) a mutable container written as a class attribute and '
        'mutated in place through instances is part of the restored state '
        '(an instance restored from a copy or pickle does not run __init__); '
        ' (tokens) every identity sentinel (sh.Token / XlError instance) is a '
        'module-level global, which is what schedula needs to restore identity '
        'on copy/pickle; (getattr) Token.__getattr__ cannot recurse on objects '
        'created without __init__; (global) dispatch-time code writes no '
        'module-level mutable object and never writes through a memoised '
        ' (shared) result; (emptied) calculate, __call__, compile, to_dict and '
        'write - with every method they reach through self - read none of the '
        'attributes ExcelModel.__getstate__ replaces by empty containers, so '
        'they cannot behave differently on a copy; (restore) no __init__ / '
        '__setstate__ / __deepcopy__ binds a class-level or module-level '
        'mutable container into an instance.'
        ' (tokencls) sentinel classes do not intercept construction (no __init__/__new__ between schedula.Token and the module that creates the instance); (hooks) every custom __getstate__/__deepcopy__ keeps what calculations read and deep-copies what it shares - a __deepcopy__ built on copy.copy must deep-copy every attribute.'
        " (hooks, shallow) __getstate__ does not put a shallow copy of a dispatcher into the state (the dispatcher stores itself under sh.SELF); (self) compile does not re-point the model's own sh.SELF record."),
    'not_decided': (
        'Equality of results of the copy for all inputs, and what dill/copy do '
        'inside schedula objects.'),
    'trusted_base': [
        'CPython ast', 'schedula.Token.__reduce__ resolves the module global of '
        'the same name in the module recorded by Token.__init__ from its '
        'caller\'s frame; Token.__eq__ is identity; copy/pickle create objects '
        'without calling __init__'],
    'assumptions': ['attributes are assigned by plain `x.attr = v` statements'],
}

F = 'formulas/functions/__init__.py'


def _array_family(ctx):
    p = ctx.project
    arr = p.cls(F, 'Array')
    return arr, p.subclasses(arr)


def rule_array(ctx):
    rr = RuleResult('C17', 'C17.array', 'SIB',
                    'Array pickling/copy hooks cover every instance attribute',
                    floor=2)
    p = ctx.project
    arr, family = _array_family(ctx)
    attrs = {}
    for c in family:
        for k, v in c.attrs.items():
            if not (k.startswith('__') and k.endswith('__')):
                attrs.setdefault(k, []).append('%s.%s (class default)' % (c.name, k))
    # external writers: X.attr = v for attr in the family's namespace or any
    # private attribute assigned on the result parameter of a return_func
    for f in p.functions.values():
        for n in own_nodes(f):
            if isinstance(n, ast.Assign):
                for t in n.targets:
                    if isinstance(t, ast.Attribute) and t.attr in attrs and not (
                            isinstance(t.value, ast.Name) and f.cls is not None
                            and t.value.id in f.params[:1]
                            and f.cls not in family):
                        attrs[t.attr].append('%s:%d %s' % (
                            f.module.rel, n.lineno, f.qualname))
    # instance attributes assigned on self inside Array methods
    for c in family:
        for m in c.methods.values():
            sn = m.params[0] if m.params else None
            for n in own_nodes(m):
                if isinstance(n, ast.Assign):
                    for t in n.targets:
                        if isinstance(t, ast.Attribute) and isinstance(
                                t.value, ast.Name) and t.value.id == sn:
                            attrs.setdefault(t.attr, []).append(
                                '%s:%d %s' % (m.module.rel, n.lineno, m.qualname))
    # return_func callables may attach new attributes to the result array
    for reg in ctx.registry.all():
        v = reg.cfg.get('return_func')
        from .c07 import _funcs_of
        for f in _funcs_of(v):
            if not f.params:
                continue
            for n in own_nodes(f):
                if isinstance(n, ast.Assign):
                    for t in n.targets:
                        if isinstance(t, ast.Attribute) and isinstance(
                                t.value, ast.Name) and t.value.id == f.params[0]:
                            attrs.setdefault(t.attr, []).append(
                                '%s:%d %s' % (f.module.rel, n.lineno, f.qualname))
    rr.instances = len(attrs)
    red = arr.methods.get('__reduce__')
    dcp = arr.methods.get('__deepcopy__')
    sst = arr.methods.get('__setstate__')
    if red is None or dcp is None or sst is None:
        missing = [n for n, m in (('__reduce__', red), ('__deepcopy__', dcp),
                                  ('__setstate__', sst)) if m is None]
        rr.fail('%s::Array::missing hooks %s' % (F, ','.join(missing)),
                'Array (an ndarray subclass with extra attributes %s) lacks %s: '
                'the attributes are lost by pickle/deepcopy' % (
                    sorted(attrs), ', '.join(missing)),
                file=F, function='Array', line=arr.node.lineno)
        return rr
    saved = set()
    for n in own_nodes(red):
        if isinstance(n, ast.Dict):
            for k in n.keys:
                if isinstance(k, ast.Constant) and isinstance(k.value, str):
                    saved.add(k.value)
        # the state mapping may also be filled key by key or with dict(k=...)
        if isinstance(n, ast.Assign):
            for t in n.targets:
                if isinstance(t, ast.Subscript) and isinstance(
                        t.slice, ast.Constant) and isinstance(
                        t.slice.value, str):
                    saved.add(t.slice.value)
        if isinstance(n, ast.Call) and isinstance(n.func, ast.Name) and \
                n.func.id == 'dict':
            saved |= {k.arg for k in n.keywords if k.arg}
    copied = set()
    for n in own_nodes(dcp):
        if isinstance(n, ast.Assign):
            for t in n.targets:
                if isinstance(t, ast.Attribute):
                    copied.add(t.attr)
        if isinstance(n, ast.Call) and call_name(n) in ('update',) and \
                '__dict__' in norm_src(n):
            copied |= set(attrs)
    restores_all = any(isinstance(n, ast.Call) and call_name(n) == 'update'
                       and '__dict__' in norm_src(n.func) for n in own_nodes(sst))
    restored = set(saved) if restores_all else set()
    if not restores_all:
        for n in own_nodes(sst):
            if isinstance(n, ast.Assign):
                for t in n.targets:
                    if isinstance(t, ast.Attribute):
                        restored.add(t.attr)
    for a, sites in sorted(attrs.items()):
        where = sites[0]
        for hook, have, m in (('__reduce__', saved, red),
                              ('__setstate__', restored, sst),
                              ('__deepcopy__', copied, dcp)):
            if a in have:
                rr.ok('Array attribute %s is handled by %s' % (a, hook),
                      '%s:%d' % (m.module.rel, m.lineno))
            else:
                rr.fail(key_of(m, 'does not handle %s' % a),
                        'Array instances carry the attribute `%s` (%s) but '
                        'Array.%s does not handle it: a pickled/deep-copied '
                        'array silently reverts to the class default' % (
                            a, where, hook),
                        file=m.module.rel, function=m.qualname, line=m.lineno)
    return rr


def rule_slots(ctx):
    rr = RuleResult('C17', 'C17.slots', 'SIB',
                    'Ranges.__slots__ and ExcelModel.__getstate__ agree with '
                    'the attributes in use', floor=2)
    p = ctx.project
    R = p.cls('formulas/ranges.py', 'Ranges')
    rr.instances += 1
    sl = ctx.ev.class_attr(R, '__slots__')
    slots = None
    if is_const(sl, tuple):
        slots = set(sl.v)
    elif is_const(sl, str):
        slots = {sl.v}
    elif isinstance(sl, SeqV) and all(is_const(e, str) for e in sl.elts):
        slots = {e.v for e in sl.elts}
    if slots is None:
        rr.note('Ranges has no literal __slots__ (instances use __dict__)')
    used = {}
    for m in R.methods.values():
        sn = m.params[0] if m.params else None
        if any(isinstance(d, ast.Name) and d.id == 'staticmethod'
               for d in m.decorators()):
            continue
        for n in own_nodes(m):
            if isinstance(n, ast.Attribute) and isinstance(n.value, ast.Name) \
                    and n.value.id == sn and isinstance(n.ctx, ast.Store):
                used.setdefault(n.attr, m)
    if slots is not None:
        for a, m in sorted(used.items()):
            if a in slots:
                rr.ok('Ranges.%s (assigned in %s) is declared in __slots__' % (
                    a, m.name), m.module.rel)
            else:
                rr.fail(key_of(m, 'assigns undeclared slot %s' % a),
                        'Ranges.%s assigns self.%s which is not in __slots__: '
                        'AttributeError at run time (or, without slots, state '
                        'that copy/pickle hooks do not know)' % (m.name, a),
                        file=m.module.rel, function=m.qualname, line=m.lineno)
        init = R.methods.get('__init__')
        init_set = {a for a, m in used.items()} if init is None else {
            n.attr for n in own_nodes(init) if isinstance(n, ast.Attribute)
            and isinstance(n.ctx, ast.Store)}
        for a in sorted(slots - init_set):
            rr.fail(key_of(init, 'slot %s not initialised' % a),
                    'Ranges.__slots__ declares %s but __init__ does not set it: '
                    'reading it on a fresh object raises AttributeError' % a,
                    file=R.module.rel, function='Ranges.__init__',
                    line=init.lineno if init else R.node.lineno)
    # ExcelModel.__getstate__
    M = p.cls('formulas/excel/__init__.py', 'ExcelModel')
    gs = M.methods.get('__getstate__')
    init = M.methods.get('__init__')
    rr.instances += 1
    if gs is None:
        rr.ok('ExcelModel has no __getstate__: the whole __dict__ is pickled',
              M.module.rel)
    else:
        keys = set()
        for n in own_nodes(gs):
            if isinstance(n, ast.Dict):
                for k in n.keys:
                    if isinstance(k, ast.Constant):
                        keys.add(k.value)
            # ... or a state filled key by key / by update(k=v)
            elif isinstance(n, ast.Assign):
                for t in n.targets:
                    if isinstance(t, ast.Subscript) and isinstance(
                            t.slice, ast.Constant) and isinstance(
                            t.slice.value, str):
                        keys.add(t.slice.value)
            elif isinstance(n, ast.Call) and call_name(n) in (
                    'update', 'setdefault', 'dict'):
                keys |= {k.arg for k in n.keywords if k.arg}
                if call_name(n) == 'setdefault' and n.args and isinstance(
                        n.args[0], ast.Constant):
                    keys.add(n.args[0].value)
        init_attrs = {n.attr for n in own_nodes(init)
                      if isinstance(n, ast.Attribute) and isinstance(
            n.ctx, ast.Store)} if init else set()
        if 'dsp' not in keys:
            rr.fail(key_of(gs, 'state without dsp'),
                    'ExcelModel.__getstate__ does not keep `dsp`: a pickled or '
                    'dill-copied model has no dispatcher', file=M.module.rel,
                    function=gs.qualname, line=gs.lineno)
        else:
            rr.ok("ExcelModel.__getstate__ keeps 'dsp'", M.module.rel)
        for k in sorted(keys - init_attrs):
            rr.fail(key_of(gs, 'state key %s unknown' % k),
                    'ExcelModel.__getstate__ emits key %r which __init__ does '
                    'not define' % k, file=M.module.rel, function=gs.qualname,
                    line=gs.lineno)
    return rr


def token_instantiations(ctx):
    """All calls constructing sh.Token or a package subclass of it."""
    p = ctx.project
    out = []
    for m in p.modules.values():
        top_assign = {}
        for st in m.tree.body:
            if isinstance(st, ast.Assign) and isinstance(st.value, ast.Call) \
                    and len(st.targets) == 1 and isinstance(
                    st.targets[0], ast.Name):
                top_assign[id(st.value)] = st.targets[0].id
        for n in ast.walk(m.tree):
            if not isinstance(n, ast.Call):
                continue
            r = p.resolve_expr(m, n.func) if isinstance(
                n.func, (ast.Name, ast.Attribute)) else None
            is_tok = False
            if r and r[0] == 'ext' and r[1] == 'schedula.Token':
                is_tok = True
            elif r and r[0] == 'class' and 'schedula.Token' in p.ext_bases(r[1]):
                is_tok = True
            if is_tok:
                out.append((m, n, top_assign.get(id(n))))
    return out


def rule_tokens(ctx):
    rr = RuleResult('C17', 'C17.tokens', 'TAB',
                    'identity sentinels are module-level globals', floor=12)
    p = ctx.project
    for m, n, name in token_instantiations(ctx):
        rr.instances += 1
        txt = src(n)
        if name is not None:
            # the global must carry the name schedula will look up: Token
            # pickles by module attribute, so the binding must be unique
            rr.ok('%s = %s is a module-level sentinel' % (name, txt),
                  '%s:%d' % (m.rel, n.lineno))
        else:
            fn = None
            for f in m.all_funcs:
                if any(x is n for x in ast.walk(f.node)):
                    fn = f
            rr.fail('%s::%s::token created outside module level: %s' % (
                m.rel, fn.qualname if fn else '<module>', txt),
                '%s creates a sentinel at run time: schedula tokens compare by '
                'identity and are restored by module-global lookup, so a copy '
                'or unpickled model holds a different object and '
                'isinstance/`is` tests on it fail' % txt,
                file=m.rel, function=fn.qualname if fn else '<module>',
                line=n.lineno)
    return rr


def _init_attrs(ctx, cls):
    """attr -> value node assigned in __init__ of cls or its package bases."""
    out = {}
    for k in reversed(ctx.project.mro(cls)):
        init = k.methods.get('__init__')
        if init is None or not init.params:
            continue
        sn = init.params[0]
        for n in own_nodes(init):
            if isinstance(n, ast.Assign):
                pairs = []
                for t in n.targets:
                    if isinstance(t, ast.Tuple) and isinstance(n.value, ast.Tuple):
                        pairs += list(zip(t.elts, n.value.elts))
                    else:
                        pairs.append((t, n.value))
                for t, v in pairs:
                    if isinstance(t, ast.Attribute) and isinstance(
                            t.value, ast.Name) and t.value.id == sn:
                        out[t.attr] = v
    return out


def _dispatcher_attrs(ctx, c):
    """Attributes of class c that some method binds to a new schedula
    Dispatcher (`self.x = sh.Dispatcher(..)`)."""
    out = set()
    for m in c.methods.values():
        if not m.params:
            continue
        for n in own_nodes(m):
            if isinstance(n, ast.Assign) and isinstance(
                    n.value, ast.Call) and isinstance(
                    n.value.func, (ast.Name, ast.Attribute)):
                r = ctx.cg.resolve_name_expr(m, n.value.func)
                if r and r[0] == 'ext' and r[1].endswith('.Dispatcher'):
                    for t in n.targets:
                        if isinstance(t, ast.Attribute) and isinstance(
                                t.value, ast.Name) and \
                                t.value.id == m.params[0]:
                            out.add(t.attr)
    return out


def rule_hooks(ctx):
    rr = RuleResult('C17', 'C17.hooks', 'SIB',
                    'custom copy/pickle hooks keep what calculations read and '
                    'deep-copy what they share', floor=1)
    p = ctx.project
    arr, family = _array_family(ctx)
    entries = entry_functions(ctx)
    for c in p.classes.values():
        if c in family:
            continue
        gs = c.methods.get('__getstate__')
        dc = c.methods.get('__deepcopy__')
        if gs is None and dc is None:
            continue
        attrs = _init_attrs(ctx, c)
        if gs is not None:
            rr.instances += 1
            dropped = set()
            rets = [n.value for n in own_nodes(gs) if isinstance(n, ast.Return)
                    and n.value is not None]
            for r in rets:
                if isinstance(r, ast.Dict):
                    # a *shallow copy* of a dispatcher in the state: the
                    # dispatcher stores itself in its own default values
                    # (sh.SELF), so the graph inside the state still refers to
                    # the original and the copy's memo sees two objects
                    for k_, v_ in zip(r.keys, r.values):
                        inner = None
                        if isinstance(v_, ast.Call) and len(v_.args) == 1 and \
                                not v_.keywords and isinstance(
                                v_.func, (ast.Name, ast.Attribute)) and \
                                ctx.cg.resolve_name_expr(gs, v_.func) == (
                                    'ext', 'copy.copy'):
                            inner = v_.args[0]
                        if inner is not None and isinstance(
                                inner, ast.Attribute) and isinstance(
                                inner.value, ast.Name) and gs.params and \
                                inner.value.id == gs.params[0] and \
                                inner.attr in _dispatcher_attrs(ctx, c):
                            rr.fail(key_of(gs, 'state holds a shallow copy of '
                                               'the dispatcher'),
                                    '%s.__getstate__ puts copy.copy(self.%s) '
                                    'into the state: the dispatcher is also '
                                    'stored inside its own default values '
                                    '(sh.SELF), so a deep copy or pickle '
                                    'restores two dispatchers - the one the '
                                    'model calls and the one the range '
                                    'assemblers read absent cells from' % (
                                        c.name, inner.attr),
                                    file=gs.module.rel, function=gs.qualname,
                                    line=v_.lineno)
                    kept = {k.value for k in r.keys if isinstance(k, ast.Constant)}
                    emptied = {k.value for k, v in zip(r.keys, r.values)
                               if isinstance(k, ast.Constant) and isinstance(
                        v, (ast.Dict, ast.List, ast.Set, ast.Tuple,
                            ast.Constant)) and not getattr(v, 'keys', None)
                        and not getattr(v, 'elts', None)}
                    dropped |= set(attrs) - kept  # emptied caches are fine
                elif isinstance(r, ast.DictComp):
                    for g in r.generators:
                        for cond in g.ifs:
                            if isinstance(cond, ast.Compare) and isinstance(
                                    cond.ops[0], ast.NotIn):
                                coll = cond.comparators[0]
                                vals = None
                                if isinstance(coll, (ast.Tuple, ast.List, ast.Set)):
                                    vals = [e.value for e in coll.elts
                                            if isinstance(e, ast.Constant)]
                                elif isinstance(coll, ast.Attribute):
                                    a = p.find_class_attr(c, coll.attr)
                                    if a is not None:
                                        av = ctx.ev.class_attr(a[0], coll.attr)
                                        it = ctx.ev.iterate(av)
                                        if it is not None:
                                            vals = [e.v for e in it if is_const(e)]
                                if vals is None:
                                    raise AnalysisError(
                                        '%s.__getstate__: filter not recognised'
                                        % c.name)
                                dropped |= set(vals)
                else:
                    raise AnalysisError('%s.__getstate__: return shape not '
                                        'recognised' % c.name)
            # which dropped attributes are read while calculating?
            family_c = p.subclasses(c)
            readers = {}
            for fq, (f, role, fresh) in entries.items():
                for n in own_nodes(f):
                    if isinstance(n, ast.Attribute) and isinstance(
                            n.ctx, ast.Load) and n.attr in dropped:
                        # receiver may be self (of the family) or an object of it
                        readers.setdefault(n.attr, (f, n))
            for a in sorted(dropped):
                if a in readers:
                    f, n = readers[a]
                    rr.fail(key_of(gs, 'drops %s read at calculation time' % a),
                            '%s.__getstate__ leaves `%s` out of the copied/'
                            'pickled state, but %s reads `.%s` while '
                            'calculating: a copy computes different results' % (
                                c.name, a, f.qualname, a), file=gs.module.rel,
                            function=gs.qualname, line=gs.lineno)
                else:
                    rr.ok('%s.__getstate__ drops `%s`, which no calculation-'
                          'time code reads' % (c.name, a), '%s:%d' % (
                              gs.module.rel, gs.lineno))
            if not dropped:
                rr.ok('%s.__getstate__ keeps every attribute' % c.name,
                      '%s:%d' % (gs.module.rel, gs.lineno))
        if dc is not None:
            sn = dc.params[0]
            # a __deepcopy__ that starts from a shallow copy of self shares
            # every attribute it does not deep-copy afterwards
            shallow = [n for n in own_nodes(dc) if isinstance(n, ast.Call) and (
                ctx.cg.resolve_name_expr(dc, n.func) in (
                    ('ext', 'copy.copy'),) if isinstance(
                    n.func, (ast.Name, ast.Attribute)) else False)
                and n.args and isinstance(n.args[0], ast.Name)
                and n.args[0].id == sn]
            if shallow:
                rr.instances += 1
                deep_attrs = set()
                for n in own_nodes(dc):
                    if isinstance(n, ast.Assign) and isinstance(
                            n.value, ast.Call) and norm_src(n.value.func) in (
                            'copy.deepcopy', 'deepcopy'):
                        for t in n.targets:
                            if isinstance(t, ast.Attribute):
                                deep_attrs.add(t.attr)
                ext = p.ext_bases(c)
                left = sorted(a for a, v in attrs.items()
                              if a not in deep_attrs and not isinstance(
                                  v, ast.Constant))
                if ext or left:
                    what = ('the attributes set by its base class %s (not '
                            'visible here, none of them copied)' % ', '.join(
                                str(b) for b in ext)) if ext else \
                        'the attributes %s' % ', '.join(left)
                    rr.fail(key_of(dc, 'deep copy built on a shallow copy'),
                            '%s.__deepcopy__ starts from `copy.copy(self)` and '
                            'deep-copies only %s: %s stay shared between the '
                            'original and its copy, so evaluating one can '
                            'disturb the other' % (
                                c.name, ', '.join(sorted(deep_attrs)) or
                                'nothing', what), file=dc.module.rel,
                            function=dc.qualname, line=shallow[0].lineno)
                else:
                    rr.ok('%s.__deepcopy__ deep-copies every attribute after '
                          'the shallow copy' % c.name,
                          '%s:%d' % (dc.module.rel, dc.lineno))
            for n in own_nodes(dc):
                if not (isinstance(n, ast.Assign) and len(n.targets) == 1 and
                        isinstance(n.targets[0], ast.Attribute)):
                    continue
                a = n.targets[0].attr
                reads_self = any(isinstance(x, ast.Attribute) and isinstance(
                    x.value, ast.Name) and x.value.id == sn
                    for x in ast.walk(n.value))
                if not reads_self:
                    continue
                rr.instances += 1
                deep = isinstance(n.value, ast.Call) and norm_src(
                    n.value.func) in ('copy.deepcopy', 'deepcopy')
                init_v = attrs.get(a)
                scalar = isinstance(init_v, ast.Constant)
                if deep or scalar:
                    rr.ok('%s.__deepcopy__: `%s` is deep-copied%s' % (
                        c.name, a, '' if deep else ' (immutable scalar)'),
                        '%s:%d' % (dc.module.rel, n.lineno))
                else:
                    rr.fail(key_of(dc, 'shares %s with the copy' % a),
                            '%s.__deepcopy__ sets `%s = %s`: the objects inside '
                            'are shared between original and copy, so mutating '
                            'one (e.g. writing into the loaded workbooks) '
                            'changes the other' % (c.name, a, norm_src(n.value)),
                            file=dc.module.rel, function=dc.qualname,
                            line=n.lineno)
    if rr.instances == 0:
        rr.instances = 1
        rr.ok('no class besides Array customises copy/pickle hooks',
              '', nontrivial=False)
    return rr


def rule_token_classes(ctx):
    rr = RuleResult('C17', 'C17.tokencls', 'TAB',
                    'sentinel classes do not intercept construction', floor=2)
    p = ctx.project
    for c in p.classes.values():
        if 'schedula.Token' not in p.ext_bases(c):
            continue
        rr.instances += 1
        bad = [m for m in ('__init__', '__new__') if m in c.methods]
        if bad:
            m = c.methods[bad[0]]
            rr.fail('%s::%s::sentinel class defines %s' % (
                c.module.rel, c.name, bad[0]),
                '%s (a schedula.Token subclass) defines %s: schedula records '
                'the module of the *caller* of Token.__init__ to restore the '
                'sentinel by module-global lookup on pickle; with an '
                'intermediate %s that module is always %s, so sentinels '
                'created in other modules (e.g. the circular-reference error) '
                'are pickled by value and lose their identity' % (
                    c.name, bad[0], bad[0], c.module.name),
                file=c.module.rel, function='%s.%s' % (c.name, bad[0]),
                line=m.lineno)
        else:
            rr.ok('%s does not define __init__/__new__: every sentinel is '
                  'constructed directly from its defining module' % c.name,
                  '%s:%d' % (c.module.rel, c.node.lineno))
    return rr


def rule_getattr(ctx):
    rr = RuleResult('C17', 'C17.getattr', 'ESC',
                    'Token.__getattr__ terminates on half-built objects',
                    floor=1)
    p = ctx.project
    T = p.cls('formulas/tokens/__init__.py', 'Token')
    g = T.methods.get('__getattr__')
    rr.instances += 1
    if g is None:
        rr.ok('Token defines no __getattr__', T.module.rel)
        return rr
    selfn, item = g.params[0], g.params[1]

    def guarded_reads(body, guarded):
        bad = []
        for st in body:
            if isinstance(st, ast.If):
                t = st.test
                is_prefix = isinstance(t, ast.Call) and isinstance(
                    t.func, ast.Attribute) and t.func.attr == 'startswith' and \
                    isinstance(t.func.value, ast.Name) and t.func.value.id == item
                for n in ast.walk(t):
                    if _self_attr(n, selfn) and not guarded:
                        bad.append(n)
                bad += guarded_reads(st.body, guarded or is_prefix)
                bad += guarded_reads(st.orelse, guarded)
            else:
                for n in ast.walk(st):
                    if _self_attr(n, selfn) and not guarded:
                        if isinstance(st, ast.Return) and _is_super_call(
                                st.value):
                            continue
                        bad.append(n)
        return bad

    bad = guarded_reads(g.node.body, False)
    if bad:
        rr.fail(key_of(g, 'reads self.%s unguarded' % bad[0].attr),
                'Token.__getattr__ reads self.%s outside the has_/get_ prefix '
                'branches: on an object created without __init__ (copy, pickle) '
                'that read re-enters __getattr__ and recurses without bound'
                % bad[0].attr, file=g.module.rel, function=g.qualname,
                line=bad[0].lineno)
    else:
        rr.ok('instance attributes are only read under the has_/get_ prefix '
              'tests', g.module.rel)
    last = g.node.body[-1]
    ok = (isinstance(last, ast.Return) and _is_super_call(last.value)) or (
        isinstance(last, ast.Raise) and 'AttributeError' in norm_src(last))
    rr.instances += 1
    if ok:
        rr.ok('fall-through delegates to super().__getattr__ / raises '
              'AttributeError', g.module.rel)
    else:
        rr.fail(key_of(g, 'fall-through does not raise AttributeError'),
                'Token.__getattr__ does not end in super().__getattr__(item) or '
                'raise AttributeError: copy/pickle probe attributes such as '
                '__deepcopy__/__reduce_ex__ and need AttributeError',
                file=g.module.rel, function=g.qualname, line=last.lineno)
    return rr


def _self_attr(n, selfn):
    return isinstance(n, ast.Attribute) and isinstance(n.value, ast.Name) and \
        n.value.id == selfn and isinstance(n.ctx, ast.Load) and \
        not n.attr.startswith('__')


def _is_super_call(e):
    return isinstance(e, ast.Call) and isinstance(e.func, ast.Attribute) and \
        isinstance(e.func.value, ast.Call) and isinstance(
        e.func.value.func, ast.Name) and e.func.value.func.id == 'super'


def rule_global(ctx, prop='C17', rule='C17.global', only=None, floor=150):
    rr = RuleResult(prop, rule, 'EFF',
                    'dispatch-time code writes no shared module-level object',
                    floor=floor)
    E = ctx.effects
    p = ctx.project
    entries = entry_functions(ctx)
    for fq, (f, role, fresh) in sorted(entries.items()):
        if only is not None and not only(f):
            continue
        rr.instances += 1
        s = E.summ[f.fq]
        bad = []
        for w in s.global_writes:
            rel, name = w.is_global.split(':', 1)
            m = p.by_rel.get(rel)
            av = ctx.ev.module_env(m).get(name) if m is not None and \
                not name.startswith('<') else None
            if isinstance(av, (TokenV, Const)):
                continue  # immutable sentinel / constant
            bad.append(w)
        if bad:
            w = bad[0]
            rr.fail('%s::%s::writes module-level %s' % (
                f.module.rel, f.qualname, w.is_global),
                '%s (%s) writes to the module-level object %s (%s at %s:%s): '
                'state shared by every model and copy in the process' % (
                    f.qualname, role, w.is_global, w.describe(),
                    w.fi.module.rel, w.lineno),
                file=w.fi.module.rel, function=f.qualname, line=w.lineno)
        else:
            rr.ok('%s (%s): no write to module-level mutable objects or '
                  'memoised results' % (f.qualname, role),
                  '%s:%d' % (f.module.rel, f.lineno), nontrivial=False)
    # memoised functions that hand out mutable results: listed for the record
    memo = [f for f in p.functions.values() if E.is_memoised(f)]
    for f in memo:
        rr.ok('memoised %s: callers never write through its result '
              '(covered by the entries above)' % f.qualname,
              '%s:%d' % (f.module.rel, f.lineno))
    rr.note('%d memoised functions: %s' % (len(memo), ', '.join(
        sorted(f.qualname for f in memo))))
    rr.note("eng._memo is passed to schedula's DispatchPipe.register(memo=) "
            "(registration cache, argument-independent): outside the analysed "
            "source, reasoned in DESIGN.md Appendix C")
    return rr


def rule_restore(ctx):
    from .modelstate import shared_restores
    rr = RuleResult('C17', 'C17.restore', 'ALIAS',
                    'constructors and state-restoring hooks give every '
                    'instance its own mutable containers', floor=10)
    hooks = ('__init__', '__setstate__', '__deepcopy__', '__copy__', '__new__')
    for c in sorted(ctx.project.classes.values(), key=lambda c: c.fq):
        for h in hooks:
            f = c.methods.get(h)
            if f is None:
                continue
            rr.instances += 1
            bad = shared_restores(ctx, f)
            if not bad:
                rr.ok('%s.%s installs no class-level or module-level mutable '
                      'object into the instance' % (c.name, h),
                      '%s:%d' % (f.module.rel, f.lineno), nontrivial=False)
            for n, why in bad:
                rr.fail(key_of(f, 'installs a shared mutable object'),
                        '%s.%s: %s; two models restored from copies/pickles '
                        'then write into the same container, so they are not '
                        'independent' % (c.name, h, why), file=f.module.rel,
                        function=f.qualname, line=n.lineno)
    return rr


MUTATORS = {'update', 'append', 'extend', 'add', 'pop', 'popitem', 'clear',
            'setdefault', 'remove', 'discard', 'insert', 'sort'}


def rule_classattr(ctx):
    """A mutable container written as a class attribute is one object for all
    instances.  That is harmless while every way of making an instance
    assigns its own - but an instance restored from a copy or a pickle does
    not run __init__: what __getstate__ leaves out (and no __setstate__ puts
    back) is looked up on the class.  If the methods then write into it in
    place, restored copies write into the same container."""
    from .modelstate import _mutable_literal
    rr = RuleResult('C17', 'C17.classattr', 'ALIAS',
                    'no class-level mutable container is written in place '
                    'through instances that can come into being without their '
                    'own copy of it', floor=1)
    p = ctx.project
    for c in sorted(p.classes.values(), key=lambda c: c.fq):
        gs = p.find_method(c, '__getstate__')
        ss = p.find_method(c, '__setstate__')
        rd = p.find_method(c, '__reduce__') or p.find_method(c, '__reduce_ex__')
        if gs is None or rd is not None:
            continue
        rr.instances += 1
        rets = [n.value for n in own_nodes(gs) if isinstance(n, ast.Return)]
        keys = None
        if len(rets) == 1 and isinstance(rets[0], ast.Dict) and all(
                isinstance(k, ast.Constant) for k in rets[0].keys):
            keys = {k.value for k in rets[0].keys}
        bad = None
        for k in p.mro(c):
            for attr, val in sorted(k.attrs.items()):
                if not _mutable_literal(val) or attr.startswith('__'):
                    continue
                restored = (keys is None or attr in keys) or (
                    ss is not None and any(
                        isinstance(n, ast.Attribute) and n.attr == attr and
                        isinstance(n.ctx, ast.Store) for n in own_nodes(ss)))
                if restored:
                    continue
                # written in place through self by some method?
                for m in [m_ for k2 in p.mro(c) for m_ in k2.methods.values()]:
                    if not m.params:
                        continue
                    sn = m.params[0]
                    for n in own_nodes(m):
                        tgt = None
                        if isinstance(n, ast.Subscript) and isinstance(
                                n.ctx, (ast.Store, ast.Del)):
                            tgt = n.value
                        elif isinstance(n, ast.Call) and isinstance(
                                n.func, ast.Attribute) and \
                                n.func.attr in MUTATORS:
                            tgt = n.func.value
                        if isinstance(tgt, ast.Attribute) and \
                                tgt.attr == attr and isinstance(
                                tgt.value, ast.Name) and tgt.value.id == sn:
                            bad = bad or (k, attr, m, n)
        if bad is None:
            rr.ok('%s: every mutable container its methods write into is '
                  'part of the pickled state or created per instance' % c.name,
                  '%s:%d' % (gs.module.rel, gs.lineno))
        else:
            k, attr, m, n = bad
            rr.fail('%s::%s::class-level %s shared by restored instances' % (
                k.module.rel, c.name, attr),
                '%s.%s is a mutable container on the class, __getstate__ '
                'leaves it out and nothing puts it back on restore, while %s '
                'writes into it in place (`%s`): every model restored by '
                'copy/deepcopy/pickle/dill writes into the one container of '
                'the class, so the copies are not independent' % (
                    k.name, attr, m.qualname, norm_src(n)[:60]),
                file=m.module.rel, function=m.qualname, line=n.lineno)
    if not rr.instances:
        raise AnalysisError('C17.classattr: no class with __getstate__ found')
    return rr


def rule_deepmemo(ctx):
    """Inside a hand-written __deepcopy__, an object made with `__new__` to
    stand for an existing object E (`E.__class__.__new__(E.__class__)`,
    `type(E).__new__(...)`) has to be entered in the memo under id(E) before
    anything reachable from E is deep-copied with that memo: otherwise a
    reference back to E inside its own state (the model's dispatcher holds
    itself under sh.SELF) is copied a second time, and the copy ends up with
    two different objects where the original had one."""
    rr = RuleResult('C17', 'C17.deepmemo', 'MPT',
                    'objects re-created by hand in __deepcopy__ are '
                    'registered in the memo before their state is copied',
                    floor=0)
    from ..cfg import CFG
    p = ctx.project
    for c in sorted(p.classes.values(), key=lambda c: c.fq):
        f = c.methods.get('__deepcopy__')
        if f is None or len(f.params) < 2:
            continue
        memo = f.params[1]
        cfg = CFG(f)
        dom = cfg.dominators()
        made = []  # (assign stmt, name of the new object, source of E)
        for n in own_nodes(f):
            if not isinstance(n, ast.Assign):
                continue
            v = n.value
            if not (isinstance(v, ast.Call) and isinstance(
                    v.func, ast.Attribute) and v.func.attr == '__new__'):
                continue
            base = v.func.value
            e = None
            if isinstance(base, ast.Attribute) and base.attr == '__class__':
                e = base.value
            elif isinstance(base, ast.Call) and norm_src(base.func) == 'type' \
                    and base.args:
                e = base.args[0]
            if e is None:
                continue
            made.append((n, n.targets[-1], e))
        copies = [n for n in own_nodes(f) if isinstance(n, ast.Call) and
                  call_name(n) == 'deepcopy' and any(
                      isinstance(a, ast.Name) and a.id == memo
                      for a in list(n.args) + [k.value for k in n.keywords])]
        for st, tgt, e in made:
            rr.instances += 1
            esrc = norm_src(e)
            regs = [n for n in own_nodes(f) if isinstance(n, ast.Assign) and any(
                isinstance(t, ast.Subscript) and isinstance(
                    t.value, ast.Name) and t.value.id == memo and
                norm_src(t.slice) == 'id(%s)' % esrc for t in n.targets)]
            later = [c_ for c_ in copies if c_.lineno >= st.lineno]
            ok = not later or any(all(
                cfg.node_of(r_) is not None and cfg.node_of(c_) is not None
                and cfg.dominates(cfg.node_of(r_), cfg.node_of(c_), dom)
                for c_ in later) for r_ in regs)
            if ok:
                rr.ok('%s: the object made for `%s` is in the memo before '
                      'anything is deep-copied' % (f.qualname, esrc),
                      '%s:%d' % (f.module.rel, st.lineno))
            else:
                rr.fail(key_of(f, 'copy of `%s` not registered in the memo' %
                               esrc),
                        '%s creates `%s` to stand for `%s` but does not '
                        'store it under memo[id(%s)] before `%s`: an object '
                        'that refers back to `%s` from its own state is '
                        'copied twice, so the copy holds a second, orphan '
                        'instance (for the model: the dispatcher stored under '
                        'sh.SELF - the copy then reads absent cells from the '
                        'orphan\'s solution)' % (
                            f.qualname, norm_src(tgt), esrc, esrc,
                            norm_src(later[0])[:50], esrc),
                        file=f.module.rel, function=f.qualname,
                        line=st.lineno)
    if not rr.instances:
        rr.instances = 1
        rr.ok('no __deepcopy__ of the package re-creates an object by hand',
              '', nontrivial=False)
    return rr


def run(ctx):
    S = ctx.soft
    from .modelstate import rule_emptied
    from .c08 import rule_self as _rule_self
    return [S(rule_array, ctx), S(rule_slots, ctx), S(rule_tokens, ctx),
            S(rule_token_classes, ctx), S(rule_hooks, ctx), S(rule_restore, ctx),
            S(rule_classattr, ctx), S(rule_deepmemo, ctx),
            S(rule_emptied, ctx, 'C17', 'C17.emptied'), S(rule_getattr, ctx),
            S(rule_global, ctx),
            # a compiled function that re-points the model's own sh.SELF record
            # makes the original differ from every copy taken before (shared
            # with C07/C08)
            S(_rule_self, ctx, 'C17', 'C17.self')]
