"""C10 - circular references: lazy functions, guards, deterministic cut (structural clauses)."""
import ast

from ..model import AnalysisError, own_nodes, norm_src
from ..peval import FuncV, TokenV, DictV, Const, CallV, Ext, is_const
from ..report import RuleResult
from ..posset import PosSet, positions_in
from ..order import OrderAnalysis
from ..util import key_of, src, call_name, kwarg
from ..registry import FUNCS_REL

META = {
    'decides': (
        'C10, structural clauses only: (lazy) the registrations that may break '
        'a cycle are exactly IF/IFS/IFERROR/IFNA and their aliases; (guard) '
        'each solve_cycle predicate allows a cut iff the deciding argument '
        'positions are off the cycle (IF {0}, IFS even positions, '
        'IFERROR/IFNA {0}); (lazyeval) such a function never examines a branch '
        'argument for errors and receives its arguments unconverted, so the '
        'circular error placed on a cut branch is not seen unless selected; '
        ' (err) the circular error is a module-level XlError instance; (skip) '
        'both cycle analyses exclude inverse range assemblers; (ord) the node '
        'at which a cycle is cut is chosen from a sorted sequence.'
        ' (fresh) every container the cycle search mutates is created inside the per-component loop, so no blocking state leaks from one start node to the next; (accum) the inputs to cut are added to the per-node entry collected over all cycles, never assigned over it, and the callee does not read that map to decide.'
        ' (consume) a graph handed to simple_cycles with copy off is built in the calling function, successor sets included; (scc) the component work-list receives every strongly connected component, one-node components included.'),
    'not_decided': (
        'Termination, completeness of the elementary-cycle enumeration, and '
        'the values of cells off the cycles.'),
    'trusted_base': ['CPython ast', 'spec/error_policy.json (lazy set, guard '
                     'positions)'],
    'assumptions': ['solve_cycle predicates receive one boolean per input: '
                    '"this input lies on the cycle"'],
}


def _base_name(name, prefixes):
    for pre in sorted(prefixes, key=len, reverse=True):
        if name.startswith(pre):
            return name[len(pre):]
    return name


def _guard_of(f):
    """(PosSet of positions tested, polarity_ok) of a solve_cycle predicate.

    Accepted shapes: `not args[i]`, `not any(args[slice])`, `not (a or b)`,
    `all(not v for v in args[slice])`.
    """
    rets = [f.node.body] if f.is_lambda else [
        n.value for n in own_nodes(f) if isinstance(n, ast.Return)
        and n.value is not None]
    if len(rets) != 1:
        raise AnalysisError('%s: solve_cycle with %d returns' % (f.fq, len(rets)))
    e = rets[0]
    pos = positions_in(f)
    if isinstance(e, ast.UnaryOp) and isinstance(e.op, ast.Not):
        inner = e.operand
        if isinstance(inner, ast.Call) and isinstance(inner.func, ast.Name) and \
                inner.func.id in ('any',):
            return pos, True
        if isinstance(inner, (ast.Subscript, ast.Name, ast.BoolOp)):
            if isinstance(inner, ast.BoolOp) and not isinstance(inner.op, ast.Or):
                return pos, False
            return pos, True
        return pos, None
    if isinstance(e, ast.Call) and isinstance(e.func, ast.Name) and \
            e.func.id == 'all' and e.args and isinstance(
            e.args[0], ast.GeneratorExp) and isinstance(
            e.args[0].elt, ast.UnaryOp) and isinstance(e.args[0].elt.op, ast.Not):
        return pos, True
    if isinstance(e, (ast.Subscript, ast.Name)) or (
            isinstance(e, ast.Call) and isinstance(e.func, ast.Name)
            and e.func.id in ('any', 'all')):
        return pos, False  # allows the cut when the guard IS on the cycle
    return pos, None


def rule_lazy(ctx):
    R = ctx.registry
    pol = ctx.spec('error_policy')
    lazy, prefixes = pol['lazy'], pol['alias_prefixes']
    rr = RuleResult('C10', 'C10.lazy', 'TAB',
                    'cycle-breaking registrations = lazy set; guards and lazy '
                    'evaluation agree', floor=6)
    with_sc = {}
    for reg in R.functions.values():
        if 'solve_cycle' in reg.dict_keys:
            with_sc[reg.name] = reg
    for name in sorted(lazy):
        for reg in R.functions.values():
            if _base_name(reg.name, prefixes) != name:
                continue
            rr.instances += 1
            if reg.name in with_sc:
                rr.ok('%s carries solve_cycle' % reg.key, reg.site)
            else:
                rr.fail('%s::registration %s::lazy function without '
                        'solve_cycle' % (reg.module.rel, reg.name),
                        '%s has no solve_cycle predicate: a cycle that closes '
                        'only through an unselected branch of %s is marked '
                        'circular instead of resolving' % (reg.key, name),
                        file=reg.module.rel, function='FUNCTIONS[%r]' % reg.name,
                        line=reg.lineno)
    for name, reg in sorted(with_sc.items()):
        base = _base_name(name, prefixes)
        sc = reg.dict_keys['solve_cycle']
        if not isinstance(sc, FuncV):
            raise AnalysisError('%s: solve_cycle is %r' % (reg.key, sc))
        pos, polarity = _guard_of(sc.fi)
        rr.instances += 1
        if polarity is None:
            raise AnalysisError('%s: unrecognised solve_cycle shape `%s`' % (
                reg.key, norm_src(sc.fi.node)))
        if base not in lazy:
            rr.fail('%s::registration %s::solve_cycle on a strict function' % (
                reg.module.rel, name),
                '%s carries solve_cycle but %s is not one of the lazily '
                'evaluated functions (IF, IFS, IFERROR, IFNA): cycles through '
                'it would be cut although every argument is needed' % (
                    reg.key, base), file=reg.module.rel,
                function='FUNCTIONS[%r]' % name, line=reg.lineno)
            continue
        want = PosSet.from_spec(lazy[base]['guard'])
        if not polarity:
            rr.fail('%s::registration %s::solve_cycle polarity' % (
                reg.module.rel, name),
                '%s: solve_cycle `%s` allows the cut when the deciding '
                'argument IS on the cycle (must be: is NOT)' % (
                    reg.key, norm_src(sc.fi.node)), file=sc.fi.module.rel,
                function='FUNCTIONS[%r]' % name, line=sc.fi.lineno)
        elif pos.members() != want.members():
            rr.fail('%s::registration %s::solve_cycle guard positions' % (
                reg.module.rel, name),
                '%s: solve_cycle tests argument positions %s, the arguments '
                'that decide the selection are %s (%s)' % (
                    reg.key, pos.describe(), want.describe(),
                    lazy[base]['why']), file=sc.fi.module.rel,
                function='FUNCTIONS[%r]' % name, line=sc.fi.lineno)
        else:
            rr.ok('%s: cut allowed iff positions %s are off the cycle' % (
                reg.key, want.describe()), reg.site)
        # lazy evaluation: check_error positions subset of guard, parsers identity
        rr.instances += 1
        problems = []
        if not reg.has('wrap_ufunc'):
            problems.append('not registered through wrap_ufunc')
        ce = reg.cfg.get('check_error')
        if ce is None:
            problems.append('default check_error examines every argument')
        elif isinstance(ce, FuncV):
            if ce.fi.module.rel == FUNCS_REL and ce.fi.name == 'get_error':
                problems.append('check_error=get_error examines every argument')
            else:
                exam = positions_in(ce.fi)
                # positions only *named* by `lambda cond, *a` count if used
                if not exam.issubset(want):
                    problems.append('check_error `%s` examines positions %s '
                                    'outside the guard %s' % (
                                        norm_src(ce.fi.node), exam.describe(),
                                        want.describe()))
        ip = reg.cfg.get('input_parser')
        if ip is None:
            problems.append('default input_parser converts every argument with '
                            'float()')
        elif isinstance(ip, FuncV):
            g = ip.fi
            # `lambda *a: a`, or a def whose whole body returns its *args
            body = g.node.body
            if not g.is_lambda:
                stmts = [st for st in body if not (
                    isinstance(st, ast.Expr) and isinstance(
                        st.value, ast.Constant))]
                body = stmts[0].value if len(stmts) == 1 and isinstance(
                    stmts[0], ast.Return) else None
            ident = bool(g.vararg) and not g.params and not g.kwonly and \
                isinstance(body, ast.Name) and body.id == g.vararg
            if not ident:
                problems.append('input_parser `%s` is not the identity' %
                                norm_src(g.node))
        if problems:
            rr.fail('%s::registration %s::lazy function evaluates branches' % (
                reg.module.rel, name),
                '%s: %s. A branch cut from a cycle carries the circular error; '
                'looking at it makes every result an error' % (
                    reg.key, '; '.join(problems)), file=reg.module.rel,
                function='FUNCTIONS[%r]' % name, line=reg.lineno)
        else:
            rr.ok('%s: check_error stays within the guard and arguments reach '
                  'the core unconverted' % reg.key, reg.site)
    return rr


def rule_err(ctx):
    rr = RuleResult('C10', 'C10.err', 'TAB',
                    'the circular error is a module-level XlError instance',
                    floor=1)
    p = ctx.project
    m = p.module('formulas/excel/__init__.py')
    av = ctx.ev.module_env(m).get('ERR_CIRCULAR')
    xl = p.cls('formulas/tokens/operand.py', 'XlError')
    rr.instances += 1
    if isinstance(av, TokenV) and not isinstance(av.cls, str) and \
            p.is_subclass(av.cls, xl):
        rr.ok('ERR_CIRCULAR = %s(%r) is a module-level instance of a subclass '
              'of XlError' % (av.cls.name, av.text), m.rel)
    else:
        rr.fail('%s::ERR_CIRCULAR::not an XlError instance' % m.rel,
                'ERR_CIRCULAR is %r: get_error/iserror would not treat the '
                'circular marker as an error' % (av,), file=m.rel,
                function='ERR_CIRCULAR', line=1)
    # the marker written by solve_circular is this object
    sc = p.func(m.rel, 'ExcelModel.solve_circular')
    rr.instances += 1
    from ..util import nodes_with_helpers
    uses = [n for _g, n in nodes_with_helpers(ctx, sc)
            if isinstance(n, ast.Call)
            and call_name(n) in ('set_default_value', 'add_data')]
    if not uses:
        raise AnalysisError('C10.err: solve_circular (and its private '
                            'helpers) contain no marking call')
    ok = all(any(isinstance(a, ast.Name) and a.id == 'ERR_CIRCULAR'
                 for a in list(n.args) + [k.value for k in n.keywords])
             for n in uses)
    if ok:
        rr.ok('solve_circular marks cells and the CIRCULAR input with '
              'ERR_CIRCULAR', sc.module.rel)
    else:
        rr.fail(key_of(sc, 'marks with something else than ERR_CIRCULAR'),
                'solve_circular does not mark unavoidable cycles with the '
                'ERR_CIRCULAR singleton', file=sc.module.rel,
                function=sc.qualname, line=sc.lineno)
    return rr


def _skip_in_helper(ctx, f, calls, inv):
    """The graph handed to simple_cycles comes from a private helper or
    property of the same class/module, and that helper subtracts a set built
    with isinstance(.., InvRangesAssembler) from what it returns or stores."""
    from ..util import with_helpers
    helpers = [g for g in with_helpers(ctx, f) if g is not f]
    if f.cls is not None:
        attrs = {n.attr for n in own_nodes(f) if isinstance(n, ast.Attribute)
                 and isinstance(n.value, ast.Name) and f.params and
                 n.value.id == f.params[0]}
        for g in f.module.all_funcs:
            if g.cls is f.cls and g.name in attrs and g not in helpers and any(
                    isinstance(d, ast.Name) and d.id in (
                        'property', 'cached_property') or isinstance(
                        d, ast.Attribute) and d.attr in (
                        'property', 'cached_property')
                    for d in g.decorators()):
                helpers.append(g)
    for g in helpers:
        names = set()
        for n in own_nodes(g):
            if isinstance(n, ast.Assign) and len(n.targets) == 1 and \
                    isinstance(n.targets[0], ast.Name) and any(
                    isinstance(c, ast.Call) and isinstance(c.func, ast.Name)
                    and c.func.id == 'isinstance' and len(c.args) == 2 and (
                        ctx.cg.resolve_name_expr(g, c.args[1]) or (None, None)
                    )[1] is inv for c in ast.walk(n.value)):
                names.add(n.targets[0].id)
        if not names:
            continue
        used = any(isinstance(n, (ast.Assign, ast.Return)) and n.value is not
                   None and any(isinstance(x, ast.BinOp) and isinstance(
                       x.op, ast.Sub) and isinstance(x.right, ast.Name) and
                       x.right.id in names for x in ast.walk(n.value))
                   for n in own_nodes(g))
        if not used:
            continue
        # the graph argument mentions the helper
        for c in calls:
            for a in c.args[:1]:
                srcs = [a]
                if isinstance(a, ast.Name):
                    srcs += [n.value for n in own_nodes(f) if isinstance(
                        n, ast.Assign) and any(isinstance(t, ast.Name) and
                                               t.id == a.id for t in n.targets)]
                for e in srcs:
                    for x in ast.walk(e):
                        if isinstance(x, ast.Attribute) and x.attr == g.name \
                                or isinstance(x, ast.Name) and x.id == g.name:
                            return True
    return False


def rule_skip(ctx):
    rr = RuleResult('C10', 'C10.skip', 'SIB',
                    'both cycle analyses exclude inverse assemblers', floor=2)
    p = ctx.project
    inv = p.cls('formulas/cell.py', 'InvRangesAssembler')
    for rel, q in (('formulas/excel/__init__.py', 'ExcelModel.solve_circular'),
                   ('formulas/cell.py', 'CellWrapper.check_cycles')):
        f = p.func(rel, q)
        rr.instances += 1
        calls = [n for n in own_nodes(f) if isinstance(n, ast.Call)
                 and call_name(n) == 'simple_cycles']
        if not calls:
            raise AnalysisError('%s: no call of simple_cycles' % f.fq)
        skip_names = set()
        for n in own_nodes(f):
            if isinstance(n, ast.Assign) and len(n.targets) == 1 and isinstance(
                    n.targets[0], ast.Name) and isinstance(
                    n.value, (ast.SetComp, ast.ListComp, ast.GeneratorExp)):
                for c in ast.walk(n.value):
                    if isinstance(c, ast.Call) and isinstance(
                            c.func, ast.Name) and c.func.id == 'isinstance' \
                            and len(c.args) == 2:
                        r = ctx.cg.resolve_name_expr(f, c.args[1])
                        if r and r[0] == 'class' and r[1] is inv:
                            skip_names.add(n.targets[0].id)
        # ... or written directly into the call: simple_cycles(g, skip_nodes={..})
        inline_skip = False
        for c in calls:
            for a in list(c.args) + [k.value for k in c.keywords]:
                for x in ast.walk(a):
                    if isinstance(x, (ast.SetComp, ast.ListComp,
                                      ast.GeneratorExp)) and any(
                            isinstance(y, ast.Call) and isinstance(
                                y.func, ast.Name) and y.func.id == 'isinstance'
                            and len(y.args) == 2 and (
                                ctx.cg.resolve_name_expr(f, y.args[1]) or
                                (None, None))[1] is inv for y in ast.walk(x)):
                        inline_skip = True
        if inline_skip:
            rr.ok('%s removes InvRangesAssembler nodes before enumerating '
                  'cycles' % q, '%s:%d' % (f.module.rel, calls[0].lineno))
            continue
        # ... or filled in a loop: `if isinstance(x, InvRangesAssembler): S.add(k)`
        for n in own_nodes(f):
            if isinstance(n, ast.If) and any(
                    isinstance(c, ast.Call) and isinstance(c.func, ast.Name)
                    and c.func.id == 'isinstance' and len(c.args) == 2 and (
                        ctx.cg.resolve_name_expr(f, c.args[1]) or (None, None)
                    )[1] is inv for c in ast.walk(n.test)):
                for s_ in n.body:
                    for c in ast.walk(s_):
                        if isinstance(c, ast.Call) and call_name(c) in (
                                'add', 'append') and isinstance(
                                c.func.value, ast.Name):
                            skip_names.add(c.func.value.id)
        if not skip_names and _skip_in_helper(ctx, f, calls, inv):
            rr.ok('%s takes its graph from a helper that removes '
                  'InvRangesAssembler nodes' % q,
                  '%s:%d' % (f.module.rel, calls[0].lineno))
            continue
        if not skip_names:
            rr.fail(key_of(f, 'inverse assemblers not excluded'),
                    '%s no longer computes the set of InvRangesAssembler nodes: '
                    'the settable back-links of every range count as cycles' % q,
                    file=f.module.rel, function=f.qualname, line=f.lineno)
            continue
        used = False
        for c in calls:
            names = {x.id for a in list(c.args) + [k.value for k in c.keywords]
                     for x in ast.walk(a) if isinstance(x, ast.Name)}
            if names & skip_names:
                used = True
            # or the graph argument was built by subtracting the skip set
            for a in c.args[:1]:
                if isinstance(a, ast.Name):
                    for n in own_nodes(f):
                        # `g = {... - skip}` or, filled in a loop,
                        # `g[v] = set(nbrs) - skip`
                        if isinstance(n, ast.Assign) and any(
                                (isinstance(t, ast.Name) and t.id == a.id) or (
                                    isinstance(t, ast.Subscript) and isinstance(
                                        t.value, ast.Name) and
                                    t.value.id == a.id)
                                for t in n.targets):
                            if {x.id for x in ast.walk(n.value)
                                    if isinstance(x, ast.Name)} & skip_names:
                                used = True
        if used:
            rr.ok('%s removes InvRangesAssembler nodes before enumerating '
                  'cycles' % q, '%s:%d' % (f.module.rel, calls[0].lineno))
        else:
            rr.fail(key_of(f, 'skip set unused'),
                    '%s computes the InvRangesAssembler set but does not '
                    'remove it from the graph given to simple_cycles' % q,
                    file=f.module.rel, function=f.qualname,
                    line=calls[0].lineno)
    return rr


ORD_SCOPE = [('formulas/excel/__init__.py', 'ExcelModel.solve_circular'),
             ('formulas/excel/__init__.py', '_check_cycles'),
             ('formulas/excel/__init__.py', '_check_range_all_cycles'),
             ('formulas/cell.py', 'CellWrapper.check_cycles')]


def rule_ord(ctx, scope_funcs=None, prop='C10', rule='C10.ord', floor=4):
    rr = RuleResult(prop, rule, 'ORD',
                    'a choice made from a hash-ordered collection does not '
                    'escape', floor=floor)
    p = ctx.project
    oa = OrderAnalysis(ctx)
    if scope_funcs is None:
        # the two entry points of the cycle analysis and whatever package
        # functions they call (their helpers may be renamed or moved)
        roots = [p.func(rel, q) for rel, q in ORD_SCOPE[:1] + ORD_SCOPE[-1:]]
        scope_funcs = list(roots)
        work = [(r, 0) for r in roots]
        while work:
            g, d = work.pop()
            if d >= 2:
                continue
            for e in ctx.cg.out(g):
                if e.is_ext or e.kind not in ('call', 'ref') or \
                        e.precision != 'exact' or e.dst.name == '__init__':
                    continue
                if e.dst not in scope_funcs and (
                        e.dst.module.rel.startswith('formulas/excel/')):
                    scope_funcs.append(e.dst)
                    work.append((e.dst, d + 1))
        for g in p.module('formulas/excel/cycle.py').all_funcs:
            if g not in scope_funcs:
                scope_funcs.append(g)
    for f in scope_funcs:
        sites, finds = oa.analyse(f)
        for s in sites:
            rr.instances += 1
            if 'ESCAPES' in s['verdict'] or s['verdict'] == 'UNGUARDED':
                continue
            rr.ok('%s: %s `%s`: %s' % (
                f.qualname, s['kind'], s.get('iter') or s.get('expr'),
                s['verdict']), '%s:%d' % (f.module.rel, s['line']))
        for x in finds:
            rr.fail('%s::%s::order-dependent choice from `%s`' % (
                f.module.rel, f.qualname, x['iter']),
                '%s iterates the hash-ordered `%s` and %s: the outcome '
                'depends on PYTHONHASHSEED / insertion order' % (
                    f.qualname, x['iter'], x['why']),
                file=f.module.rel, function=f.qualname, line=x['line'])
    return rr


CYCLE = 'formulas/excel/cycle.py'
EXCEL = 'formulas/excel/__init__.py'
_MUT = {'append', 'extend', 'pop', 'add', 'discard', 'remove', 'update',
        'clear', 'insert', 'setdefault', 'popitem', 'subtract'}


def _root_name(e):
    while isinstance(e, (ast.Subscript, ast.Attribute, ast.Call)):
        e = e.func if isinstance(e, ast.Call) else e.value
    return e.id if isinstance(e, ast.Name) else None


def _mutated_names(ctx, fi, root):
    """Local names whose object is mutated somewhere under `root`."""
    E = ctx.effects
    out = {}
    for n in ast.walk(root):
        if isinstance(n, ast.Call) and isinstance(n.func, ast.Attribute) and \
                n.func.attr in _MUT:
            r = _root_name(n.func.value)
            if r:
                out.setdefault(r, n)
        if isinstance(n, (ast.Assign, ast.AugAssign, ast.Delete)):
            tg = n.targets if not isinstance(n, ast.AugAssign) else [n.target]
            for t in tg:
                if isinstance(t, (ast.Subscript, ast.Attribute)):
                    r = _root_name(t)
                    if r:
                        out.setdefault(r, n)
        if isinstance(n, ast.Call) and isinstance(n.func, (ast.Name,
                                                           ast.Attribute)):
            r = ctx.cg.resolve_name_expr(fi, n.func)
            if r and r[0] in ('func', 'nested'):
                g = r[1]
                sm = E.summ.get(g.fq)
                if sm:
                    for i, a in enumerate(n.args):
                        if i < len(g.params) and g.params[i] in sm.mutates:
                            rn = _root_name(a)
                            if rn:
                                out.setdefault(rn, n)
    return out


def rule_fresh(ctx):
    rr = RuleResult('C10', 'C10.fresh', 'DEF',
                    'the search state of the cycle enumeration is created anew '
                    'for every start node', floor=4)
    p = ctx.project
    f = p.func(CYCLE, 'simple_cycles')
    outer = [n for n in f.node.body if isinstance(n, ast.While)]
    if len(outer) != 1:
        raise AnalysisError('simple_cycles: component loop not recognised')
    outer = outer[0]
    inner = [n for n in outer.body if isinstance(n, ast.While)]
    if not inner:
        # the search of one start node may live in a generator of its own:
        # `yield from _circuits_from(graph, startnode)`
        dele = [n.value.value for n in outer.body if isinstance(
            n, ast.Expr) and isinstance(n.value, ast.YieldFrom) and
            isinstance(n.value.value, ast.Call)]
        if len(dele) == 1:
            r_ = ctx.cg.resolve_name_expr(f, dele[0].func) if isinstance(
                dele[0].func, (ast.Name, ast.Attribute)) else None
            if r_ and r_[0] == 'func' and r_[1].module is f.module:
                h = r_[1]
                hin = [n for n in h.node.body if isinstance(n, ast.While)]
                if len(hin) == 1 and not any(isinstance(
                        a, ast.Starred) for a in dele[0].args) and \
                        not dele[0].keywords:
                    bound = dict(zip(h.params, dele[0].args))
                    for name, where in sorted(_mutated_names(
                            ctx, h, hin[0]).items()):
                        rr.instances += 1
                        if name not in h.all_params:
                            own = [n for n in ast.walk(h.node) if isinstance(
                                n, ast.Name) and n.id == name and isinstance(
                                n.ctx, ast.Store)]
                            if own:
                                rr.ok('`%s` (mutated by the search at line '
                                      '%d) is created by %s, once per start '
                                      'node' % (name, where.lineno, h.name),
                                      '%s:%d' % (CYCLE, own[0].lineno))
                                continue
                            raise AnalysisError(
                                'simple_cycles: origin of the search state '
                                '`%s` in %s not recognised' % (name, h.name))
                        a = bound.get(name)
                        made = isinstance(a, ast.Name) and any(
                            isinstance(n, ast.Name) and n.id == a.id and
                            isinstance(n.ctx, ast.Store)
                            for n in ast.walk(outer))
                        if made:
                            rr.ok('`%s` (mutated by the search in %s) is '
                                  'created in the per-component loop and '
                                  'handed over' % (name, h.name),
                                  '%s:%d' % (CYCLE, outer.lineno))
                        else:
                            rr.fail(
                                key_of(f, 'search state carried across start '
                                          'nodes'),
                                'simple_cycles hands `%s` to %s, which mutates '
                                'it during the search (line %d), but creates '
                                'it outside the per-component loop: blocking '
                                'information recorded for one start node is '
                                'still in force for the next' % (
                                    norm_src(a) if a is not None else name,
                                    h.name, where.lineno), file=CYCLE,
                                function=f.qualname, line=where.lineno)
                    return rr
    if len(inner) != 1:
        raise AnalysisError('simple_cycles: search loop not recognised')
    inner = inner[0]
    mutated = _mutated_names(ctx, f, inner)
    params = set(f.all_params)
    for name, where in sorted(mutated.items()):
        rr.instances += 1
        inside = [n for n in ast.walk(outer) if isinstance(n, ast.Name) and
                  n.id == name and isinstance(n.ctx, ast.Store)]
        cleared = any(isinstance(s, ast.Expr) and isinstance(s.value, ast.Call)
                      and call_name(s.value) == 'clear' and
                      _root_name(s.value.func) == name for s in outer.body)
        if inside or cleared:
            rr.ok('`%s` (mutated by the search at line %d) is (re)created in '
                  'the per-component loop' % (name, where.lineno),
                  '%s:%d' % (CYCLE, inside[0].lineno if inside else
                             outer.lineno))
        else:
            rr.fail(key_of(f, 'search state `%s` survives the start node'
                           % name) if False else
                    key_of(f, 'search state carried across start nodes'),
                    'simple_cycles mutates `%s` inside the search loop (line '
                    '%d) but creates it outside the per-component loop: '
                    'blocking information recorded for one start node is '
                    'still in force for the next, so elementary cycles are '
                    'skipped or reported more than once' % (
                        name, where.lineno), file=CYCLE, function=f.qualname,
                    line=where.lineno)
    return rr


def rule_accum(ctx):
    rr = RuleResult('C10', 'C10.accum', 'DEF',
                    'cut inputs found for one cycle are added to, never '
                    'replace, those found for earlier cycles', floor=1)
    p = ctx.project
    sc = p.func(EXCEL, 'ExcelModel.solve_circular')
    # accumulators: dicts created before a loop, passed to a package function
    # inside the loop, read after it
    loops = [n for n in sc.node.body if isinstance(n, ast.For)]
    found = 0
    for lp in loops:
        for c in ast.walk(lp):
            if not (isinstance(c, ast.Call) and isinstance(
                    c.func, (ast.Name, ast.Attribute))):
                continue
            r = ctx.cg.resolve_name_expr(sc, c.func)
            args = list(c.args)
            if r and r[0] == 'ext' and r[1] == 'functools.partial' and args \
                    and isinstance(args[0], (ast.Name, ast.Attribute)):
                r = ctx.cg.resolve_name_expr(sc, args[0])
                args = args[1:]
            if r is None and args is not None and len(args) == len(c.args):
                # self.helper(...) / cls.helper(...): the call graph's callee
                eds = [e for e in ctx.cg._resolve_callee(sc, c.func, c, 'call')
                       if not e.is_ext and e.precision == 'exact']
                if len(eds) == 1:
                    r = ('func', eds[0].dst)
            if not (r and r[0] == 'func'):
                continue
            g = r[1]
            gparams = list(g.params)
            if g.cls is not None and g.parent is None and gparams and not any(
                    isinstance(d, ast.Name) and d.id == 'staticmethod'
                    for d in g.decorators()):
                gparams = gparams[1:]  # bound method: self / cls is implicit
            bound = [(gparams[i], a) for i, a in enumerate(args)
                     if i < len(gparams)]
            bound += [(k.arg, k.value) for k in c.keywords
                      if k.arg in g.all_params]
            for prm, a in bound:
                if not isinstance(a, ast.Name):
                    continue
                created = any(isinstance(t, ast.Name) and t.id == a.id and
                              isinstance(v, ast.Dict) and t.lineno < lp.lineno
                              for t, v, _ in _pairs(sc))
                used_after = any(isinstance(x, ast.Name) and x.id == a.id and
                                 x.lineno > lp.end_lineno
                                 for x in own_nodes(sc))
                if not (created and used_after):
                    continue
                found += 1
                rr.instances += 1
                # names the parameter may be rebound to (`mod = {} if mod is
                # None else mod`)
                bad = None
                for n in own_nodes(g):
                    if isinstance(n, ast.Assign):
                        for t in n.targets:
                            if isinstance(t, ast.Subscript) and \
                                    _root_name(t) == prm and isinstance(
                                    t.value, ast.Name):
                                if not _guarded_new_key(g, n, prm, t):
                                    bad = n
                # ... and the callee does not decide from what earlier calls
                # stored there
                peek = None
                for n in own_nodes(g):
                    if isinstance(n, ast.Subscript) and isinstance(
                            n.ctx, ast.Load) and isinstance(
                            n.value, ast.Name) and n.value.id == prm:
                        peek = peek or n
                    if isinstance(n, ast.Call) and isinstance(
                            n.func, ast.Attribute) and n.func.attr in (
                            'get', 'items', 'values', 'keys') and isinstance(
                            n.func.value, ast.Name) and n.func.value.id == prm:
                        peek = peek or n
                    if isinstance(n, ast.If) and any(
                            isinstance(c, ast.Compare) and any(
                                isinstance(o, (ast.In, ast.NotIn))
                                for o in c.ops) and any(
                                isinstance(x, ast.Name) and x.id == prm
                                for x in c.comparators)
                            for c in ast.walk(n.test)) and any(
                            isinstance(r_, ast.Return)
                            for s_ in n.body + n.orelse
                            for r_ in ast.walk(s_)):
                        peek = peek or n
                if peek is not None and bad is None:
                    rr.fail(key_of(g, 'decides from the accumulated map'),
                            '%s reads `%s` (`%s`, line %d), the mapping %s '
                            'fills over all cycles, to produce its answer: '
                            'what an earlier cycle stored for this node is '
                            'taken for the current cycle, which is then '
                            'treated as opened although none of its own '
                            'edges was cut' % (
                                g.qualname, prm, norm_src(peek)[:50]
                                if not isinstance(peek, ast.If) else
                                norm_src(peek.test)[:50], peek.lineno,
                                sc.qualname),
                            file=g.module.rel, function=g.qualname,
                            line=peek.lineno)
                    continue
                if bad is None:
                    rr.ok('%s only adds to the entries of `%s` (the mapping '
                          '%s collects over all cycles)' % (
                              g.qualname, prm, sc.qualname),
                          '%s:%d' % (g.module.rel, g.lineno))
                else:
                    rr.fail(key_of(g, 'overwrites an accumulated entry'),
                            '%s executes `%s`: it replaces what earlier calls '
                            'stored under the same key in the mapping that %s '
                            'fills over all cycles. A function node that lies '
                            'on several cycles keeps only the inputs cut for '
                            'the last one, the other cycles stay closed' % (
                                g.qualname, norm_src(bad), sc.qualname),
                            file=g.module.rel, function=g.qualname,
                            line=bad.lineno)
    if not found:
        raise AnalysisError('solve_circular: no mapping accumulated over the '
                            'cycles found')
    return rr


def _pairs(f):
    from ..util import assign_pairs
    return assign_pairs(f)


def _guarded_new_key(g, assign, prm, target):
    """`if k not in prm: prm[k] = ...` - writing a new key only."""
    key = norm_src(target.slice)
    for n in own_nodes(g):
        if isinstance(n, ast.If) and any(x is assign for s in n.body
                                         for x in ast.walk(s)):
            t = n.test
            if isinstance(t, ast.Compare) and len(t.ops) == 1 and isinstance(
                    t.ops[0], ast.NotIn) and norm_src(t.left) == key and \
                    norm_src(t.comparators[0]) == prm:
                return True
    return False


def _fresh_set(e):
    """An expression that builds a new set on every evaluation."""
    if isinstance(e, (ast.Set, ast.SetComp)):
        return True
    if isinstance(e, ast.Call) and isinstance(e.func, ast.Name) and \
            e.func.id in ('set', 'frozenset'):
        return True
    if isinstance(e, ast.BinOp) and isinstance(
            e.op, (ast.Sub, ast.BitAnd, ast.BitOr, ast.BitXor)):
        return _fresh_set(e.left) or _fresh_set(e.right)
    if isinstance(e, ast.Call) and isinstance(e.func, ast.Attribute) and \
            e.func.attr in ('difference', 'union', 'intersection', 'copy',
                            'symmetric_difference') and not e.keywords:
        return True
    return False


def rule_consume(ctx):
    rr = RuleResult('C10', 'C10.consume', 'DEF',
                    'a graph handed to simple_cycles without copy is owned by '
                    'the caller: built in the same call, successor sets '
                    'included', floor=1)
    p = ctx.project
    sc = p.func(CYCLE, 'simple_cycles')
    if len(sc.params) < 2:
        raise AnalysisError('simple_cycles: parameters not recognised')
    for rel, q in (('formulas/excel/__init__.py', 'ExcelModel.solve_circular'),
                   ('formulas/cell.py', 'CellWrapper.check_cycles')):
        f = p.func(rel, q)
        for c in [n for n in own_nodes(f) if isinstance(n, ast.Call)
                  and call_name(n) == 'simple_cycles']:
            cp = c.args[1] if len(c.args) > 1 else kwarg(c, sc.params[1])
            sk = c.args[2] if len(c.args) > 2 else (
                kwarg(c, sc.params[2]) if len(sc.params) > 2 else None)
            if not (isinstance(cp, ast.Constant) and not cp.value) or \
                    sk is not None or not c.args:
                continue  # simple_cycles works on its own copy
            rr.instances += 1
            g = c.args[0]
            where = dict(file=f.module.rel, function=f.qualname, line=c.lineno)
            if not isinstance(g, ast.Name) or g.id in f.all_params:
                rr.fail(key_of(f, 'shared graph consumed'),
                        '%s hands `%s` to simple_cycles with copy off: the '
                        'enumeration deletes nodes and edges of a graph it does '
                        'not own' % (q, norm_src(g)), **where)
                continue
            binds = [n for n in own_nodes(f) if isinstance(n, ast.Assign) and
                     any(isinstance(t, ast.Name) and t.id == g.id
                         for t in n.targets)]
            items = [n for n in own_nodes(f) if isinstance(n, ast.Assign) and
                     any(isinstance(t, ast.Subscript) and isinstance(
                         t.value, ast.Name) and t.value.id == g.id
                         for t in n.targets)]
            if len(binds) != 1:
                raise AnalysisError('%s: binding of the graph `%s` not '
                                    'recognised' % (f.fq, g.id))
            v = binds[0].value
            shallow = None
            if isinstance(v, ast.Call) and isinstance(
                    v.func, ast.Attribute) and v.func.attr == 'copy' and \
                    not v.args:
                shallow = v.func.value
            elif isinstance(v, ast.Call) and isinstance(v.func, ast.Name) and \
                    v.func.id == 'dict' and len(v.args) == 1 and \
                    not v.keywords and not isinstance(
                        v.args[0], (ast.GeneratorExp, ast.ListComp)):
                shallow = v.args[0]
            elif isinstance(v, ast.Call) and call_name(v) == 'copy' and \
                    len(v.args) == 1:
                shallow = v.args[0]
            elif isinstance(v, ast.Dict) and v.keys and all(
                    k is None for k in v.keys):
                shallow = v.values[0]
            if shallow is not None or isinstance(v, (ast.Attribute,
                                                     ast.Subscript)):
                rr.fail(key_of(f, 'shared graph consumed'),
                        '%s hands `%s = %s` to simple_cycles with copy off: '
                        'the successor sets are those of `%s`, and the '
                        'enumeration empties them (every node is removed from '
                        'every set) - the next analysis of the same cell sees '
                        'no edges' % (q, g.id, norm_src(v), norm_src(
                            shallow if shallow is not None else v)), **where)
                continue
            vals = []
            if isinstance(v, ast.DictComp):
                vals.append(v.value)
            elif isinstance(v, ast.Dict) and all(k is not None for k in v.keys):
                vals.extend(v.values)
            elif isinstance(v, ast.Call) and isinstance(
                    v.func, ast.Name) and v.func.id == 'dict' and not v.args \
                    and not v.keywords:
                pass
            else:
                raise AnalysisError('%s: construction of the graph `%s` not '
                                    'recognised' % (f.fq, g.id))
            vals.extend(n.value for n in items)
            if not vals:
                raise AnalysisError('%s: graph `%s` has no successor sets'
                                    % (f.fq, g.id))
            shared = [x for x in vals if not _fresh_set(x)]
            if shared:
                rr.fail(key_of(f, 'shared graph consumed'),
                        '%s builds the graph `%s` with the successor '
                        'collection `%s`, which is not a new set: '
                        'simple_cycles(copy off) removes nodes from it' % (
                            q, g.id, norm_src(shared[0])), **where)
            else:
                rr.ok('%s builds `%s` and each of its successor sets anew '
                      'before handing it over with copy off' % (q, g.id),
                      '%s:%d' % (f.module.rel, c.lineno))
    return rr


def rule_scc(ctx):
    rr = RuleResult('C10', 'C10.scc', 'DEF',
                    'every strongly connected component is searched, one-node '
                    'components (self references) included', floor=2)
    p = ctx.project
    f = p.func(CYCLE, 'simple_cycles')
    work = None
    for n in f.node.body:
        if isinstance(n, ast.While) and isinstance(n.test, ast.Name):
            work = n.test.id
    if work is None:
        raise AnalysisError('simple_cycles: component work-list not recognised')
    feeds = []
    for n in own_nodes(f):
        if isinstance(n, ast.Assign) and any(isinstance(
                t, ast.Name) and t.id == work for t in n.targets):
            feeds.append(n.value)
        elif isinstance(n, ast.AugAssign) and isinstance(
                n.target, ast.Name) and n.target.id == work:
            feeds.append(n.value)
        elif isinstance(n, ast.Call) and isinstance(
                n.func, ast.Attribute) and n.func.attr in (
                'extend', 'append', 'update') and isinstance(
                n.func.value, ast.Name) and n.func.value.id == work and n.args:
            feeds.append(n.args[0])
    if not feeds:
        raise AnalysisError('simple_cycles: nothing feeds the work-list')

    def is_scc(e):
        return isinstance(e, ast.Call) and isinstance(
            e.func, ast.Name) and e.func.id == '_strongly_connected_components'

    for e in feeds:
        rr.instances += 1
        inner = e
        while isinstance(inner, ast.Call) and isinstance(
                inner.func, ast.Name) and inner.func.id in (
                'list', 'tuple', 'iter', 'reversed') and len(inner.args) == 1:
            inner = inner.args[0]
        if is_scc(inner):
            rr.ok('the work-list receives every component of `%s`'
                  % norm_src(inner), '%s:%d' % (CYCLE, e.lineno))
            continue
        flt = None
        if isinstance(inner, (ast.ListComp, ast.GeneratorExp, ast.SetComp)) \
                and len(inner.generators) == 1 and is_scc(
                    inner.generators[0].iter) and inner.generators[0].ifs:
            flt = inner.generators[0].ifs[0]
        elif isinstance(inner, ast.Call) and isinstance(
                inner.func, ast.Name) and inner.func.id == 'filter' and \
                len(inner.args) == 2 and is_scc(inner.args[1]):
            flt = inner.args[0]
        if flt is not None and all(
                isinstance(x, ast.Call) and isinstance(x.func, ast.Name) and
                x.func.id == 'len' for x in ast.walk(flt)
                if isinstance(x, ast.Call)) and any(
                isinstance(x, ast.Call) for x in ast.walk(flt)) and any(
                isinstance(x, ast.Constant) and x.value in (1, 2)
                for x in ast.walk(flt)):
            rr.fail(key_of(f, 'components selected by size'),
                    'simple_cycles keeps only the components with `%s`: a '
                    'node that refers to itself is a component of one node '
                    'and an elementary cycle, and is no longer reported'
                    % norm_src(flt), file=CYCLE, function=f.qualname,
                    line=e.lineno)
            continue
        raise AnalysisError('simple_cycles: work-list fed with `%s`, not '
                            'recognised' % norm_src(e)[:80])
    return rr


def run(ctx):
    S = ctx.soft
    return [S(rule_lazy, ctx), S(rule_err, ctx), S(rule_skip, ctx), S(rule_ord, ctx),
            S(rule_fresh, ctx), S(rule_accum, ctx), S(rule_consume, ctx),
            S(rule_scc, ctx)]
