"""C02 - operator table wiring, error-first evaluation, type rank, funnels (structural clauses)."""
import ast

from ..model import AnalysisError, own_nodes, norm_src
from ..peval import FuncV, Ext, CallV, DictV, Const, is_const
from ..report import RuleResult
from ..cfg import CFG
from ..effects import Exceptions
from ..util import key_of, src, call_name
from ..registry import FUNCS_REL
from .common import ret_exprs

META = {
    'decides': (
        'C02, structural clauses only: (optable) every arithmetic and '
        'comparison key of the operator table is wired to the matching Python '
        'primitive with the operands in order, division is guarded by a test '
        'on the divisor yielding #DIV/0!; (errfirst) these operators go through '
        'the element wrapper with the default error check, which is evaluated '
        'before the core and returns the left-most error; (rank) the type rank '
        'used by comparisons orders number < text < logical, tests bool before '
        'the other kinds and keeps error values out of the text rank, and the '
        'comparison parser pairs each operand with its rank; (funnel) element '
        'results pass the non-finite funnel and ValueError/TypeError map to '
        '#VALUE!, FoundError to its payload; (pow) a float power in an operator '
        'core is guarded against complex results, overflow and zero division; '
        ' (nomut) no operator core, parser, wrapper or shared helper '
        ' (replace_empty, ...) writes in place to an operand it received, so '
        'evaluating an operator cannot change what the next one sees.'
        ' (memo) no memoised helper on an operator path - lru_cache or hand-written dict keyed by raw values - depends on whether a value is a logical or a number.'
        ' (pow, math.pow) a float power written with math.pow is guarded like `**`: a negative base is tested or the ValueError is caught in the core.'),
    'not_decided': (
        'Coercion of numeric text and blanks, the display form used by &, '
        'case-insensitive text comparison and numeric values.'),
    'trusted_base': ['CPython ast', 'Python float ** semantics (complex '
                     'result for negative base and fractional exponent, '
                     'OverflowError, ZeroDivisionError)'],
    'assumptions': [],
}

OPS_REL = 'formulas/functions/operators.py'
BINOPS = {'+': ast.Add, '-': ast.Sub, '*': ast.Mult, '/': ast.Div, '^': ast.Pow}
CMPOPS = {'>=': ast.GtE, '<=': ast.LtE, '<>': ast.NotEq, '<': ast.Lt,
          '>': ast.Gt, '=': ast.Eq}
OPMOD = {'+': 'add', '-': 'sub', '*': 'mul', '/': 'truediv', '^': 'pow',
         '>=': 'ge', '<=': 'le', '<>': 'ne', '<': 'lt', '>': 'gt', '=': 'eq',
         'U-': 'neg', 'U+': 'pos'}


def _params_in_order(f, e, n):
    """e is a BinOp/Compare on the first two parameters of f in order."""
    ps = f.params
    if len(ps) < n:
        return False
    if isinstance(e, ast.BinOp):
        l, r = e.left, e.right
    elif isinstance(e, ast.Compare) and len(e.ops) == 1:
        l, r = e.left, e.comparators[0]
    else:
        return False
    return isinstance(l, ast.Name) and isinstance(r, ast.Name) and \
        l.id == ps[0] and r.id == ps[1]


def _strip_paren(e):
    return e


def rule_optable(ctx):
    R = ctx.registry
    rr = RuleResult('C02', 'C02.optable', 'TAB',
                    'operator key -> Python primitive, operands in order',
                    floor=15)
    for key in ['+', '-', '*', '/', '^', '%', 'U-', 'U+', '&'] + list(CMPOPS):
        reg = R.operators.get(key)
        if reg is None:
            rr.fail('%s::OPERATORS::missing %s' % (OPS_REL, key),
                    'operator %r is not registered' % key, file=OPS_REL,
                    function='OPERATORS', line=1)
            continue
        rr.instances += 1
        core = reg.core
        where = reg.site
        if core.kind == 'ext':
            want = 'operator.%s' % OPMOD.get(key, '?')
            alt = 'operator.%s' % {'truediv': 'truediv'}.get(OPMOD.get(key), '')
            if core.ext in (want, '_operator.%s' % OPMOD.get(key, '?')) and \
                    key != '/':
                rr.ok('OPERATORS[%r] is %s' % (key, core.ext), where)
            else:
                rr.fail('%s::OPERATORS[%s]::wrong primitive' % (OPS_REL, key),
                        'OPERATORS[%r] is wired to %s' % (key, core.ext),
                        file=OPS_REL, function='OPERATORS[%r]' % key,
                        line=reg.lineno)
            continue
        if core.kind != 'func':
            raise AnalysisError('OPERATORS[%r]: core %s' % (key, core.describe()))
        f = core.fi
        rets = ret_exprs(f)
        problem = None
        if key in ('+', '-', '*', '&'):
            want = BINOPS['+'] if key == '&' else BINOPS[key]
            if not (len(rets) == 1 and isinstance(rets[0], ast.BinOp) and
                    isinstance(rets[0].op, want) and
                    _params_in_order(f, rets[0], 2)):
                problem = 'core `%s` is not `%s %s %s`' % (
                    norm_src(f.node)[:60], f.params[0] if f.params else 'x',
                    {'&': '+'}.get(key, key), 'y')
        elif key == '/':
            problem = _check_div(f, rets)
        elif key == '^':
            pows = [n for n in own_nodes(f) if isinstance(n, ast.BinOp)
                    and isinstance(n.op, ast.Pow)]
            nps = [n for n in own_nodes(f) if isinstance(n, ast.Call)
                   and ctx.cg.resolve_name_expr(f, n.func) in (
                       ('ext', 'numpy.power'), ('ext', 'math.pow'),
                       ('ext', 'numpy.float_power'))]
            if len(pows) == 1 and _params_in_order(f, pows[0], 2):
                pass
            elif len(nps) == 1 and len(nps[0].args) == 2 and all(
                    isinstance(a, ast.Name) for a in nps[0].args) and \
                    [a.id for a in nps[0].args] == f.params[:2]:
                pass
            else:
                problem = 'core does not raise the first operand to the ' \
                          'power of the second'
        elif key == '%':
            ok = len(rets) == 1 and isinstance(rets[0], ast.BinOp) and \
                isinstance(rets[0].op, ast.Div) and isinstance(
                rets[0].left, ast.Name) and rets[0].left.id == f.params[0] and \
                isinstance(rets[0].right, ast.Constant) and \
                rets[0].right.value == 100
            ok = ok or (len(rets) == 1 and isinstance(rets[0], ast.BinOp) and
                        isinstance(rets[0].op, ast.Mult) and isinstance(
                        rets[0].right, ast.Constant) and
                        rets[0].right.value == 0.01)
            if not ok:
                problem = 'core is not `x / 100`'
        elif key == 'U-':
            if not (len(rets) == 1 and isinstance(rets[0], ast.UnaryOp) and
                    isinstance(rets[0].op, ast.USub) and isinstance(
                    rets[0].operand, ast.Name) and
                    rets[0].operand.id == f.params[0]):
                problem = 'core is not `-x`'
        elif key == 'U+':
            e = rets[0] if len(rets) == 1 else None
            if isinstance(e, ast.UnaryOp) and isinstance(e.op, ast.UAdd):
                e = e.operand
            if not (isinstance(e, ast.Name) and e.id == f.params[0]):
                problem = 'core is not the identity'
        else:
            want = CMPOPS[key]
            if not (len(rets) == 1 and isinstance(rets[0], ast.Compare) and
                    len(rets[0].ops) == 1 and isinstance(rets[0].ops[0], want)
                    and _params_in_order(f, rets[0], 2)):
                problem = 'core `%s` is not `x %s y`' % (
                    norm_src(f.node)[:60], want.__name__)
        if problem:
            rr.fail('%s::OPERATORS[%s]::wrong primitive' % (OPS_REL, key),
                    'OPERATORS[%r]: %s' % (key, problem), file=f.module.rel,
                    function='OPERATORS[%r]' % key, line=f.lineno)
        else:
            rr.ok('OPERATORS[%r] -> `%s`' % (key, norm_src(
                f.node if f.is_lambda else rets[-1])[:60]), where)
    # the comparison table used by criteria is the same object set
    lo = R.logic_operators
    rr.instances += 1
    if isinstance(lo, DictV) and set(lo.keys()) == set(CMPOPS):
        # ordering matters for prefix matching in criteria: two-character
        # operators must come before their one-character prefixes
        keys = lo.keys()
        bad = [(a, b) for i, a in enumerate(keys) for b in keys[i + 1:]
               if b.startswith(a) and a != b]
        if bad:
            rr.fail('%s::LOGIC_OPERATORS::prefix order' % OPS_REL,
                    'LOGIC_OPERATORS lists %r before %r: criteria such as '
                    '">=3" are split at the shorter operator' % bad[0],
                    file=OPS_REL, function='LOGIC_OPERATORS', line=1)
        else:
            rr.ok('LOGIC_OPERATORS has the six comparisons, longer spellings '
                  'first', OPS_REL)
    else:
        rr.fail('%s::LOGIC_OPERATORS::keys' % OPS_REL,
                'LOGIC_OPERATORS does not hold exactly the six comparison '
                'operators', file=OPS_REL, function='LOGIC_OPERATORS', line=1)
    return rr


def _check_div(f, rets):
    if len(rets) != 1:
        return 'division core has %d returns' % len(rets)
    e = rets[0]
    y = f.params[1] if len(f.params) > 1 else None
    if not isinstance(e, ast.IfExp):
        return 'division is not guarded by a test on the divisor'
    test, a, b = e.test, e.body, e.orelse
    neg = False
    if isinstance(test, ast.UnaryOp) and isinstance(test.op, ast.Not):
        test, neg = test.operand, True
    if isinstance(test, ast.Compare) and len(test.ops) == 1 and isinstance(
            test.left, ast.Name) and test.left.id == y and isinstance(
            test.comparators[0], ast.Constant) and \
            test.comparators[0].value == 0:
        if isinstance(test.ops[0], ast.Eq):
            neg = not neg
        elif not isinstance(test.ops[0], ast.NotEq):
            return 'unrecognised divisor test'
    elif not (isinstance(test, ast.Name) and test.id == y):
        return 'the guard does not test the divisor `%s`' % y
    quot, err = (b, a) if neg else (a, b)
    if not (isinstance(quot, ast.BinOp) and isinstance(quot.op, ast.Div)
            and _params_in_order(f, quot, 2)):
        return 'non-zero branch is not `x / y`'
    if '#DIV/0!' not in norm_src(err):
        return 'zero-divisor branch does not yield #DIV/0!'
    return None


def rule_errfirst(ctx):
    R = ctx.registry
    rr = RuleResult('C02', 'C02.errfirst', 'WRAP/MPT',
                    'operators use the element wrapper with the default, '
                    'left-most error check, evaluated before the core',
                    floor=15)
    p = ctx.project
    for key in ['+', '-', '*', '/', '^', '%', 'U-', 'U+', '&'] + list(CMPOPS):
        reg = R.operators.get(key)
        if reg is None:
            continue
        rr.instances += 1
        ce = reg.cfg.get('check_error')
        default = ce is None or (isinstance(ce, FuncV) and
                                 ce.fi.name == 'get_error' and
                                 ce.fi.module.rel == FUNCS_REL)
        if not reg.has('wrap_ufunc'):
            rr.fail('%s::OPERATORS[%s]::not element-wise' % (OPS_REL, key),
                    'OPERATORS[%r] is not registered through wrap_ufunc '
                    '(chain: %s)' % (key, '>'.join(reg.chain_names)),
                    file=OPS_REL, function='OPERATORS[%r]' % key,
                    line=reg.lineno)
        elif not default:
            rr.fail('%s::OPERATORS[%s]::custom check_error' % (OPS_REL, key),
                    'OPERATORS[%r] overrides check_error (%r): an error '
                    'operand may not be returned unchanged' % (key, ce),
                    file=OPS_REL, function='OPERATORS[%r]' % key,
                    line=reg.lineno)
        else:
            rr.ok('OPERATORS[%r]: wrap_ufunc with default check_error' % key,
                  reg.site)
    wu = p.func(FUNCS_REL, 'wrap_ufunc')
    se = wu.nested.get('safe_eval')
    if se is None:
        raise AnalysisError('wrap_ufunc.safe_eval missing')
    rr.instances += 1
    chk = [n for n in own_nodes(se) if isinstance(n, ast.Call) and isinstance(
        n.func, ast.Name) and n.func.id == 'check_error']
    fun = [n for n in own_nodes(se) if isinstance(n, ast.Call) and isinstance(
        n.func, ast.Name) and n.func.id == 'func']
    if not chk or not fun:
        rr.fail(key_of(wu, 'safe_eval does not call check_error/func'),
                'safe_eval no longer calls check_error before the core',
                file=wu.module.rel, function=se.qualname, line=se.lineno)
    else:
        first = False
        for n in own_nodes(se):
            if isinstance(n, ast.BoolOp) and isinstance(n.op, ast.Or):
                idx_c = [i for i, v in enumerate(n.values)
                         if any(x is chk[0] for x in ast.walk(v))]
                idx_f = [i for i, v in enumerate(n.values)
                         if any(x is fun[0] for x in ast.walk(v))]
                if idx_c and idx_f and idx_c[0] < idx_f[0]:
                    first = True
        if not first:
            cfg = CFG(se)
            dom = cfg.dominators()
            cn, fn = cfg.node_of(chk[0]), cfg.node_of(fun[0])
            if cn is not None and fn is not None and cn is not fn and \
                    cfg.dominates(cn, fn, dom):
                # the check statement must be able to skip the core
                first = True
        if first:
            rr.ok('safe_eval evaluates check_error(*vals) before the core and '
                  'short-circuits on an error', '%s:%d' % (
                      wu.module.rel, chk[0].lineno))
        else:
            rr.fail(key_of(wu, 'core evaluated before the error check'),
                    'in safe_eval the core is evaluated before (or regardless '
                    'of) the error check: an error operand reaches the '
                    'arithmetic', file=wu.module.rel, function=se.qualname,
                    line=fun[0].lineno)
    # get_error returns the first error in argument order
    ge = p.func(FUNCS_REL, 'get_error')
    rr.instances += 1
    loops = [n for n in own_nodes(ge) if isinstance(n, ast.For)]
    ok = False
    for lp in loops:
        it = norm_src(lp.iter)
        if 'reversed' in it or 'sorted' in it or '[::-1]' in it:
            continue
        for s in ast.walk(lp):
            if isinstance(s, ast.If) and 'XlError' in norm_src(s.test) and any(
                    isinstance(b, ast.Return) and isinstance(
                        b.value, ast.Name) for b in s.body):
                ok = True
    # ... or the guard-clause form: `if not isinstance(v, XlError): continue`
    # followed by `return v`
    from ..util import path_conditions
    for lp in loops:
        it = norm_src(lp.iter)
        if 'reversed' in it or 'sorted' in it or '[::-1]' in it:
            continue
        for s in ast.walk(lp):
            if isinstance(s, ast.Return) and isinstance(s.value, ast.Name):
                for t, pol in path_conditions(ge, s):
                    if pol and 'XlError' in norm_src(t) and isinstance(
                            t, ast.Call) and call_name(t) == 'isinstance' and \
                            t.args and norm_src(t.args[0]) == s.value.id:
                        ok = True
    # ... or `next((v for v in <in order> if isinstance(v, XlError)), None)`
    for n in own_nodes(ge):
        if isinstance(n, ast.Call) and isinstance(n.func, ast.Name) and \
                n.func.id == 'next' and n.args and isinstance(
                n.args[0], ast.GeneratorExp):
            g = n.args[0]
            it = norm_src(g.generators[0].iter)
            if 'reversed' in it or 'sorted' in it or '[::-1]' in it:
                continue
            if isinstance(g.elt, ast.Name) and any(
                    'XlError' in norm_src(c) for c in g.generators[0].ifs):
                ok = True
    # ... or `next(filter(<XlError test>, <in order>), None)`
    for n in own_nodes(ge):
        if isinstance(n, ast.Call) and isinstance(n.func, ast.Name) and \
                n.func.id == 'next' and n.args and isinstance(
                n.args[0], ast.Call) and isinstance(
                n.args[0].func, ast.Name) and n.args[0].func.id == 'filter' \
                and len(n.args[0].args) == 2:
            pred, it_ = n.args[0].args
            it = norm_src(it_)
            if 'reversed' in it or 'sorted' in it or '[::-1]' in it:
                continue
            ptxt = norm_src(pred)
            if isinstance(pred, (ast.Name, ast.Attribute)):
                r_ = ctx.cg.resolve_name_expr(ge, pred)
                if r_ and r_[0] == 'func':
                    ptxt = norm_src(r_[1].node)
            if 'XlError' in ptxt and 'isinstance' in ptxt:
                ok = True
    # positive evidence of another order: the scan runs over a reordered
    # view, or keeps the *last* error (assigned in the loop, returned after)
    reordered = [n for n in own_nodes(ge) if isinstance(n, ast.Call) and (
        isinstance(n.func, ast.Name) and n.func.id in (
            'reversed', 'sorted', 'set', 'frozenset'))] + [
        n for n in own_nodes(ge) if isinstance(n, ast.Subscript) and
        norm_src(n.slice) == '::-1']
    last_wins = False
    for lp in loops:
        for s_ in ast.walk(lp):
            if isinstance(s_, ast.If) and 'XlError' in norm_src(s_.test) and \
                    not any(isinstance(b, (ast.Return, ast.Break))
                            for x in s_.body for b in ast.walk(x)) and any(
                    isinstance(b, ast.Assign) for b in s_.body):
                last_wins = True
    if ok:
        rr.ok('get_error scans the arguments in order and returns the first '
              'XlError', ge.module.rel)
    elif not (reordered or last_wins):
        raise AnalysisError('C02.errfirst: how get_error picks the error it '
                            'returns was not recognised')
    else:
        rr.fail(key_of(ge, 'does not return the first error in order'),
                'get_error no longer returns the first XlError found scanning '
                'the arguments left to right', file=ge.module.rel,
                function='get_error', line=ge.lineno)
    return rr


TYPE_FACTS = {
    # abstract operand kind -> names T for which isinstance(x, T) is true
    'bool': {'bool', 'int', 'object', 'builtins.bool', 'builtins.int',
             'numpy.bool_'},
    'npbool': {'numpy.bool_', 'object', 'numpy.generic'},
    'int': {'int', 'object', 'builtins.int', 'numbers.Number'},
    'float': {'float', 'object', 'builtins.float', 'numbers.Number'},
    'str': {'str', 'object', 'builtins.str', 'numpy.str_'},
    'error': {'str', 'object', 'builtins.str', 'XlError', 'schedula.Token',
              'Token'},
}


def rank_of(ctx, f, kind):
    """Abstractly run the rank function on an operand of the given kind."""
    p = ctx.project
    xl = p.cls('formulas/tokens/operand.py', 'XlError')
    facts = TYPE_FACTS[kind]

    def isinst(tnode):
        elts = tnode.elts if isinstance(tnode, ast.Tuple) else [tnode]
        for t in elts:
            r = ctx.cg.resolve_name_expr(f, t)
            if r and r[0] == 'ext' and (r[1] in facts or
                                        r[1].split('.')[-1] in facts and
                                        r[1].startswith('builtins.')):
                return True
            if r is None and isinstance(t, ast.Name) and t.id in facts:
                return True
            if r and r[0] == 'class' and (r[1] is xl or p.is_subclass(
                    r[1], xl)) and kind == 'error':
                return True
        return False

    def ev(e):
        if isinstance(e, ast.BoolOp):
            vals = [ev(v) for v in e.values]
            return all(vals) if isinstance(e.op, ast.And) else any(vals)
        if isinstance(e, ast.UnaryOp) and isinstance(e.op, ast.Not):
            return not ev(e.operand)
        if isinstance(e, ast.Call) and isinstance(e.func, ast.Name) and \
                e.func.id == 'isinstance' and len(e.args) == 2:
            return isinst(e.args[1])
        raise AnalysisError('%s: unrecognised test `%s`' % (f.fq, norm_src(e)))

    def run(body):
        for st in body:
            if isinstance(st, ast.If):
                r = run(st.body) if ev(st.test) else run(st.orelse)
                if r is not None:
                    return r
            elif isinstance(st, ast.Return):
                if isinstance(st.value, ast.Constant):
                    return st.value.value
                if isinstance(st.value, ast.IfExp):
                    e = st.value
                    while isinstance(e, ast.IfExp):
                        e = e.body if ev(e.test) else e.orelse
                    if isinstance(e, ast.Constant):
                        return e.value
                raise AnalysisError('%s: non-constant rank' % f.fq)
            elif isinstance(st, (ast.Expr, ast.Pass)):
                continue
            else:
                raise AnalysisError('%s: unrecognised statement' % f.fq)
        return None

    return run(f.node.body)


def rule_rank(ctx):
    rr = RuleResult('C02', 'C02.rank', 'TAB',
                    'type rank: number < text < logical; errors are not text',
                    floor=5)
    p = ctx.project
    f = p.func('formulas/functions/look.py', '_get_type_id')
    ranks = {k: rank_of(ctx, f, k) for k in TYPE_FACTS}
    rr.instances += len(ranks)
    checks = [
        (ranks['int'] == ranks['float'], 'int and float share one rank'),
        (ranks['bool'] == ranks['npbool'], 'bool and numpy.bool_ share one rank'),
        (ranks['int'] < ranks['str'], 'number ranks below text'),
        (ranks['str'] < ranks['bool'], 'text ranks below logical'),
        (ranks['error'] != ranks['str'], 'an error value (a str subclass) is '
                                          'not ranked as text'),
        (ranks['bool'] != ranks['int'], 'a logical (an int subclass) is not '
                                         'ranked as a number'),
    ]
    for ok, what in checks:
        if ok:
            rr.ok('%s (ranks %s)' % (what, ranks), f.module.rel)
        else:
            rr.fail(key_of(f, what + ' - violated'),
                    '_get_type_id: expected "%s" but the ranks are %s' % (
                        what, ranks), file=f.module.rel, function=f.qualname,
                    line=f.lineno)
    # the comparison parser pairs operand with its rank
    lp = p.func(OPS_REL, 'logic_input_parser')
    rr.instances += 1
    rets = ret_exprs(lp)
    ok = False
    if len(rets) == 1 and isinstance(rets[0], ast.Tuple) and len(
            rets[0].elts) == 2:
        ok = True
        for el, prm in zip(rets[0].elts, lp.params):
            if not (isinstance(el, ast.Tuple) and len(el.elts) == 2 and
                    isinstance(el.elts[0], ast.Call) and
                    ctx.cg.resolve_name_expr(lp, el.elts[0].func) == (
                        'func', f) and norm_src(el.elts[0].args[0]) == prm
                    and norm_src(el.elts[1]) == prm):
                ok = False
    if ok:
        rr.ok('logic_input_parser returns ((rank(x), x), (rank(y), y)): '
              'comparisons order by rank first', lp.module.rel)
    else:
        rr.fail(key_of(lp, 'operands not paired with their rank'),
                'logic_input_parser no longer returns each operand paired with '
                'its own type rank (rank first)', file=lp.module.rel,
                function=lp.qualname, line=lp.lineno)
    # comparison operators use this parser
    for key in CMPOPS:
        reg = ctx.registry.operators.get(key)
        if reg is None:
            continue
        rr.instances += 1
        from ..registry import undecorate
        ip = undecorate(reg.cfg.get('input_parser'))
        if isinstance(ip, FuncV) and ip.fi is lp:
            rr.ok('OPERATORS[%r] uses logic_input_parser' % key, reg.site)
        else:
            rr.fail('%s::OPERATORS[%s]::input parser' % (OPS_REL, key),
                    'comparison %r does not use the rank-pairing input parser'
                    % key, file=OPS_REL, function='OPERATORS[%r]' % key,
                    line=reg.lineno)
    return rr


def rule_funnel(ctx):
    rr = RuleResult('C02', 'C02.funnel', 'MPT',
                    'safe_eval handler table and non-finite funnel', floor=3)
    p = ctx.project
    wu = p.func(FUNCS_REL, 'wrap_ufunc')
    se = wu.nested['safe_eval']
    ex = Exceptions(ctx)
    tries = [n for n in own_nodes(se) if isinstance(n, ast.Try)]
    if len(tries) != 1:
        raise AnalysisError('safe_eval: expected one try')
    table = {}
    for h in tries[0].handlers:
        for c in ex.handler_classes(se, h):
            table[c.name] = ' '.join(norm_src(s) for s in h.body)
    rr.instances += 3
    if 'FoundError' in table and '.err' in table['FoundError']:
        rr.ok('FoundError -> payload', se.module.rel)
    else:
        rr.fail(key_of(wu, 'safe_eval: FoundError not mapped to payload'),
                'safe_eval does not turn FoundError into its payload',
                file=wu.module.rel, function=se.qualname, line=tries[0].lineno)
    for cname in ('ValueError', 'TypeError'):
        body = table.get(cname) or table.get('Exception')
        if body and '#VALUE!' in body:
            rr.ok('%s -> #VALUE!' % cname, se.module.rel)
        else:
            rr.fail(key_of(wu, 'safe_eval: %s not mapped to #VALUE!' % cname),
                    'safe_eval does not map %s (text in arithmetic) to '
                    '#VALUE!' % cname, file=wu.module.rel,
                    function=se.qualname, line=tries[0].lineno)
    # convert_nan guarded only by check_nan and the error/text exclusion
    conv = [n for n in own_nodes(se) if isinstance(n, ast.Call)
            and call_name(n) == 'convert_nan']
    rr.instances += 1
    if conv:
        rr.ok('results pass convert_nan (non-finite -> #NUM!)', se.module.rel)
    else:
        rr.fail(key_of(wu, 'safe_eval without convert_nan'),
                'safe_eval does not route results through convert_nan',
                file=wu.module.rel, function=se.qualname, line=se.lineno)
    cn = p.func(FUNCS_REL, 'convert_nan')
    rr.instances += 1
    d = cn.node.args.defaults
    if d and '#NUM!' in norm_src(d[-1]):
        rr.ok('convert_nan default is #NUM!', cn.module.rel)
    else:
        rr.fail(key_of(cn, 'default is not #NUM!'),
                'convert_nan does not default to #NUM!', file=cn.module.rel,
                function='convert_nan', line=cn.lineno)
    for key, reg in ctx.registry.operators.items():
        if not reg.has('wrap_ufunc'):
            continue
        rr.instances += 1
        v = reg.cfg.get('check_nan')
        if v is None or (is_const(v) and v.v):
            rr.ok('OPERATORS[%r] keeps the funnel on' % key, reg.site,
                  nontrivial=False)
        else:
            rr.fail('%s::OPERATORS[%s]::check_nan disabled' % (OPS_REL, key),
                    'OPERATORS[%r] disables the non-finite funnel' % key,
                    file=OPS_REL, function='OPERATORS[%r]' % key,
                    line=reg.lineno)
    return rr


def rule_pow(ctx):
    rr = RuleResult('C02', 'C02.pow', 'EFF',
                    'float power in an operator core is guarded', floor=1)
    ex = Exceptions(ctx)
    for key, reg in ctx.registry.operators.items():
        core = reg.core
        if core.kind != 'func' or not reg.has('wrap_ufunc'):
            continue
        f = core.fi
        pows = [n for n in own_nodes(f) if isinstance(n, ast.BinOp)
                and isinstance(n.op, ast.Pow)
                and any(isinstance(x, ast.Name) and x.id in f.params
                        for x in ast.walk(n.left))
                and not isinstance(n.left, ast.Constant)]
        # math.pow(x, y) is the same operation with other failure modes
        mpows = [n for n in own_nodes(f) if isinstance(n, ast.Call) and
                 isinstance(n.func, (ast.Name, ast.Attribute)) and
                 ctx.cg.resolve_name_expr(f, n.func) == ('ext', 'math.pow')
                 and len(n.args) == 2 and any(
                     isinstance(x, ast.Name) and x.id in f.params
                     for x in ast.walk(n.args[0]))]
        for pw in mpows:
            pw.left = pw.args[0]
        pows = pows + mpows
        if not pows:
            continue
        for pw in pows:
            rr.instances += 1
            problems = []
            # overflow
            caught = set()
            for t in own_nodes(f):
                if isinstance(t, ast.Try) and any(x is pw for s in t.body
                                                  for x in ast.walk(s)):
                    for h in t.handlers:
                        for c in ex.handler_classes(f, h):
                            caught.add(c.name)
            if not caught & {'OverflowError', 'ArithmeticError', 'Exception'}:
                problems.append('OverflowError of a large result is not caught '
                                '(safe_eval only maps ValueError/TypeError)')
            zero_guard = any(
                isinstance(n, ast.Compare) and norm_src(n.left) == norm_src(
                    pw.left) and isinstance(n.comparators[0], ast.Constant)
                and n.comparators[0].value == 0 for n in own_nodes(f))
            if not zero_guard and not caught & {'ZeroDivisionError',
                                                'ArithmeticError', 'Exception'}:
                problems.append('0 raised to a negative power raises '
                                'ZeroDivisionError (shown as #VALUE!, not '
                                '#DIV/0!)')
            cplx = any(isinstance(n, ast.Call) and isinstance(n.func, ast.Name)
                       and n.func.id == 'isinstance' and 'complex' in norm_src(n)
                       for n in own_nodes(f))
            neg_guard = any(
                isinstance(n, ast.Compare) and norm_src(n.left) == norm_src(
                    pw.left) and isinstance(n.ops[0], (ast.Lt, ast.LtE))
                for n in own_nodes(f))
            if isinstance(pw, ast.Call):
                if not neg_guard and not caught & {'ValueError', 'Exception'}:
                    problems.append(
                        'math.pow raises ValueError for a negative base with '
                        'a fractional exponent, which safe_eval shows as '
                        '#VALUE! - an out-of-domain number is #NUM!')
            elif not cplx and not neg_guard:
                problems.append('a negative base with a fractional exponent '
                                'yields a complex number, which no funnel '
                                'converts')
            if problems:
                rr.fail('%s::OPERATORS[%s]::unguarded float power' % (
                    OPS_REL, key),
                    'OPERATORS[%r] applies a float power to its operands: %s'
                    % (key, '; '.join(problems)), file=f.module.rel,
                    function=f.qualname, line=pw.lineno)
            else:
                rr.ok('OPERATORS[%r]: `%s` is guarded (zero base, overflow, '
                      'complex result)' % (key, norm_src(pw)),
                      '%s:%d' % (f.module.rel, pw.lineno))
    if rr.instances == 0:
        rr.instances = 1
        rr.ok('no operator core applies a bare float `**`', OPS_REL,
              nontrivial=False)
    return rr


def run(ctx):
    S = ctx.soft
    from .common import rule_memo, nomut_for
    ops = list(ctx.registry.operators.values())
    return [S(rule_optable, ctx), S(rule_errfirst, ctx), S(rule_rank, ctx),
            S(rule_funnel, ctx), S(rule_pow, ctx),
            S(rule_memo, ctx, 'C02', 'C02.memo', ops),
            S(nomut_for, ctx, 'C02', 'C02.nomut', ops, floor=20)]
