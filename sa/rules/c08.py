"""C08 - compiled functions agree with interpretation: must-precede rules on the two compile functions."""
import ast

from ..model import AnalysisError, own_nodes, norm_src
from ..report import RuleResult
from ..cfg import CFG
from ..util import key_of, src, call_name, kwarg, module_token
from .c13 import _flag_token

META = {
    'decides': (
        'C08, structural clauses only: (unset) in ExcelModel.compile, on every '
        'path to the pre-evaluation, the stored defaults of the chosen inputs '
        'and of the cells behind them (inverse links of names/ranges) have '
        'been removed, so nothing that depends on an argument is frozen; '
        ' (freeze) what is frozen afterwards is taken from that pre-evaluation '
        'and only for nodes without a default; the compiled function receives '
        'the caller\'s input and output lists unchanged; (self) every '
        'sub-dispatcher compile() cuts out of the model is installed under '
        'its own sh.SELF before it is run or packaged, so the range '
        'assemblers never read the model\'s last calculation; (flag) in '
        'AstBuilder.compile the COMPILING flag is set before the '
        'pre-evaluation and cleared in the solution before it is turned into '
        'defaults, and the output node is the last builder item; (order) the '
        'formula\'s arguments are reported in a sorted, ordered mapping that '
        'is passed unchanged to the compiled pipe; (nomut) no code that runs '
        'inside a compiled function writes in place to an object it did not '
        'create - the frozen constants and the caller\'s arguments are the '
        'same objects on every call; (history) compile never reads the stored '
        'solution of an earlier calculation, so what it freezes comes from '
        'the model alone.'
        ' (freeze) what is frozen is taken from the pre-evaluation, only for nodes without default, and the caller\'s lists are passed unchanged; (volatile) every pre-evaluation runs with the COMPILING flag set (= C13.sites).'
        ' (invdata) the record of what an inverse range assembler sets names every one of its outputs; (self) sub-dispatchers of compile carry their own record under sh.SELF.'),
    'not_decided': (
        'Soundness of pruning by blockers for all argument values (branch, '
        'error and shape changes).'),
    'trusted_base': ['CPython ast', 'schedula: shrink_dsp keeps paths from '
                     'inputs to outputs; get_sub_dsp_from_workflow(blockers=) '
                     'prunes at nodes present in the solution'],
    'assumptions': [],
}

EXCEL = 'formulas/excel/__init__.py'
BUILDER = 'formulas/builder.py'


def _model_compile(ctx):
    """The ExcelModel method that shrinks and pre-evaluates the model (found by
    content, so a `compile` -> `_compile` delegation does not hide it)."""
    p = ctx.project
    M = p.cls(EXCEL, 'ExcelModel')
    cands = [m for m in M.methods.values() if any(
        isinstance(n, ast.Call) and call_name(n) == 'shrink_dsp'
        for n in own_nodes(m))]
    if not cands and 'compile' in M.methods and len(
            M.methods['compile'].params) >= 3:
        # nothing calls shrink_dsp any more: the rules judge compile() itself
        # (C08.unset reports the missing cut at the inputs)
        return M.methods['compile']
    if len(cands) != 1:
        raise AnalysisError('ExcelModel: expected exactly one method calling '
                            'shrink_dsp, found %d' % len(cands))
    f = cands[0]
    if f.name != 'compile':
        pub = M.methods.get('compile')
        if pub is None or not any(
                isinstance(n, ast.Call) and call_name(n) == f.name
                for n in own_nodes(pub)):
            raise AnalysisError('ExcelModel.compile does not reach %s' % f.name)
    if len(f.params) < 3:
        raise AnalysisError('%s: (self, inputs, outputs) expected' % f.qualname)
    return f


def rule_unset(ctx):
    rr = RuleResult('C08', 'C08.unset', 'MPT',
                    'ExcelModel.compile removes the defaults of the inputs and '
                    'their inverse closure before pre-evaluating', floor=4)
    p = ctx.project
    f = _model_compile(ctx)
    cfg = CFG(f)
    dom = cfg.dominators()
    inputs_p = f.params[1]
    # the set the defaults are filtered against: `{k: v for k, v in
    # <...>.default_values.items() if k not in S}` names it; every definition
    # and in-place extension of S is then examined
    sv, inline_set = None, None
    for n in own_nodes(f):
        if isinstance(n, ast.Assign) and any(
                isinstance(t, ast.Attribute) and t.attr == 'default_values'
                for t in n.targets) and isinstance(n.value, ast.DictComp):
            for g in n.value.generators:
                for c in g.ifs:
                    if isinstance(c, ast.Compare) and len(
                            c.ops) == 1 and isinstance(
                            c.ops[0], ast.NotIn):
                        if isinstance(c.comparators[0], ast.Name):
                            sv = c.comparators[0].id
                        else:
                            # the set written in place (single-use local)
                            sv, inline_set = '<set>', (n, c.comparators[0])
    if sv is None:
        # no such filter: fall back on the variable built as set(inputs)
        for n in own_nodes(f):
            if isinstance(n, ast.Assign) and isinstance(
                    n.targets[0], ast.Name) and any(
                    isinstance(c, ast.Call) and call_name(c) == 'set' and
                    c.args and norm_src(c.args[0]) == inputs_p
                    for c in ast.walk(n.value)):
                sv = n.targets[0].id
    rr.instances += 1
    if sv is None:
        rr.fail(key_of(f, 'no input set'),
                'ExcelModel.compile no longer collects the set of input nodes',
                file=EXCEL, function=f.qualname, line=f.lineno)
        return rr
    # (statement, expression) pairs that put elements into S
    feeds = []
    if inline_set is not None:
        feeds.append((inline_set[0], inline_set[1], None))
    for n in own_nodes(f):
        if isinstance(n, ast.Assign) and any(
                isinstance(t, ast.Name) and t.id == sv for t in n.targets):
            feeds.append((n, n.value, None))
        elif isinstance(n, ast.AugAssign) and isinstance(
                n.target, ast.Name) and n.target.id == sv:
            feeds.append((n, n.value, None))
    for n in own_nodes(f):
        if isinstance(n, (ast.For, ast.Expr)):
            for c in ast.walk(n):
                if isinstance(c, ast.Call) and isinstance(
                        c.func, ast.Attribute) and c.func.attr in (
                        'update', 'add', 'union') and norm_src(
                        c.func.value) == sv and isinstance(n, ast.For):
                    feeds.append((n, c, n.iter))
            if isinstance(n, ast.Expr) and isinstance(
                    n.value, ast.Call) and isinstance(
                    n.value.func, ast.Attribute) and n.value.func.attr in (
                    'update', 'add') and norm_src(n.value.func.value) == sv:
                feeds.append((n, n.value, None))

    def mentions_inputs(e, it=None):
        return any(isinstance(x, ast.Name) and x.id == inputs_p
                   for y in (e, it) if y is not None for x in ast.walk(y))

    if any(mentions_inputs(e) for _n, e, _it in feeds if not any(
            isinstance(x, ast.Constant) and isinstance(x.value, str) and
            'inv' in x.value for x in ast.walk(e)) or True):
        pass
    has_inputs = any(
        isinstance(c, ast.Call) and call_name(c) == 'set' and c.args and
        norm_src(c.args[0]) == inputs_p or
        isinstance(c, ast.Name) and c.id == inputs_p
        for _n, e, _it in feeds for c in ast.walk(e))
    if not has_inputs:
        rr.fail(key_of(f, 'no input set'),
                'ExcelModel.compile no longer puts the input nodes into the '
                'set `%s` whose defaults are removed' % sv,
                file=EXCEL, function=f.qualname, line=f.lineno)
        return rr
    rr.ok('input node set `%s` is built from `%s`' % (sv, inputs_p), EXCEL)
    # closure with inverse links: some feed of S reads node['inv-data'] for
    # the inputs (in a loop over them or a comprehension / generator)
    rr.instances += 1
    clos = None
    for n, e, it in feeds:
        inv = any(isinstance(x, ast.Constant) and isinstance(x.value, str)
                  and 'inv' in x.value for x in ast.walk(e))
        if inv and mentions_inputs(e, it):
            clos = n
    if clos is None:
        rr.fail(key_of(f, 'inverse closure missing'),
                'ExcelModel.compile no longer adds the inverse links '
                "(node['inv-data']) of each input to the set of nodes whose "
                'defaults are removed: an input given through a defined name '
                'or a range leaves the underlying cells frozen at their stored '
                'values', file=EXCEL, function=f.qualname, line=f.lineno)
    else:
        rr.ok('every input contributes its inverse links to `%s`' % sv,
              '%s:%d' % (EXCEL, clos.lineno))
    # defaults filter
    rr.instances += 1
    filt = None
    for n in own_nodes(f):
        if isinstance(n, ast.Assign) and any(
                isinstance(t, ast.Attribute) and t.attr == 'default_values'
                for t in n.targets) and isinstance(n.value, ast.DictComp):
            conds = [norm_src(c) for g in n.value.generators for c in g.ifs]
            if any(c.endswith('not in %s' % sv) or (
                    inline_set is not None and n is inline_set[0])
                   for c in conds) and \
                    'default_values.items()' in norm_src(
                        n.value.generators[0].iter):
                filt = n
    # pre-evaluation call: call of the shrunk dispatcher object
    shr = [n for n in own_nodes(f) if isinstance(n, ast.Assign) and isinstance(
        n.value, ast.Call) and call_name(n.value) == 'shrink_dsp']
    if not shr:
        # the sub-dispatcher is built some other way: if that construction
        # does not even mention the inputs, the model is not cut at them
        other = [n for n in own_nodes(f) if isinstance(n, ast.Assign) and
                 isinstance(n.value, ast.Call) and call_name(n.value) in (
                     'get_sub_dsp_from_workflow', 'get_sub_dsp')]
        if other and not any(
                isinstance(x, ast.Name) and x.id == inputs_p
                for x in ast.walk(other[0].value)):
            rr.instances += 1
            rr.fail(key_of(f, 'shrink arguments'),
                    '%s builds the dispatcher it pre-evaluates with `%s`, '
                    'which does not take the caller\'s inputs: the formulas '
                    'that produce an input cell stay in the graph, are '
                    'pre-evaluated from the stored constants and folded, so '
                    'the compiled function ignores that argument' % (
                        f.qualname, norm_src(other[0].value)[:70]),
                    file=EXCEL, function=f.qualname, line=other[0].lineno)
            return rr
        raise AnalysisError('ExcelModel.compile: shrink_dsp call not found')
    dvar = shr[0].targets[0].id
    evals = [n for n in own_nodes(f) if isinstance(n, ast.Assign) and isinstance(
        n.value, ast.Call) and isinstance(n.value.func, ast.Name) and
        n.value.func.id == dvar]
    if len(evals) != 1:
        raise AnalysisError('ExcelModel.compile: pre-evaluation call not found')
    ev = evals[0]
    if filt is None:
        rr.fail(key_of(f, 'defaults of inputs not removed'),
                'ExcelModel.compile no longer removes the stored defaults of '
                'the input nodes before pre-evaluating: the pre-evaluation '
                'computes (and freezes) dependents from the stored values',
                file=EXCEL, function=f.qualname, line=ev.lineno)
    else:
        fn, en = cfg.node_of(filt), cfg.node_of(ev)
        ok = cfg.dominates(fn, en, dom)
        ok2 = clos is None or cfg.dominates(cfg.node_of(clos), fn, dom)
        if ok and ok2:
            rr.ok('defaults filter (`k not in %s`) dominates the '
                  'pre-evaluation `%s`, and follows the inverse closure' % (
                      sv, norm_src(ev.value)), '%s:%d' % (EXCEL, filt.lineno))
        elif not ok:
            rr.fail(key_of(f, 'pre-evaluation before defaults filter'),
                    'the pre-evaluation `%s` is not dominated by the removal '
                    'of the inputs\' defaults' % norm_src(ev.value),
                    file=EXCEL, function=f.qualname, line=ev.lineno)
        else:
            rr.fail(key_of(f, 'defaults filtered before inverse closure'),
                    'the defaults are filtered before the inverse links are '
                    'added to `%s`' % sv, file=EXCEL, function=f.qualname,
                    line=filt.lineno)
    # arguments of the shrink: inputs/outputs passed by keyword unchanged
    rr.instances += 1
    sc = shr[0].value
    if norm_src(kwarg(sc, 'inputs') or ast.Constant(0)) == inputs_p and \
            norm_src(kwarg(sc, 'outputs') or ast.Constant(0)) == f.params[2]:
        rr.ok('model is shrunk to the paths between the given inputs and '
              'outputs', EXCEL)
    else:
        rr.fail(key_of(f, 'shrink arguments'),
                'shrink_dsp is not called with the caller\'s inputs/outputs',
                file=EXCEL, function=f.qualname, line=sc.lineno)
    return rr


def rule_self(ctx, prop='C08', rule='C08.self'):
    """Range assemblers read the cells a range has but the model lacks from
    `<SELF>.solution`, SELF being the dispatcher installed under sh.SELF.  A
    sub-dispatcher cut out of the model inherits the model's dispatcher
    there: evaluated or packaged as a function it would read what the model
    calculated last.  Every sub-dispatcher that ExcelModel.compile builds must
    be re-bound to itself before it is run or handed to the compiled
    function."""
    rr = RuleResult(prop, rule, 'MPT',
                    'sub-dispatchers of compile() read absent cells from '
                    'themselves, not from the model\'s last calculation',
                    floor=1)
    p = ctx.project
    # premise: somebody reads `.solution` of the SELF input
    readers = []
    for g in p.module('formulas/cell.py').all_funcs:
        uses_self = any(ctx.cg.resolve_name_expr(g, n) == (
            'ext', 'schedula.SELF') for n in own_nodes(g)
            if isinstance(n, ast.Attribute) and n.attr == 'SELF')
        reads = [n for n in own_nodes(g) if isinstance(n, ast.Attribute)
                 and n.attr == 'solution' and isinstance(n.ctx, ast.Load)]
        if uses_self and reads:
            readers.append((g, reads[0]))
    if not readers:
        rr.instances = 1
        rr.ok('no function reads the solution of the dispatcher installed '
              'under sh.SELF', 'formulas/cell.py', nontrivial=False)
        return rr
    f = _model_compile(ctx)
    cfg = CFG(f)
    dom = cfg.dominators()

    def is_self_tok(g, e):
        return isinstance(e, (ast.Name, ast.Attribute)) and \
            ctx.cg.resolve_name_expr(g, e) == ('ext', 'schedula.SELF')

    def rebinds(g, st, var):
        """Does statement st of g install `var` under sh.SELF of var?"""
        for n in ast.walk(st):
            # var.default_values[sh.SELF] = <... var ...>
            if isinstance(n, ast.Assign) and any(
                    isinstance(t, ast.Subscript) and is_self_tok(g, t.slice)
                    and norm_src(t.value).startswith(var + '.')
                    for t in n.targets) and any(
                    isinstance(x, ast.Name) and x.id == var
                    for x in ast.walk(n.value)):
                return True
            # var.set_default_value(sh.SELF, var, ...) / var.add_data(sh.SELF..)
            if isinstance(n, ast.Call) and isinstance(
                    n.func, ast.Attribute) and n.func.attr in (
                    'set_default_value', 'add_data') and norm_src(
                    n.func.value) == var and n.args and is_self_tok(
                    g, n.args[0]):
                return True
            # helper(var) that does one of the above on its parameter
            if isinstance(n, ast.Call) and any(
                    isinstance(a, ast.Name) and a.id == var for a in n.args):
                for e in ctx.cg._resolve_callee(g, n.func, n, 'call'):
                    if e.is_ext or e.precision != 'exact':
                        continue
                    h = e.dst
                    hp = h.params[1:] if h.cls is not None else h.params
                    for i, a in enumerate(n.args):
                        if isinstance(a, ast.Name) and a.id == var and \
                                i < len(hp) and any(
                                rebinds(h, s2, hp[i]) for s2 in h.node.body):
                            return True
        return False

    subs = [n for n in own_nodes(f) if isinstance(n, ast.Assign) and len(
        n.targets) == 1 and isinstance(n.targets[0], ast.Name) and isinstance(
        n.value, ast.Call) and call_name(n.value) in (
        'shrink_dsp', 'get_sub_dsp_from_workflow', 'get_sub_dsp')]
    if not subs:
        raise AnalysisError('C08.self: no sub-dispatcher built in %s'
                            % f.qualname)
    stmts = [n for n in own_nodes(f) if isinstance(n, ast.stmt)]
    for sub in subs:
        var = sub.targets[0].id
        rr.instances += 1
        sn = cfg.node_of(sub)
        # uses of this definition: evaluation `var(...)`, `dsp=var`, return
        uses = []
        later_defs = [s2 for s2 in subs if s2 is not sub and
                      s2.targets[0].id == var and s2.lineno > sub.lineno]
        limit = min([s2.lineno for s2 in later_defs] or [10 ** 9])
        for st in stmts:
            if st is sub or st.lineno <= sub.lineno or st.lineno > limit:
                continue
            for n in ast.walk(st):
                if isinstance(n, ast.Call) and (
                        isinstance(n.func, ast.Name) and n.func.id == var or
                        any(k.arg == 'dsp' and isinstance(k.value, ast.Name)
                            and k.value.id == var for k in n.keywords)):
                    if st.lineno == limit and isinstance(
                            n.func, ast.Attribute) and norm_src(
                            n.func.value) == var:
                        continue
                    uses.append(st)
        def nodeof(st):
            return cfg.node_of(st.test if isinstance(st, ast.If) else st)

        def guarded_rebind(st):
            # `if sh.SELF in var.default_values: <rebind>`: nothing to re-bind
            # when the sub-dispatcher has no SELF input
            return isinstance(st, ast.If) and isinstance(
                st.test, ast.Compare) and len(st.test.ops) == 1 and \
                isinstance(st.test.ops[0], ast.In) and is_self_tok(
                    f, st.test.left) and norm_src(
                    st.test.comparators[0]).startswith(var + '.') and any(
                    rebinds(f, s2, var) for s2 in st.body)

        rb = [st for st in stmts if sub.lineno < st.lineno <= limit and (
            guarded_rebind(st) or not isinstance(st, (
                ast.If, ast.For, ast.While, ast.Try, ast.With)) and
            rebinds(f, st, var)) and nodeof(st) is not None]
        ok = bool(uses) and all(any(
            cfg.dominates(nodeof(r_), nodeof(u), dom)
            for r_ in rb) for u in uses if nodeof(u) is not None)
        if not uses:
            rr.ok('%s: sub-dispatcher `%s` (line %d) is not run before it is '
                  'replaced' % (f.qualname, var, sub.lineno), EXCEL,
                  nontrivial=False)
        elif ok:
            rr.ok('%s: the sub-dispatcher built by %s is installed under its '
                  'own sh.SELF before it is run / packaged' % (
                      f.qualname, call_name(sub.value)),
                  '%s:%d' % (EXCEL, sub.lineno))
        else:
            g, rd = readers[0]
            # a write *into* the inherited record (`...[sh.SELF]['value'] =
            # dsp`) is not a re-binding: the record is shared with the model
            inplace = [n for g2 in [f] + [e.dst for e in ctx.cg.out(f)
                                          if not e.is_ext and
                                          e.precision == 'exact']
                       for n in own_nodes(g2) if isinstance(n, ast.Assign)
                       and any(isinstance(t, ast.Subscript) and isinstance(
                           t.value, ast.Subscript) and is_self_tok(
                           g2, t.value.slice) for t in n.targets)]
            if inplace:
                rr.note('`%s` writes into the default record inherited from '
                        'the model instead of replacing it: the model\'s own '
                        'sh.SELF is redirected to the sub-dispatcher' %
                        norm_src(inplace[0])[:70])
            rr.fail(key_of(f, 'sub-dispatcher of %s keeps the model under '
                              'sh.SELF' % call_name(sub.value)),
                    '%s runs or packages the sub-dispatcher built by %s '
                    '(line %d) while its sh.SELF default is still the '
                    'model\'s dispatcher: %s reads `%s` from it, i.e. the '
                    'cells a range lacks are taken from whatever the model '
                    'calculated last, so a compiled function (and the '
                    'constants folded into it) changes with later '
                    'model.calculate() calls' % (
                        f.qualname, call_name(sub.value), sub.lineno,
                        g.qualname, norm_src(rd)), file=EXCEL,
                    function=f.qualname, line=sub.lineno)
    return rr


def rule_freeze(ctx):
    rr = RuleResult('C08', 'C08.freeze', 'MPT',
                    'freezing uses the pre-evaluation; function built on the '
                    'caller\'s lists', floor=3)
    p = ctx.project
    f = _model_compile(ctx)
    sub = [n for n in own_nodes(f) if isinstance(n, ast.Call)
           and call_name(n) == 'get_sub_dsp_from_workflow']
    rr.instances += 1
    if len(sub) != 1:
        raise AnalysisError('ExcelModel.compile: get_sub_dsp_from_workflow '
                            'call not found')
    s = sub[0]
    rev = kwarg(s, 'reverse')
    if s.args and norm_src(s.args[0]) == f.params[2] and rev is not None and \
            getattr(rev, 'value', None) is True and kwarg(s, 'blockers') \
            is not None:
        rr.ok('workflow is cut backwards from the outputs at the pre-computed '
              'nodes (blockers)', '%s:%d' % (EXCEL, s.lineno))
    else:
        rr.fail(key_of(f, 'workflow cut'),
                'the sub-model is no longer taken backwards (reverse=True) '
                'from the requested outputs with the pre-evaluation as '
                'blockers', file=EXCEL, function=f.qualname, line=s.lineno)
    # freeze loop: only nodes without default get one, value from res
    rr.instances += 1
    blk = norm_src(kwarg(s, 'blockers'))
    loops = [n for n in own_nodes(f) if isinstance(n, ast.For) and
             norm_src(n.iter) == '%s.items()' % blk]
    ok = False
    for lp in loops:
        for n in ast.walk(lp):
            if isinstance(n, ast.If) and 'not in' in norm_src(n.test) and \
                    'default_values' in norm_src(n.test) and any(
                    isinstance(c, ast.Call) and call_name(c) ==
                    'set_default_value' for x in n.body for c in ast.walk(x)):
                ok = True
    if ok:
        rr.ok('pre-computed values become defaults only for nodes that have '
              'none', EXCEL)
    else:
        rr.fail(key_of(f, 'freeze loop'),
                'the loop that freezes pre-computed nodes no longer skips '
                'nodes that already have a default / no longer uses the '
                'pre-evaluation result', file=EXCEL, function=f.qualname,
                line=f.lineno)
    pub = p.func(EXCEL, 'ExcelModel.compile')
    if pub is not f:
        rr.instances += 1
        calls = [n for n in own_nodes(pub) if isinstance(n, ast.Call)
                 and call_name(n) == f.name]
        direct = all([norm_src(a) for a in c.args] == pub.params[1:3]
                     for c in calls)
        rets = [n for n in own_nodes(pub) if isinstance(n, ast.Return)]
        only_delegates = all(any(x is c for c in calls for x in ast.walk(r))
                             for r in rets if r.value is not None)
        if direct and only_delegates:
            rr.ok('compile() delegates to %s with the caller\'s lists' % f.name,
                  EXCEL)
        else:
            rr.fail(key_of(pub, 'compile result not rebuilt per request'),
                    'ExcelModel.compile returns something other than a fresh '
                    'result of %s(inputs, outputs) for this request (e.g. a '
                    'function cached under a key that forgets the order of '
                    'the lists or the state of the model)' % f.name,
                    file=EXCEL, function=pub.qualname, line=pub.lineno)
    rr.instances += 1
    cc = [n for n in own_nodes(f) if isinstance(n, ast.Call) and
          norm_src(n.func) == 'self.compile_class']
    if cc and norm_src(kwarg(cc[0], 'inputs') or ast.Constant(0)) == \
            f.params[1] and norm_src(kwarg(cc[0], 'outputs') or
                                     ast.Constant(0)) == f.params[2]:
        rr.ok('compiled function takes the caller\'s inputs/outputs lists '
              'unchanged (argument and result order)', EXCEL)
    else:
        rr.fail(key_of(f, 'compiled function signature'),
                'the compiled function is not built with the caller\'s '
                'inputs/outputs lists: argument order differs from the request',
                file=EXCEL, function=f.qualname, line=f.lineno)
    return rr


def rule_flag(ctx):
    rr = RuleResult('C08', 'C08.flag', 'MPT',
                    'COMPILING flag discipline in AstBuilder.compile', floor=3)
    p = ctx.project
    f = p.func(BUILDER, 'AstBuilder.compile')
    flag = _flag_token(ctx)
    cfg = CFG(f)
    dom = cfg.dominators()
    stores = {}
    for n in own_nodes(f):
        if isinstance(n, ast.Assign) and len(n.targets) == 1 and isinstance(
                n.targets[0], ast.Subscript) and module_token(
                ctx, f, n.targets[0].slice) is flag and isinstance(
                n.value, ast.Constant):
            stores[(norm_src(n.targets[0].value), n.value.value)] = n
    evals = [n for n in own_nodes(f) if isinstance(n, ast.Assign) and any(
        isinstance(c, ast.Call) and isinstance(c.func, ast.Name) and
        c.func.id == 'dsp' for c in ast.walk(n.value))]
    if not evals:
        raise AnalysisError('AstBuilder.compile: pre-evaluation not found')
    ev = evals[0]
    call = [c for c in ast.walk(ev.value) if isinstance(c, ast.Call) and
            isinstance(c.func, ast.Name) and c.func.id == 'dsp'][0]
    arg = norm_src(call.args[0]) if call.args else None
    rr.instances += 1
    st = stores.get((arg, True))
    if st is not None and cfg.dominates(cfg.node_of(st), cfg.node_of(ev), dom):
        rr.ok('`%s[COMPILING] = True` dominates the pre-evaluation' % arg,
              '%s:%d' % (BUILDER, st.lineno))
    elif st is None:
        # not set in this function itself: C13.sites follows private helpers
        # (and answers "cannot decide" when it cannot place the store)
        from .c13 import rule_sites
        sub_ = rule_sites(ctx)
        mine = [x for x in sub_.findings if x.function == f.qualname]
        if mine:
            rr.fail(key_of(f, 'pre-evaluation without COMPILING'),
                    mine[0].message, file=BUILDER, function=f.qualname,
                    line=ev.lineno)
        else:
            rr.ok('the mapping given to the pre-evaluation comes from a helper '
                  'that sets COMPILING=True', '%s:%d' % (BUILDER, ev.lineno))
    else:
        rr.fail(key_of(f, 'pre-evaluation without COMPILING'),
                'the formula is pre-evaluated without COMPILING=True in its '
                'inputs: volatile functions are evaluated and frozen at '
                'compile time', file=BUILDER, function=f.qualname,
                line=ev.lineno)
    # res name
    resname = None
    t = ev.targets[0]
    if isinstance(t, ast.Tuple) and isinstance(ev.value, ast.Tuple):
        for tt, vv in zip(t.elts, ev.value.elts):
            if any(c is call for c in ast.walk(vv)):
                resname = tt.id
    elif isinstance(t, ast.Name):
        resname = t.id
    rr.instances += 1
    clr = stores.get((resname, False))
    loops = [n for n in own_nodes(f) if isinstance(n, ast.For) and any(
        isinstance(c, ast.Call) and call_name(c) == 'add_data' and kwarg(
            c, 'default_value') is not None for c in ast.walk(n))]
    if not loops:
        # the loop may have moved into a private helper: the call that hands
        # the solution to it stands for the loop
        from ..util import with_helpers
        for g_ in with_helpers(ctx, f)[1:]:
            if any(isinstance(n, ast.For) and any(
                    isinstance(c, ast.Call) and call_name(c) == 'add_data'
                    and kwarg(c, 'default_value') is not None
                    for c in ast.walk(n)) for n in own_nodes(g_)):
                loops = [n for n in own_nodes(f) if isinstance(n, ast.Call)
                         and call_name(n) == g_.name]
        if not loops:
            raise AnalysisError('AstBuilder.compile: the loop that turns the '
                                'solution into defaults was not found')
    if clr is None:
        rr.fail(key_of(f, 'COMPILING not cleared in the solution'),
                'the solution of the pre-evaluation keeps COMPILING=True when '
                'it becomes the defaults of the compiled function: volatile '
                'functions would return no value at call time', file=BUILDER,
                function=f.qualname, line=ev.lineno)
    elif loops and cfg.dominates(cfg.node_of(clr), cfg.node_of(loops[0]), dom):
        rr.ok('`%s[COMPILING] = False` dominates the loop that turns the '
              'solution into defaults' % resname, '%s:%d' % (BUILDER, clr.lineno))
    else:
        rr.fail(key_of(f, 'COMPILING cleared too late'),
                'COMPILING is cleared after the solution has been turned into '
                'defaults', file=BUILDER, function=f.qualname, line=clr.lineno)
    # output node: last builder item
    rr.instances += 1
    ok = any('self.get_node_id(self[-1])' in norm_src(n) for n in own_nodes(f)
             if isinstance(n, ast.Assign))
    if ok:
        rr.ok('the output node is the last item of the builder', BUILDER)
    else:
        rr.fail(key_of(f, 'output node'),
                'AstBuilder.compile no longer takes the last builder item as '
                'the output node', file=BUILDER, function=f.qualname,
                line=f.lineno)
    # blockers = res ; sub-dsp from [o]
    rr.instances += 1
    sub = [n for n in own_nodes(f) if isinstance(n, ast.Call)
           and call_name(n) == 'get_sub_dsp_from_workflow']
    if sub and norm_src(kwarg(sub[0], 'blockers') or ast.Constant(0)) == \
            resname and getattr(kwarg(sub[0], 'reverse'), 'value', None) is True:
        rr.ok('pruning uses the pre-evaluation as blockers, backwards from '
              'the output', BUILDER)
    else:
        rr.fail(key_of(f, 'pruning'),
                'the formula graph is no longer pruned backwards from the '
                'output with the pre-evaluation as blockers', file=BUILDER,
                function=f.qualname, line=f.lineno)
    return rr


def rule_invdata(ctx):
    rr = RuleResult('C08', 'C08.invdata', 'DEP',
                    'the record of what an inverse range assembler sets names '
                    'every one of its outputs', floor=1)
    p = ctx.project
    stores = []
    for f in p.module('formulas/cell.py').all_funcs + p.module(
            'formulas/excel/__init__.py').all_funcs:
        for n in own_nodes(f):
            if isinstance(n, ast.Assign) and any(
                    isinstance(t, ast.Subscript) and isinstance(
                        t.slice, ast.Constant) and t.slice.value == 'inv-data'
                    for t in n.targets):
                stores.append((f, n))
    if not stores:
        raise AnalysisError('no store of the `inv-data` record found')
    for f, n in stores:
        v = n.value
        if not any(isinstance(x, ast.Attribute) and x.attr == 'outputs'
                   for x in ast.walk(v)):
            continue          # the link of a defined name, not an assembler
        rr.instances += 1
        flt = [x for x in ast.walk(v) if isinstance(
            x, (ast.SetComp, ast.ListComp, ast.GeneratorExp, ast.DictComp))
            and any(g.ifs for g in x.generators)]
        flt += [x for x in ast.walk(v) if isinstance(x, ast.Call) and
                call_name(x) == 'filter']
        if flt:
            rr.fail(key_of(f, 'inverse outputs recorded selectively'),
                    '%s records in `inv-data` only some outputs of the inverse '
                    'assembler (`%s`): compile() keeps the default value of '
                    'the ones left out, so a compiled function whose input is '
                    'the range computes their dependents from the stored '
                    'constants' % (f.qualname, norm_src(flt[0])[:80]),
                    file=f.module.rel, function=f.qualname, line=n.lineno)
        else:
            rr.ok('%s records every output of the inverse assembler (`%s`)' % (
                f.qualname, norm_src(v)[:60]), '%s:%d' % (
                    f.module.rel, n.lineno))
    return rr


def run(ctx):
    S = ctx.soft
    from .c03 import rule_pair
    r = S(rule_pair, ctx)
    # keep only the compiled-formula ordering obligation for C08.order
    r.prop, r.rule = 'C08', 'C08.order'
    r.obligations = [o for o in r.obligations if 'input mapping' in o.what
                     or 'formula' in o.what]
    r.findings = [f for f in r.findings if 'input mapping' in f.key
                  or 'formula inputs' in f.key]
    for f in r.findings:
        f.prop, f.rule = 'C08', 'C08.order'
    for o in r.obligations:
        o.rule = 'C08.order'
    r.instances, r.floor = len(r.obligations), 1
    from .c13 import rule_sites
    v = S(rule_sites, ctx)
    v.prop, v.rule = 'C08', 'C08.volatile'
    for f in v.findings:
        f.prop, f.rule = 'C08', 'C08.volatile'
    for o in v.obligations:
        o.rule = 'C08.volatile'
    from .c07 import rule_nomut
    from .modelstate import rule_history
    return [S(rule_unset, ctx), S(rule_freeze, ctx), S(rule_flag, ctx), r, v,
            S(rule_self, ctx), S(rule_invdata, ctx),
            S(rule_nomut, ctx, 'C08', 'C08.nomut'),
            S(rule_history, ctx, 'C08', 'C08.history')]
