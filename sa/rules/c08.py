"""C08 - compiled functions agree with interpretation: must-precede rules on the two compile functions."""
import ast

from ..model import AnalysisError, own_nodes, norm_src
from ..report import RuleResult
from ..cfg import CFG
from ..util import key_of, src, call_name, kwarg, module_token
from .c13 import _flag_token

META = {
    'decides': (
        'C08, structural clauses only: (unset) in ExcelModel.compile, on every '
        'path to the pre-evaluation, the stored defaults of the chosen inputs '
        'and of the cells behind them (inverse links of names/ranges) have '
        'been removed, so nothing that depends on an argument is frozen; '
        ' (freeze) what is frozen afterwards is taken from that pre-evaluation '
        'and only for nodes without a default; the compiled function receives '
        'the caller\'s input and output lists unchanged; (flag) in '
        'AstBuilder.compile the COMPILING flag is set before the '
        'pre-evaluation and cleared in the solution before it is turned into '
        'defaults, and the output node is the last builder item; (order) the '
        'formula\'s arguments are reported in a sorted, ordered mapping that '
        'is passed unchanged to the compiled pipe; (nomut) no code that runs '
        'inside a compiled function writes in place to an object it did not '
        'create - the frozen constants and the caller\'s arguments are the '
        'same objects on every call; (history) compile never reads the stored '
        'solution of an earlier calculation, so what it freezes comes from '
        'the model alone.'
        ' (freeze) what is frozen is taken from the pre-evaluation, only for nodes without default, and the caller\'s lists are passed unchanged; (volatile) every pre-evaluation runs with the COMPILING flag set (= C13.sites).'),
    'not_decided': (
        'Soundness of pruning by blockers for all argument values (branch, '
        'error and shape changes).'),
    'trusted_base': ['CPython ast', 'schedula: shrink_dsp keeps paths from '
                     'inputs to outputs; get_sub_dsp_from_workflow(blockers=) '
                     'prunes at nodes present in the solution'],
    'assumptions': [],
}

EXCEL = 'formulas/excel/__init__.py'
BUILDER = 'formulas/builder.py'


def _model_compile(ctx):
    """The ExcelModel method that shrinks and pre-evaluates the model (found by
    content, so a `compile` -> `_compile` delegation does not hide it)."""
    p = ctx.project
    M = p.cls(EXCEL, 'ExcelModel')
    cands = [m for m in M.methods.values() if any(
        isinstance(n, ast.Call) and call_name(n) == 'shrink_dsp'
        for n in own_nodes(m))]
    if len(cands) != 1:
        raise AnalysisError('ExcelModel: expected exactly one method calling '
                            'shrink_dsp, found %d' % len(cands))
    f = cands[0]
    if f.name != 'compile':
        pub = M.methods.get('compile')
        if pub is None or not any(
                isinstance(n, ast.Call) and call_name(n) == f.name
                for n in own_nodes(pub)):
            raise AnalysisError('ExcelModel.compile does not reach %s' % f.name)
    if len(f.params) < 3:
        raise AnalysisError('%s: (self, inputs, outputs) expected' % f.qualname)
    return f


def rule_unset(ctx):
    rr = RuleResult('C08', 'C08.unset', 'MPT',
                    'ExcelModel.compile removes the defaults of the inputs and '
                    'their inverse closure before pre-evaluating', floor=4)
    p = ctx.project
    f = _model_compile(ctx)
    cfg = CFG(f)
    dom = cfg.dominators()
    inputs_p = f.params[1]
    # the set of input nodes
    setvars = {}
    for n in own_nodes(f):
        if isinstance(n, ast.Assign) and isinstance(n.value, ast.Call) and \
                call_name(n.value) == 'set' and n.value.args and norm_src(
                n.value.args[0]) == inputs_p and isinstance(
                n.targets[0], ast.Name):
            setvars[n.targets[0].id] = n
    rr.instances += 1
    if not setvars:
        rr.fail(key_of(f, 'no input set'),
                'ExcelModel.compile no longer collects the set of input nodes',
                file=EXCEL, function=f.qualname, line=f.lineno)
        return rr
    sv = list(setvars)[0]
    rr.ok('input node set `%s = set(%s)`' % (sv, inputs_p), EXCEL)
    # closure with inverse links
    rr.instances += 1
    clos = None
    for n in own_nodes(f):
        if isinstance(n, ast.For) and norm_src(n.iter) == inputs_p:
            for c in ast.walk(n):
                if isinstance(c, ast.Call) and call_name(c) == 'update' and \
                        norm_src(c.func.value) == sv and any(
                        isinstance(x, ast.Constant) and isinstance(x.value, str)
                        and 'inv' in x.value for x in ast.walk(c)):
                    clos = n
    if clos is None:
        rr.fail(key_of(f, 'inverse closure missing'),
                'ExcelModel.compile no longer adds the inverse links '
                "(node['inv-data']) of each input to the set of nodes whose "
                'defaults are removed: an input given through a defined name '
                'or a range leaves the underlying cells frozen at their stored '
                'values', file=EXCEL, function=f.qualname, line=f.lineno)
    else:
        rr.ok('every input contributes its inverse links to `%s`' % sv,
              '%s:%d' % (EXCEL, clos.lineno))
    # defaults filter
    rr.instances += 1
    filt = None
    for n in own_nodes(f):
        if isinstance(n, ast.Assign) and any(
                isinstance(t, ast.Attribute) and t.attr == 'default_values'
                for t in n.targets) and isinstance(n.value, ast.DictComp):
            conds = [norm_src(c) for g in n.value.generators for c in g.ifs]
            if any(c.endswith('not in %s' % sv) for c in conds) and \
                    'default_values.items()' in norm_src(
                        n.value.generators[0].iter):
                filt = n
    # pre-evaluation call: call of the shrunk dispatcher object
    shr = [n for n in own_nodes(f) if isinstance(n, ast.Assign) and isinstance(
        n.value, ast.Call) and call_name(n.value) == 'shrink_dsp']
    if not shr:
        raise AnalysisError('ExcelModel.compile: shrink_dsp call not found')
    dvar = shr[0].targets[0].id
    evals = [n for n in own_nodes(f) if isinstance(n, ast.Assign) and isinstance(
        n.value, ast.Call) and isinstance(n.value.func, ast.Name) and
        n.value.func.id == dvar]
    if len(evals) != 1:
        raise AnalysisError('ExcelModel.compile: pre-evaluation call not found')
    ev = evals[0]
    if filt is None:
        rr.fail(key_of(f, 'defaults of inputs not removed'),
                'ExcelModel.compile no longer removes the stored defaults of '
                'the input nodes before pre-evaluating: the pre-evaluation '
                'computes (and freezes) dependents from the stored values',
                file=EXCEL, function=f.qualname, line=ev.lineno)
    else:
        fn, en = cfg.node_of(filt), cfg.node_of(ev)
        ok = cfg.dominates(fn, en, dom)
        ok2 = clos is None or cfg.dominates(cfg.node_of(clos), fn, dom)
        if ok and ok2:
            rr.ok('defaults filter (`k not in %s`) dominates the '
                  'pre-evaluation `%s`, and follows the inverse closure' % (
                      sv, norm_src(ev.value)), '%s:%d' % (EXCEL, filt.lineno))
        elif not ok:
            rr.fail(key_of(f, 'pre-evaluation before defaults filter'),
                    'the pre-evaluation `%s` is not dominated by the removal '
                    'of the inputs\' defaults' % norm_src(ev.value),
                    file=EXCEL, function=f.qualname, line=ev.lineno)
        else:
            rr.fail(key_of(f, 'defaults filtered before inverse closure'),
                    'the defaults are filtered before the inverse links are '
                    'added to `%s`' % sv, file=EXCEL, function=f.qualname,
                    line=filt.lineno)
    # arguments of the shrink: inputs/outputs passed by keyword unchanged
    rr.instances += 1
    sc = shr[0].value
    if norm_src(kwarg(sc, 'inputs') or ast.Constant(0)) == inputs_p and \
            norm_src(kwarg(sc, 'outputs') or ast.Constant(0)) == f.params[2]:
        rr.ok('model is shrunk to the paths between the given inputs and '
              'outputs', EXCEL)
    else:
        rr.fail(key_of(f, 'shrink arguments'),
                'shrink_dsp is not called with the caller\'s inputs/outputs',
                file=EXCEL, function=f.qualname, line=sc.lineno)
    return rr


def rule_freeze(ctx):
    rr = RuleResult('C08', 'C08.freeze', 'MPT',
                    'freezing uses the pre-evaluation; function built on the '
                    'caller\'s lists', floor=3)
    p = ctx.project
    f = _model_compile(ctx)
    sub = [n for n in own_nodes(f) if isinstance(n, ast.Call)
           and call_name(n) == 'get_sub_dsp_from_workflow']
    rr.instances += 1
    if len(sub) != 1:
        raise AnalysisError('ExcelModel.compile: get_sub_dsp_from_workflow '
                            'call not found')
    s = sub[0]
    rev = kwarg(s, 'reverse')
    if s.args and norm_src(s.args[0]) == f.params[2] and rev is not None and \
            getattr(rev, 'value', None) is True and kwarg(s, 'blockers') \
            is not None:
        rr.ok('workflow is cut backwards from the outputs at the pre-computed '
              'nodes (blockers)', '%s:%d' % (EXCEL, s.lineno))
    else:
        rr.fail(key_of(f, 'workflow cut'),
                'the sub-model is no longer taken backwards (reverse=True) '
                'from the requested outputs with the pre-evaluation as '
                'blockers', file=EXCEL, function=f.qualname, line=s.lineno)
    # freeze loop: only nodes without default get one, value from res
    rr.instances += 1
    blk = norm_src(kwarg(s, 'blockers'))
    loops = [n for n in own_nodes(f) if isinstance(n, ast.For) and
             norm_src(n.iter) == '%s.items()' % blk]
    ok = False
    for lp in loops:
        for n in ast.walk(lp):
            if isinstance(n, ast.If) and 'not in' in norm_src(n.test) and \
                    'default_values' in norm_src(n.test) and any(
                    isinstance(c, ast.Call) and call_name(c) ==
                    'set_default_value' for x in n.body for c in ast.walk(x)):
                ok = True
    if ok:
        rr.ok('pre-computed values become defaults only for nodes that have '
              'none', EXCEL)
    else:
        rr.fail(key_of(f, 'freeze loop'),
                'the loop that freezes pre-computed nodes no longer skips '
                'nodes that already have a default / no longer uses the '
                'pre-evaluation result', file=EXCEL, function=f.qualname,
                line=f.lineno)
    pub = p.func(EXCEL, 'ExcelModel.compile')
    if pub is not f:
        rr.instances += 1
        calls = [n for n in own_nodes(pub) if isinstance(n, ast.Call)
                 and call_name(n) == f.name]
        direct = all([norm_src(a) for a in c.args] == pub.params[1:3]
                     for c in calls)
        rets = [n for n in own_nodes(pub) if isinstance(n, ast.Return)]
        only_delegates = all(any(x is c for c in calls for x in ast.walk(r))
                             for r in rets if r.value is not None)
        if direct and only_delegates:
            rr.ok('compile() delegates to %s with the caller\'s lists' % f.name,
                  EXCEL)
        else:
            rr.fail(key_of(pub, 'compile result not rebuilt per request'),
                    'ExcelModel.compile returns something other than a fresh '
                    'result of %s(inputs, outputs) for this request (e.g. a '
                    'function cached under a key that forgets the order of '
                    'the lists or the state of the model)' % f.name,
                    file=EXCEL, function=pub.qualname, line=pub.lineno)
    rr.instances += 1
    cc = [n for n in own_nodes(f) if isinstance(n, ast.Call) and
          norm_src(n.func) == 'self.compile_class']
    if cc and norm_src(kwarg(cc[0], 'inputs') or ast.Constant(0)) == \
            f.params[1] and norm_src(kwarg(cc[0], 'outputs') or
                                     ast.Constant(0)) == f.params[2]:
        rr.ok('compiled function takes the caller\'s inputs/outputs lists '
              'unchanged (argument and result order)', EXCEL)
    else:
        rr.fail(key_of(f, 'compiled function signature'),
                'the compiled function is not built with the caller\'s '
                'inputs/outputs lists: argument order differs from the request',
                file=EXCEL, function=f.qualname, line=f.lineno)
    return rr


def rule_flag(ctx):
    rr = RuleResult('C08', 'C08.flag', 'MPT',
                    'COMPILING flag discipline in AstBuilder.compile', floor=3)
    p = ctx.project
    f = p.func(BUILDER, 'AstBuilder.compile')
    flag = _flag_token(ctx)
    cfg = CFG(f)
    dom = cfg.dominators()
    stores = {}
    for n in own_nodes(f):
        if isinstance(n, ast.Assign) and len(n.targets) == 1 and isinstance(
                n.targets[0], ast.Subscript) and module_token(
                ctx, f, n.targets[0].slice) is flag and isinstance(
                n.value, ast.Constant):
            stores[(norm_src(n.targets[0].value), n.value.value)] = n
    evals = [n for n in own_nodes(f) if isinstance(n, ast.Assign) and any(
        isinstance(c, ast.Call) and isinstance(c.func, ast.Name) and
        c.func.id == 'dsp' for c in ast.walk(n.value))]
    if not evals:
        raise AnalysisError('AstBuilder.compile: pre-evaluation not found')
    ev = evals[0]
    call = [c for c in ast.walk(ev.value) if isinstance(c, ast.Call) and
            isinstance(c.func, ast.Name) and c.func.id == 'dsp'][0]
    arg = norm_src(call.args[0]) if call.args else None
    rr.instances += 1
    st = stores.get((arg, True))
    if st is not None and cfg.dominates(cfg.node_of(st), cfg.node_of(ev), dom):
        rr.ok('`%s[COMPILING] = True` dominates the pre-evaluation' % arg,
              '%s:%d' % (BUILDER, st.lineno))
    elif st is None:
        # not set in this function itself: C13.sites follows private helpers
        # (and answers "cannot decide" when it cannot place the store)
        from .c13 import rule_sites
        sub_ = rule_sites(ctx)
        mine = [x for x in sub_.findings if x.function == f.qualname]
        if mine:
            rr.fail(key_of(f, 'pre-evaluation without COMPILING'),
                    mine[0].message, file=BUILDER, function=f.qualname,
                    line=ev.lineno)
        else:
            rr.ok('the mapping given to the pre-evaluation comes from a helper '
                  'that sets COMPILING=True', '%s:%d' % (BUILDER, ev.lineno))
    else:
        rr.fail(key_of(f, 'pre-evaluation without COMPILING'),
                'the formula is pre-evaluated without COMPILING=True in its '
                'inputs: volatile functions are evaluated and frozen at '
                'compile time', file=BUILDER, function=f.qualname,
                line=ev.lineno)
    # res name
    resname = None
    t = ev.targets[0]
    if isinstance(t, ast.Tuple) and isinstance(ev.value, ast.Tuple):
        for tt, vv in zip(t.elts, ev.value.elts):
            if any(c is call for c in ast.walk(vv)):
                resname = tt.id
    elif isinstance(t, ast.Name):
        resname = t.id
    rr.instances += 1
    clr = stores.get((resname, False))
    loops = [n for n in own_nodes(f) if isinstance(n, ast.For) and any(
        isinstance(c, ast.Call) and call_name(c) == 'add_data' and kwarg(
            c, 'default_value') is not None for c in ast.walk(n))]
    if not loops:
        # the loop may have moved into a private helper: the call that hands
        # the solution to it stands for the loop
        from ..util import with_helpers
        for g_ in with_helpers(ctx, f)[1:]:
            if any(isinstance(n, ast.For) and any(
                    isinstance(c, ast.Call) and call_name(c) == 'add_data'
                    and kwarg(c, 'default_value') is not None
                    for c in ast.walk(n)) for n in own_nodes(g_)):
                loops = [n for n in own_nodes(f) if isinstance(n, ast.Call)
                         and call_name(n) == g_.name]
        if not loops:
            raise AnalysisError('AstBuilder.compile: the loop that turns the '
                                'solution into defaults was not found')
    if clr is None:
        rr.fail(key_of(f, 'COMPILING not cleared in the solution'),
                'the solution of the pre-evaluation keeps COMPILING=True when '
                'it becomes the defaults of the compiled function: volatile '
                'functions would return no value at call time', file=BUILDER,
                function=f.qualname, line=ev.lineno)
    elif loops and cfg.dominates(cfg.node_of(clr), cfg.node_of(loops[0]), dom):
        rr.ok('`%s[COMPILING] = False` dominates the loop that turns the '
              'solution into defaults' % resname, '%s:%d' % (BUILDER, clr.lineno))
    else:
        rr.fail(key_of(f, 'COMPILING cleared too late'),
                'COMPILING is cleared after the solution has been turned into '
                'defaults', file=BUILDER, function=f.qualname, line=clr.lineno)
    # output node: last builder item
    rr.instances += 1
    ok = any('self.get_node_id(self[-1])' in norm_src(n) for n in own_nodes(f)
             if isinstance(n, ast.Assign))
    if ok:
        rr.ok('the output node is the last item of the builder', BUILDER)
    else:
        rr.fail(key_of(f, 'output node'),
                'AstBuilder.compile no longer takes the last builder item as '
                'the output node', file=BUILDER, function=f.qualname,
                line=f.lineno)
    # blockers = res ; sub-dsp from [o]
    rr.instances += 1
    sub = [n for n in own_nodes(f) if isinstance(n, ast.Call)
           and call_name(n) == 'get_sub_dsp_from_workflow']
    if sub and norm_src(kwarg(sub[0], 'blockers') or ast.Constant(0)) == \
            resname and getattr(kwarg(sub[0], 'reverse'), 'value', None) is True:
        rr.ok('pruning uses the pre-evaluation as blockers, backwards from '
              'the output', BUILDER)
    else:
        rr.fail(key_of(f, 'pruning'),
                'the formula graph is no longer pruned backwards from the '
                'output with the pre-evaluation as blockers', file=BUILDER,
                function=f.qualname, line=f.lineno)
    return rr


def run(ctx):
    S = ctx.soft
    from .c03 import rule_pair
    r = S(rule_pair, ctx)
    # keep only the compiled-formula ordering obligation for C08.order
    r.prop, r.rule = 'C08', 'C08.order'
    r.obligations = [o for o in r.obligations if 'input mapping' in o.what
                     or 'formula' in o.what]
    r.findings = [f for f in r.findings if 'input mapping' in f.key
                  or 'formula inputs' in f.key]
    for f in r.findings:
        f.prop, f.rule = 'C08', 'C08.order'
    for o in r.obligations:
        o.rule = 'C08.order'
    r.instances, r.floor = len(r.obligations), 1
    from .c13 import rule_sites
    v = S(rule_sites, ctx)
    v.prop, v.rule = 'C08', 'C08.volatile'
    for f in v.findings:
        f.prop, f.rule = 'C08', 'C08.volatile'
    for o in v.obligations:
        o.rule = 'C08.volatile'
    from .c07 import rule_nomut
    from .modelstate import rule_history
    return [S(rule_unset, ctx), S(rule_freeze, ctx), S(rule_flag, ctx), r, v,
            S(rule_nomut, ctx, 'C08', 'C08.nomut'),
            S(rule_history, ctx, 'C08', 'C08.history')]
