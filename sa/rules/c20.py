"""C20 - calendar and number-system conversions: constants and tables (structural clauses)."""
import ast
import datetime

from ..model import AnalysisError, own_nodes, norm_src
from ..peval import FuncV, Ext, CallV, DictV, Const, SeqV, is_const
from ..report import RuleResult
from ..util import key_of, src, call_name, kwarg
from ..pattern import find, has, match

META = {
    'decides': (
        'C20, constants and tables only: (mask) the two\'s-complement masks '
        'are base**10 // 2 for bases 2, 8, 16, each base maps to the matching '
        'builtin formatter, the twelve conversion names are the ordered pairs '
        'of HEX/OCT/BIN/DEC and every dispatcher edge binds the base that '
        'matches its id and node names; (roman) the numeral tables of ARABIC '
        'and ROMAN are identical and standard, ROMAN\'s domain is 0..3999 with '
        'forms 0..4; (serial) every "largest date serial" literal agrees with '
        '9999-12-31 computed from the extracted epoch, and the 1900 leap-year '
        'pivot is 60 in both directions; (weekday) the accepted WEEKDAY modes '
        'are 1,2,3,11..17 and equivalent modes agree; (time) TIME and '
        'HOUR/MINUTE/SECOND use the units 24 h / 1440 min / 86400 s.'
        ' (digits) text converted with int(text, base) has first been restricted to the digits of the base (int also accepts a sign, blanks, underscores and the base prefix).'),
    'not_decided': (
        'The inverse laws themselves over the whole domains (finite '
        'enumerations - a different technique).'),
    'trusted_base': ['CPython ast', 'spec/limits.json', 'datetime date '
                     'arithmetic (used to compute 9999-12-31 from the epoch)'],
    'assumptions': [],
}

ENG = 'formulas/functions/eng.py'
MATH = 'formulas/functions/math.py'
DATE = 'formulas/functions/date.py'


def rule_mask(ctx):
    rr = RuleResult('C20', 'C20.mask', 'TAB',
                    'base-conversion masks, formatters, names and edges',
                    floor=20)
    p = ctx.project
    lim = ctx.spec('limits')
    env = ctx.ev.module_env(p.module(ENG))
    xm = env.get('_xmask')
    if not isinstance(xm, DictV) or not all(
            is_const(k, int) and is_const(v, int) for k, v in xm.items):
        raise AnalysisError('_xmask is not a foldable int table: %r' % xm)
    masks = {k.v: v.v for k, v in xm.items}
    for b in (2, 8, 16):
        rr.instances += 1
        want = b ** lim['twos_complement_digits'] // 2
        if masks.get(b) == want:
            rr.ok('_xmask[%d] == %d**10 // 2 == %d' % (b, b, want), ENG)
        else:
            rr.fail('%s::_xmask::base %d' % (ENG, b),
                    '_xmask[%d] is %r; the sign bit of a 10-digit base-%d '
                    'number is %d' % (b, masks.get(b), b, want), file=ENG,
                    function='_xmask', line=1)
    xf = env.get('_xfunc')
    want_f = {2: 'builtins.bin', 8: 'builtins.oct', 16: 'builtins.hex'}
    for b, fn in want_f.items():
        rr.instances += 1
        v = xf.get(b) if isinstance(xf, DictV) else None
        if isinstance(v, Ext) and v.name == fn:
            rr.ok('_xfunc[%d] is %s' % (b, fn), ENG)
        else:
            rr.fail('%s::_xfunc::base %d' % (ENG, b),
                    '_xfunc[%d] is %r, expected %s' % (b, v, fn), file=ENG,
                    function='_xfunc', line=1)
    # registered names
    names = {'%s2%s' % (a, b) for a in ('HEX', 'OCT', 'BIN', 'DEC')
             for b in ('HEX', 'OCT', 'BIN', 'DEC') if a != b}
    regs = ctx.registry.functions
    for n in sorted(names):
        rr.instances += 1
        reg = regs.get(n)
        if reg is None:
            rr.fail('%s::registration %s::missing' % (ENG, n),
                    '%s is not registered' % n, file=ENG, function='FUNCTIONS',
                    line=1)
            continue
        core = reg.core
        ok = core.kind == 'factory' and core.factory_args and \
            core.factory_args[0] and is_const(core.factory_args[0][0], str) \
            and core.factory_args[0][0].v == n
        if ok:
            rr.ok('%s is built by %s(%r, ...)' % (n, core.fi.name, n), reg.site)
        else:
            rr.fail('%s::registration %s::wrong conversion id' % (ENG, n),
                    'FUNCTIONS[%r] is built with function id %r' % (
                        n, core.factory_args and core.factory_args[0][:1]),
                    file=ENG, function='FUNCTIONS[%r]' % n, line=reg.lineno)
    # dispatcher edges
    fac = p.func(ENG, 'hex2dec2bin2oct')
    base_of = {'HEX': 16, 'OCT': 8, 'BIN': 2}
    defaults = {}
    for fn in ('_x2dec', '_dec2x'):
        f = p.func(ENG, fn)
        a = f.node.args
        dd = dict(zip([x.arg for x in a.args][len(a.args) - len(a.defaults):],
                      a.defaults))
        if 'base' in dd and isinstance(dd['base'], ast.Constant):
            defaults[fn] = dd['base'].value
    edges = 0
    for n in own_nodes(fac):
        if not (isinstance(n, ast.Call) and call_name(n) == 'add_function'):
            continue
        fid = kwarg(n, 'function_id')
        fun = kwarg(n, 'function')
        inp, outp = kwarg(n, 'inputs'), kwarg(n, 'outputs')
        if fid is None or fun is None:
            continue
        # the id and the function may be computed (`'%s2DEC' % 'HEX'`,
        # `_with_base(_x2dec, 8)`): fold them with the partial evaluator
        from ..peval import FuncV as _FV, CallV as _CV, Ext as _Ext
        menv = ctx.ev.module_env(fac.module)
        if not isinstance(fid, ast.Constant):
            fv = ctx.ev.eval(fac.module, fid, menv)
            if is_const(fv, str):
                fid = ast.copy_location(ast.Constant(value=fv.v), fid)
        if not isinstance(fid, ast.Constant):
            continue
        edges += 1
        rr.instances += 1
        a, b = fid.value.split('2')
        other = a if b == 'DEC' else b
        base = None
        fname = None
        if isinstance(fun, ast.Name):
            fname = fun.id
            base = defaults.get(fname)
        elif isinstance(fun, ast.Call) and call_name(fun) == 'partial' and \
                fun.args and isinstance(fun.args[0], ast.Name):
            fname = fun.args[0].id
            bk = kwarg(fun, 'base')
            base = bk.value if isinstance(bk, ast.Constant) else defaults.get(
                fname)
        else:
            av = ctx.ev.eval(fac.module, fun, menv)
            if isinstance(av, _FV):
                fname = av.fi.name
                base = defaults.get(fname)
            elif isinstance(av, _CV) and isinstance(av.fn, _Ext) and \
                    av.fn.name == 'functools.partial' and av.args and \
                    isinstance(av.args[0], _FV):
                fname = av.args[0].fi.name
                bk = av.kw.get('base')
                base = bk.v if is_const(bk) else defaults.get(fname)
        want_fn = '_x2dec' if b == 'DEC' else '_dec2x'
        ins = [e.value for e in inp.elts] if isinstance(inp, ast.List) else []
        outs = [e.value for e in outp.elts] if isinstance(outp, ast.List) else []
        problems = []
        if fname != want_fn:
            problems.append('uses %s, expected %s' % (fname, want_fn))
        if base != base_of.get(other):
            problems.append('binds base %r, %s is base %r' % (
                base, other, base_of.get(other)))
        if not ins or ins[0] != a:
            problems.append('first input node is %r, expected %r' % (
                ins[:1], a))
        if outs != [b]:
            problems.append('output node is %r, expected %r' % (outs, b))
        if problems:
            rr.fail('%s::hex2dec2bin2oct::edge %s' % (ENG, fid.value),
                    'conversion edge %s: %s' % (fid.value, '; '.join(problems)),
                    file=ENG, function='hex2dec2bin2oct', line=n.lineno)
        else:
            rr.ok('edge %s: %s(base=%d) %s -> %s' % (
                fid.value, fname, base, a, b), '%s:%d' % (ENG, n.lineno))
    if edges != 6:
        raise AnalysisError('hex2dec2bin2oct: %d conversion edges, expected 6'
                            % edges)
    # sign handling in _x2dec / range test in _dec2x
    x2 = p.func(ENG, '_x2dec')
    rr.instances += 1
    txt = ' '.join(norm_src(n) for n in own_nodes(x2) if isinstance(n, ast.Return))
    if has('(__x & ~__y) - (__y & __x)', x2) or has(
            '(__x & ~__y) - (__x & __y)', x2):
        rr.ok("_x2dec decodes two's complement: (x & ~mask) - (x & mask)", ENG)
    else:
        # conditional form: a value with the sign bit set (x >= mask) is
        # negative: x - 2*mask
        conds = find('__x - (__y << 1) if ___t else __x', x2) + find(
            '__x - 2 * __y if ___t else __x', x2) + find(
            '__x - __y * 2 if ___t else __x', x2)
        if conds:
            node, b = conds[0]
            t = b['___t'][1]
            good = match('__x >= __y', t, {'__x': b['__x'], '__y': b['__y']}) \
                is not None or match('__x & __y', t, {
                    '__x': b['__x'], '__y': b['__y']}) is not None or match(
                    '__y <= __x', t, {'__x': b['__x'], '__y': b['__y']}) \
                is not None
            if good:
                rr.ok("_x2dec: values with the sign bit set (x >= mask) are "
                      "decoded as x - 2*mask", ENG)
            else:
                rr.fail(key_of(x2, 'sign-bit test'),
                        "_x2dec treats a value as negative when `%s`; the sign "
                        "bit is set exactly when x >= mask, so the most "
                        "negative value (only the sign bit) is decoded as "
                        "positive" % norm_src(t), file=ENG, function='_x2dec',
                        line=node.lineno)
        else:
            rr.note('_x2dec return shape not recognised (not checked): %s'
                    % txt[:80])
    d2 = p.func(ENG, '_dec2x')
    rr.instances += 1
    ok = has('-__y <= __x < __y', d2) or has('-__y <= x < __y', d2)
    if ok:
        rr.ok('_dec2x accepts exactly -mask <= x < mask', ENG)
    else:
        rr.fail(key_of(d2, 'domain test'),
                "_dec2x no longer tests `-mask <= x < mask` (the 10-digit "
                "two's-complement range)", file=ENG, function='_dec2x',
                line=d2.lineno)
    return rr


def _tuple_consts(node):
    if isinstance(node, ast.Tuple) and all(isinstance(e, ast.Constant)
                                           for e in node.elts):
        return tuple(e.value for e in node.elts)
    return None


def rule_roman(ctx):
    rr = RuleResult('C20', 'C20.roman', 'SIB/TAB',
                    'roman numeral tables and ROMAN domain', floor=3)
    p = ctx.project
    lim = ctx.spec('limits')
    want_vals = tuple(lim['roman_values'])
    want_let = lim['roman_letters']
    for fn in ('xarabic', '_xroman'):
        f = p.func(MATH, fn)
        rr.instances += 1
        vals = lets = None
        for n in own_nodes(f):
            if isinstance(n, ast.Assign):
                v = n.value
                cands = [v] if not isinstance(v, ast.Tuple) or _tuple_consts(v) \
                    else list(v.elts)
                for c in cands:
                    t = _tuple_consts(c)
                    if t and all(isinstance(x, int) for x in t) and len(t) == 7:
                        vals = t
                    if isinstance(c, ast.Constant) and isinstance(
                            c.value, str) and len(c.value) == 7:
                        lets = c.value
            if isinstance(n, ast.Constant) and isinstance(n.value, str) and \
                    len(n.value) == 7 and n.value.isalpha() and lets is None:
                lets = n.value
            if isinstance(n, ast.Tuple) and vals is None:
                t = _tuple_consts(n)
                if t and all(isinstance(x, int) for x in t) and len(t) == 7:
                    vals = t
            # ... or kept in a module-level constant the function reads
            if isinstance(n, ast.Name) and isinstance(n.ctx, ast.Load):
                mv = f.module.assigns.get(n.id) or []
                if len(mv) == 1:
                    t = _tuple_consts(mv[0])
                    if vals is None and t and len(t) == 7 and all(
                            isinstance(x, int) for x in t):
                        vals = t
                    if lets is None and isinstance(
                            mv[0], ast.Constant) and isinstance(
                            mv[0].value, str) and len(mv[0].value) == 7 and \
                            mv[0].value.isalpha():
                        lets = mv[0].value
        if vals == want_vals and lets == want_let:
            rr.ok('%s uses %s / %r' % (fn, vals, lets), MATH)
        elif vals is None or lets is None:
            raise AnalysisError('C20.roman: the numeral tables of %s were '
                                'not found' % fn)
        else:
            rr.fail(key_of(f, 'numeral table'),
                    '%s uses numeral table %r / %r; the standard numerals are '
                    '%r / %r' % (fn, vals, lets, want_vals, want_let),
                    file=MATH, function=fn, line=f.lineno)
    xr = p.func(MATH, 'xroman')
    rr.instances += 1
    dom = [norm_src(n) for n in own_nodes(xr) if isinstance(n, ast.Compare)
           and len(n.ops) == 2]
    want = {'0 <= num < %d' % (lim['roman_max'] + 1),
            '0 <= form <= %d' % lim['roman_max_form']}
    if want <= set(dom):
        rr.ok('ROMAN domain: %s' % ' and '.join(sorted(want)), MATH)
    else:
        rr.fail(key_of(xr, 'domain test'),
                'xroman tests %s; the domain is %s' % (dom, sorted(want)),
                file=MATH, function='xroman', line=xr.lineno)
    return rr


def _fold(ctx, mod, e, depth=0):
    """Constant-fold integers and datetime arithmetic written at module level
    (`(datetime.datetime.max - DATE_ZERO).days`); None if not a constant."""
    if depth > 6:
        return None
    if isinstance(e, ast.Constant) and isinstance(e.value, (int, float)) and \
            not isinstance(e.value, bool):
        return e.value
    if isinstance(e, ast.Name):
        vals = mod.assigns.get(e.id) or []
        if len(vals) == 1:
            return _fold(ctx, mod, vals[0], depth + 1)
        imp = mod.imports.get(e.id)
        if not vals and imp and imp[0] == 'obj':
            # a constant imported from a sibling module
            m2 = ctx.project.get_module(imp[1])
            if m2 is not None and m2 is not mod:
                return _fold(ctx, m2, ast.Name(id=imp[2], ctx=ast.Load()),
                             depth + 1)
        return None
    if isinstance(e, ast.Attribute):
        r = ctx.project.resolve_expr(mod, e)
        if r and r[0] == 'ext':
            return {'datetime.datetime.max': datetime.datetime.max,
                    'datetime.datetime.min': datetime.datetime.min,
                    'datetime.date.max': datetime.date.max,
                    'datetime.date.min': datetime.date.min}.get(r[1])
        base = _fold(ctx, mod, e.value, depth + 1)
        if isinstance(base, datetime.timedelta) and e.attr == 'days':
            return base.days
        if isinstance(base, (datetime.date, datetime.datetime)) and \
                e.attr in ('year', 'month', 'day'):
            return getattr(base, e.attr)
        return None
    if isinstance(e, ast.Call) and not e.keywords:
        r = ctx.project.resolve_expr(mod, e.func) if isinstance(
            e.func, (ast.Name, ast.Attribute)) else None
        args = [_fold(ctx, mod, a, depth + 1) for a in e.args]
        if r and r[0] == 'ext' and all(isinstance(a, int) for a in args):
            try:
                if r[1] == 'datetime.datetime':
                    return datetime.datetime(*args)
                if r[1] == 'datetime.date':
                    return datetime.date(*args)
                if r[1] == 'datetime.timedelta':
                    return datetime.timedelta(*args)
            except (ValueError, TypeError):
                return None
        return None
    if isinstance(e, ast.BinOp) and isinstance(e.op, (ast.Add, ast.Sub)):
        a, b = _fold(ctx, mod, e.left, depth + 1), _fold(
            ctx, mod, e.right, depth + 1)
        if a is None or b is None:
            return None
        try:
            if isinstance(a, datetime.datetime) and isinstance(
                    b, datetime.date) and not isinstance(b, datetime.datetime):
                b = datetime.datetime(b.year, b.month, b.day)
            return a + b if isinstance(e.op, ast.Add) else a - b
        except TypeError:
            return None
    return None


def rule_serial(ctx):
    rr = RuleResult('C20', 'C20.serial', 'SIB/TAB',
                    'largest date serial and the 1900 leap pivot', floor=5)
    p = ctx.project
    m = p.module(DATE)
    dz = ctx.ev.module_env(m).get('DATE_ZERO')
    if not (isinstance(dz, CallV) and isinstance(dz.fn, Ext) and
            dz.fn.name == 'datetime.datetime' and all(
                is_const(a, int) for a in dz.args)):
        raise AnalysisError('DATE_ZERO is not datetime.datetime(<ints>)')
    epoch = datetime.date(*[a.v for a in dz.args[:3]])
    # serial of 9999-12-31: days since the epoch + 1 for the fictitious 1900-02-29
    max_serial = (datetime.date(9999, 12, 31) - epoch).days + 1
    lim = ctx.spec('limits')
    rr.instances += 1
    if max_serial == lim['max_serial']:
        rr.ok('9999-12-31 - DATE_ZERO + 1 = %d = Excel\'s largest serial' %
              max_serial, DATE)
    else:
        rr.fail('%s::DATE_ZERO::epoch' % DATE,
                'with DATE_ZERO=%s the serial of 9999-12-31 is %d, Excel\'s is '
                '%d' % (epoch, max_serial, lim['max_serial']), file=DATE,
                function='DATE_ZERO', line=1)
    # every literal near the maximum, with its comparison
    n_lit = 0
    for mod in p.modules.values():
        if '/functions/' not in mod.rel:
            continue
        for f in mod.all_funcs:
            for n in own_nodes(f):
                if not isinstance(n, ast.Compare):
                    continue
                operands = [n.left] + list(n.comparators)
                for i, opnd in enumerate(operands):
                    folded = _fold(ctx, mod, opnd) if isinstance(
                        opnd, (ast.Constant, ast.Name, ast.BinOp)) else None
                    if isinstance(folded, int) and not isinstance(
                            folded, bool) and abs(
                            folded - lim['max_serial']) <= 5:
                        opnd = ast.copy_location(ast.Constant(folded), opnd)
                        n_lit += 1
                        rr.instances += 1
                        # operator linking this literal with its neighbour
                        if i > 0:
                            op, side = n.ops[i - 1], 'right'
                        else:
                            op, side = n.ops[0], 'left'
                        incl = isinstance(op, (ast.LtE, ast.GtE))
                        # x <= L (right, LtE): inclusive upper bound
                        # x < L / x >= L: exclusive
                        if side == 'right' and isinstance(op, ast.LtE):
                            want = lim['max_serial']
                        elif side == 'right' and isinstance(op, (ast.Lt, ast.GtE)):
                            want = lim['max_serial'] + 1
                        elif side == 'right' and isinstance(op, ast.Gt):
                            want = lim['max_serial']
                        elif side == 'left' and isinstance(op, (ast.GtE,)):
                            want = lim['max_serial']
                        elif side == 'left' and isinstance(op, (ast.Gt, ast.LtE)):
                            want = lim['max_serial'] + 1
                        else:
                            want = None
                        if want is None:
                            raise AnalysisError(
                                '%s:%d: serial literal in unrecognised '
                                'comparison `%s`' % (mod.rel, n.lineno,
                                                     norm_src(n)))
                        if opnd.value == want:
                            rr.ok('%s: `%s` bounds serials at %d' % (
                                f.qualname, norm_src(n), lim['max_serial']),
                                '%s:%d' % (mod.rel, n.lineno))
                        else:
                            rr.fail(key_of(f, 'date-serial bound `%s`' %
                                           norm_src(n)),
                                    '%s compares with %d in `%s`; the largest '
                                    'valid serial is %d (so this bound should '
                                    'be %d)' % (f.qualname, opnd.value,
                                                norm_src(n),
                                                lim['max_serial'], want),
                                    file=mod.rel, function=f.qualname,
                                    line=n.lineno)
    if n_lit < 1:
        # (four on the pinned tree; sharing one bound test between the date
        # functions legitimately lowers the count)
        raise AnalysisError('no date-serial bound found')
    # leap pivot
    xd = p.func(DATE, 'xdate')
    i2d = p.func(DATE, '_int2date')
    piv = lim['leap_pivot_serial']
    rr.instances += 1
    t = ' '.join(norm_src(n) for n in own_nodes(xd))
    ok1 = ('return %d' % piv) in ' '.join(
        norm_src(n) for n in own_nodes(xd) if isinstance(n, ast.Return)) and \
        '(2, 29)' in t and '(1900, 3, 1)' in t
    if ok1:
        rr.ok('xdate: 1900-02-29 -> %d and dates from 1900-03-01 are shifted '
              'by one' % piv, DATE)
    else:
        rr.fail(key_of(xd, '1900 leap-year pivot'),
                'xdate no longer maps the fictitious 1900-02-29 to serial %d '
                'and shifts later dates by one day' % piv, file=DATE,
                function='xdate', line=xd.lineno)
    rr.instances += 1
    cmps = [norm_src(n) for n in own_nodes(i2d) if isinstance(n, ast.Compare)]
    rets = [norm_src(n.value) for n in own_nodes(i2d)
            if isinstance(n, ast.Return) and n.value is not None]
    sn_ = i2d.params[0] if i2d.params else 'serial_number'
    ok2 = any(c.startswith('%d < %s' % (piv, sn_)) for c in cmps) and \
        '%s == %d' % (sn_, piv) in cmps and '(1900, 2, 29)' in rets and \
        '%s == 0' % sn_ in cmps and '(1900, 1, 0)' in rets
    if ok2:
        rr.ok('_int2date: >%d shifts back by one, ==%d -> 1900-02-29, 0 -> '
              '1900-01-00' % (piv, piv), DATE)
    else:
        rr.fail(key_of(i2d, '1900 leap-year pivot'),
                '_int2date no longer treats serial %d as 1900-02-29, larger '
                'serials as shifted by one and 0 as 1900-01-00 (tests: %s)' % (
                    piv, cmps), file=DATE, function='_int2date',
                line=i2d.lineno)
    return rr


def rule_weekday(ctx):
    rr = RuleResult('C20', 'C20.weekday', 'EXH',
                    'WEEKDAY modes and offsets', floor=10)
    p = ctx.project
    lim = ctx.spec('limits')
    f = p.func(DATE, 'xweekday')
    # abstractly execute the mode dispatch for n in 0..20
    body = f.node.body

    zvar = 'zero'
    for nd, b in find('int(serial_number + 7 - n) % 7 or __z', f):
        zvar = b['__z']

    def run(n):
        env = {'n': n, zvar: None}
        # find initial zero constant: `n, serial_number, zero = int(n), int(..), 7`
        for st in body:
            if isinstance(st, ast.Assign) and isinstance(st.value, ast.Tuple) \
                    and isinstance(st.targets[0], ast.Tuple):
                for t, v in zip(st.targets[0].elts, st.value.elts):
                    if isinstance(t, ast.Name) and t.id == zvar and \
                            isinstance(v, ast.Constant):
                        env[zvar] = v.value
        def ev(e):
            if isinstance(e, ast.Constant):
                return e.value
            if isinstance(e, ast.Name):
                if e.id in env:
                    return env[e.id]
                raise KeyError(e.id)
            if isinstance(e, ast.BinOp):
                a, b = ev(e.left), ev(e.right)
                return {ast.Add: a + b, ast.Sub: a - b}[type(e.op)]
            if isinstance(e, ast.Compare):
                vals = [ev(e.left)] + [ev(c) for c in e.comparators]
                import operator as o
                ops = {ast.LtE: o.le, ast.Lt: o.lt, ast.Eq: o.eq, ast.GtE: o.ge,
                       ast.Gt: o.gt, ast.NotEq: o.ne}
                return all(ops[type(op)](a, b) for op, a, b in zip(
                    e.ops, vals, vals[1:]))
            if isinstance(e, ast.BoolOp):
                vs = [ev(v) for v in e.values]
                return all(vs) if isinstance(e.op, ast.And) else any(vs)
            if isinstance(e, ast.UnaryOp) and isinstance(e.op, ast.Not):
                return not ev(e.operand)
            if isinstance(e, ast.Tuple):
                return tuple(ev(x) for x in e.elts)
            raise AnalysisError('xweekday: unrecognised expression %s' %
                                norm_src(e))

        def block(stmts):
            for st in stmts:
                if isinstance(st, ast.If):
                    names = {x.id for x in ast.walk(st.test)
                             if isinstance(x, ast.Name)}
                    if 'serial_number' in names:
                        continue  # range test on the serial, not the mode
                    r = block(st.body) if ev(st.test) else block(st.orelse)
                    if r is not None:
                        return r
                elif isinstance(st, ast.Assign):
                    if isinstance(st.targets[0], ast.Tuple) and isinstance(
                            st.value, ast.Tuple):
                        vals = []
                        for t, v in zip(st.targets[0].elts, st.value.elts):
                            try:
                                vals.append((t.id, ev(v)))
                            except (KeyError, AnalysisError):
                                pass
                        for k, v in vals:
                            if k in env:
                                env[k] = v
                    elif isinstance(st.targets[0], ast.Name):
                        try:
                            env[st.targets[0].id] = ev(st.value)
                        except (KeyError, AnalysisError):
                            pass
                elif isinstance(st, ast.Return):
                    t = norm_src(st.value)
                    if '#NUM!' in t:
                        return 'NUM'
                    return ('OK', env['n'], env[zvar], t.replace(zvar, 'zero'))
            return None

        return block(body)

    accepted = {}
    for n in range(0, 25):
        r = run(n)
        if r is None:
            raise AnalysisError('xweekday: mode dispatch not recognised')
        if r != 'NUM':
            accepted[n] = r
    want = set(lim['weekday_modes'])
    rr.instances += 1
    if set(accepted) == want:
        rr.ok('accepted WEEKDAY modes are %s' % sorted(want), DATE)
    else:
        rr.fail(key_of(f, 'accepted modes'),
                'xweekday accepts return_type %s; Excel accepts %s' % (
                    sorted(accepted), sorted(want)), file=DATE,
                function='xweekday', line=f.lineno)
    # first-day offsets: mode -> (n offset, zero) ; weekday = (serial+7-n)%7 or zero
    first = lim['weekday_first_day']  # mode -> weekday name index Mon=0
    for mode, (_, noff, zero, expr) in sorted(accepted.items()):
        rr.instances += 1
        spec = first.get(str(mode))
        if spec is None:
            continue
        want_off, want_zero = spec['offset'], spec['zero']
        if (noff % 7, zero) == (want_off % 7, want_zero):
            rr.ok('mode %d: offset %d, value for the last day %s' % (
                mode, noff, zero), DATE)
        else:
            rr.fail(key_of(f, 'mode %d offset' % mode),
                    'xweekday mode %d uses offset %d and zero-value %s; '
                    'expected offset %d (mod 7) and %s' % (
                        mode, noff, zero, want_off, want_zero), file=DATE,
                    function='xweekday', line=f.lineno)
    rr.instances += 1
    exprs = {v[3] for v in accepted.values()}
    if exprs == {'int(serial_number + 7 - n) % 7 or zero'}:
        rr.ok('weekday = (serial + 7 - offset) % 7 or zero: advances by one '
              'per day', DATE)
    else:
        rr.note('weekday expression shape not recognised: %s' % exprs)
    return rr


def rule_time(ctx):
    rr = RuleResult('C20', 'C20.time', 'TAB',
                    'time-of-day units: 24 h, 1440 min, 86400 s', floor=2)
    p = ctx.project
    xt = p.func(DATE, 'xtime')
    rr.instances += 1
    want = {xt.params[0]: 24, xt.params[1]: 1440, xt.params[2]: 86400}
    got = {}
    for n in own_nodes(xt):
        if isinstance(n, ast.BinOp) and isinstance(n.op, ast.Div) and \
                isinstance(n.left, ast.Name) and isinstance(
                n.right, ast.Constant):
            got[n.left.id] = n.right.value
    if got == want:
        rr.ok('xtime: hour/24 + minute/1440 + second/86400', DATE)
    else:
        rr.fail(key_of(xt, 'time units'),
                'xtime divides %s; a day has 24 hours, 1440 minutes and 86400 '
                'seconds (%s)' % (got, want), file=DATE, function='xtime',
                line=xt.lineno)
    rr.instances += 1
    if has('__v % 1', xt):
        rr.ok('xtime keeps the fraction of a day (v % 1)', DATE)
    else:
        rr.fail(key_of(xt, 'fraction of a day'),
                'xtime no longer reduces the result modulo one day', file=DATE,
                function='xtime', line=xt.lineno)
    nt = p.func(DATE, '_n2time')
    rr.instances += 1
    muls = sorted(n.right.value for n in own_nodes(nt) if isinstance(
        n, ast.BinOp) and isinstance(n.op, ast.Mult) and isinstance(
        n.right, ast.Constant))
    rets = [norm_src(n.value) for n in own_nodes(nt) if isinstance(n, ast.Return)]
    if muls == [24, 60, 60] and has('(__h % 24, __m, ___s)', nt):
        rr.ok('_n2time splits a day fraction by 24, 60, 60 and wraps hours '
              'modulo 24', DATE)
    else:
        rr.fail(key_of(nt, 'time split'),
                '_n2time multiplies by %s and returns %s; expected the 24/60/60 '
                'split with hours %% 24' % (muls, rets), file=DATE,
                function='_n2time', line=nt.lineno)
    return rr


def rule_digits(ctx):
    rr = RuleResult('C20', 'C20.digits', 'CBU',
                    'text converted with int(text, base) has been restricted '
                    'to the digits of the base', floor=1)
    from ..util import with_helpers
    p = ctx.project
    f0 = p.func(ENG, '_x2dec')
    sites = []
    for g in with_helpers(ctx, f0):
        for n in own_nodes(g):
            if isinstance(n, ast.Call) and isinstance(n.func, ast.Name) and \
                    n.func.id == 'int' and len(n.args) == 2 and isinstance(
                    n.args[0], ast.Name):
                sites.append((g, n))
    if not sites:
        raise AnalysisError('_x2dec: no int(text, base) conversion found')
    for g, n in sites:
        rr.instances += 1
        v = n.args[0].id

        def about(e):
            return any(isinstance(x, ast.Name) and x.id == v
                       for x in ast.walk(e))

        guard = None
        for m in own_nodes(g):
            if getattr(m, 'lineno', 0) > n.lineno:
                continue
            # set(x) <= DIGITS / set(x) - DIGITS / set(x).issubset(..)
            if isinstance(m, (ast.Compare, ast.BinOp)) and any(
                    isinstance(c, ast.Call) and isinstance(
                        c.func, ast.Name) and c.func.id in ('set', 'frozenset')
                    and c.args and about(c.args[0]) for c in ast.walk(m)):
                guard = m
            elif isinstance(m, ast.Call) and isinstance(
                    m.func, ast.Attribute) and m.func.attr in (
                    'issubset', 'issuperset', 'fullmatch', 'match', 'strip',
                    'lstrip', 'translate') and (about(m.func.value) or any(
                        about(a) for a in m.args)):
                guard = m
            elif isinstance(m, ast.Call) and isinstance(
                    m.func, ast.Name) and m.func.id in ('all', 'any') and \
                    m.args and isinstance(m.args[0], ast.GeneratorExp) and \
                    about(m.args[0].generators[0].iter):
                guard = m
        if guard is not None:
            rr.ok('%s restricts the text with `%s` before int(%s, base)' % (
                g.qualname, norm_src(guard)[:60], v),
                '%s:%d' % (g.module.rel, n.lineno))
        else:
            rr.fail(key_of(g, 'int(text, base) on unrestricted text'),
                    '%s converts with `%s` whatever the text is: int() with a '
                    'base also accepts a sign, surrounding blanks, `_` between '
                    'digits and the prefix of the base, so "-1", " 1f ", '
                    '"1_0" and "0x1F" are converted instead of giving #NUM!'
                    % (g.qualname, norm_src(n)), file=g.module.rel,
                    function=g.qualname, line=n.lineno)
    return rr


def run(ctx):
    S = ctx.soft
    from .common import rule_memo
    regs = [r for r in ctx.registry.functions.values()
            if r.module.rel in (ENG, DATE, MATH)]
    return [S(rule_mask, ctx), S(rule_roman, ctx), S(rule_serial, ctx),
            S(rule_weekday, ctx), S(rule_time, ctx),
            S(rule_memo, ctx, 'C20', 'C20.memo', regs), S(rule_digits, ctx)]
