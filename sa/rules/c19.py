"""C19 - lookup and criteria functions: shared cores and typed comparison (structural clauses)."""
import ast

from ..model import AnalysisError, own_nodes, norm_src
from ..peval import FuncV, Ext, CallV, Const, is_const
from ..report import RuleResult
from ..cfg import CFG
from ..util import key_of, src, call_name
from ..registry import FUNCS_REL

META = {
    'decides': (
        'C19, structural clauses only: (core) LOOKUP, HLOOKUP and VLOOKUP '
        'share one core that obtains the position from the MATCH core and '
        'indexes the result vector by position-1, H and V differ only in the '
        'bound transpose flag; COUNTIF/SUMIF/AVERAGEIF are the criteria filter '
        'bound to len/sum/average; (typed) the criterion comparison is '
        'evaluated only after the type ranks are equal, the MATCH candidates '
        'are filtered by rank equality before any scan, the three match modes '
        'are an exhaustive >0 / <0 / else split and their comparisons have the '
        'direction "not greater" / "not smaller"; (rank) the rank function is '
        'the one C02 checks; (memo/slotmemo) memoised helpers do not conflate '
        'logicals and numbers, and a vector memoised in a slot of the criteria '
        'range (test_range[\'num\']) is computed from that range alone, not '
        'from the criterion of the call that happened to fill it; (nomut) the '
        'lookup and criteria cores and their argument parsers never write in '
        'place to the arrays they receive (text keys are upper-cased on '
        'copies); (guard) no bounds test on a table is separated from the '
        'indexing it protects by a transposition or other re-binding of the '
        'table.'
        ' (typed, unfiltered) in xmatch the key is never compared with the candidate array before the type-rank filter.'),
    'not_decided': (
        'Positions returned for all key vectors, wildcard translation, INDEX '
        'addressing - value-level case analysis.'),
    'trusted_base': ['CPython ast'],
    'assumptions': [],
}

LOOK = 'formulas/functions/look.py'


def _cmp_norm(c, cand):
    """Normalise a Compare to (op name, other side src) with `cand` on the left."""
    if not (isinstance(c, ast.Compare) and len(c.ops) == 1):
        return None
    l, r, op = c.left, c.comparators[0], type(c.ops[0])
    flip = {ast.Lt: ast.Gt, ast.Gt: ast.Lt, ast.LtE: ast.GtE, ast.GtE: ast.LtE,
            ast.Eq: ast.Eq, ast.NotEq: ast.NotEq}
    if isinstance(l, ast.Name) and l.id == cand:
        return op.__name__, norm_src(r)
    if isinstance(r, ast.Name) and r.id == cand and op in flip:
        return flip[op].__name__, norm_src(l)
    return None


def rule_core(ctx):
    R = ctx.registry
    rr = RuleResult('C19', 'C19.core', 'SIB',
                    'shared lookup core on top of MATCH; criteria functions '
                    'share the filter', floor=6)
    p = ctx.project
    regs = {n: R.functions.get(n) for n in ('LOOKUP', 'HLOOKUP', 'VLOOKUP',
                                            'MATCH')}
    if any(v is None for v in regs.values()):
        raise AnalysisError('lookup registrations missing: %s' % [
            k for k, v in regs.items() if v is None])
    cores = {n: r.core.fi for n, r in regs.items() if r.core.kind == 'func'}
    rr.instances += 3
    lk = cores.get('LOOKUP')
    for n in ('HLOOKUP', 'VLOOKUP'):
        if cores.get(n) is lk and lk is not None:
            rr.ok('%s shares the LOOKUP core %s' % (n, lk.qualname),
                  regs[n].site)
        else:
            rr.fail('%s::registration %s::own lookup core' % (LOOK, n),
                    '%s uses core %s while LOOKUP uses %s: the three lookups no '
                    'longer agree by construction' % (
                        n, regs[n].core.describe(), regs['LOOKUP'].core.describe()),
                    file=LOOK, function='FUNCTIONS[%r]' % n,
                    line=regs[n].lineno)
    mcore = cores.get('MATCH')
    # lookup core calls the match core and indexes by r - 1
    if lk is not None and mcore is not None:
        calls = [n for n in own_nodes(lk) if isinstance(n, ast.Call)
                 and ctx.cg.resolve_name_expr(lk, n.func) == ('func', mcore)]
        if calls:
            rr.ok('%s obtains the position from %s' % (lk.qualname,
                                                       mcore.qualname),
                  '%s:%d' % (lk.module.rel, calls[0].lineno))
        else:
            rr.fail(key_of(lk, 'does not call the MATCH core'),
                    'the lookup core no longer obtains the position from the '
                    'MATCH core %s' % mcore.qualname, file=lk.module.rel,
                    function=lk.qualname, line=lk.lineno)
        rr.instances += 1
        pos_names = set()
        for n in own_nodes(lk):
            if isinstance(n, ast.Assign) and n.value in calls:
                for t in n.targets:
                    if isinstance(t, ast.Name):
                        pos_names.add(t.id)
        ok = False
        for n in own_nodes(lk):
            if isinstance(n, ast.Subscript) and isinstance(n.slice, ast.BinOp) \
                    and isinstance(n.slice.op, ast.Sub) and isinstance(
                    n.slice.left, ast.Name) and n.slice.left.id in pos_names \
                    and isinstance(n.slice.right, ast.Constant) and \
                    n.slice.right.value == 1:
                ok = True
        if ok:
            rr.ok('result vector is indexed by position - 1', lk.module.rel)
        else:
            rr.fail(key_of(lk, 'result not indexed by position - 1'),
                    'the lookup core does not index the result vector by the '
                    '1-based MATCH position minus one', file=lk.module.rel,
                    function=lk.qualname, line=lk.lineno)
    # H/V parsers: same function, differing only in transpose
    rr.instances += 1
    hp, vp = regs['HLOOKUP'].cfg.get('args_parser'), regs['VLOOKUP'].cfg.get(
        'args_parser')

    def base_and_kw(av):
        kw = {}
        while isinstance(av, CallV) and isinstance(av.fn, Ext) and \
                av.fn.name == 'functools.partial' and av.args:
            kw.update(av.kw)
            av = av.args[0]
        return (av.fi if isinstance(av, FuncV) else None), kw

    hb, hkw = base_and_kw(hp)
    vb, vkw = base_and_kw(vp)
    if hb is not None and hb is vb:
        ht = hkw.get('transpose')
        vt = vkw.get('transpose')
        hv = ht.v if is_const(ht) else False
        vv = vt.v if is_const(vt) else False
        if bool(vv) and not bool(hv) and set(hkw) | set(vkw) <= {'transpose'}:
            rr.ok('HLOOKUP and VLOOKUP share %s; only VLOOKUP binds '
                  'transpose=True' % hb.qualname, regs['VLOOKUP'].site)
        else:
            rr.fail('%s::registration VLOOKUP::transpose binding' % LOOK,
                    'HLOOKUP/VLOOKUP parsers bind %s / %s: expected only '
                    'VLOOKUP to transpose the table' % (
                        {k: v for k, v in hkw.items()},
                        {k: v for k, v in vkw.items()}), file=LOOK,
                    function="FUNCTIONS['VLOOKUP']",
                    line=regs['VLOOKUP'].lineno)
    else:
        rr.fail('%s::registration VLOOKUP::own args parser' % LOOK,
                'HLOOKUP and VLOOKUP no longer share one argument parser',
                file=LOOK, function="FUNCTIONS['VLOOKUP']",
                line=regs['VLOOKUP'].lineno)
    # criteria functions
    xf = p.func(FUNCS_REL, 'xfilter')
    want = {'COUNTIF': ('ext', 'builtins.len'), 'SUMIF': ('func', 'xsum'),
            'AVERAGEIF': ('var', 'xaverage')}
    for name, acc in want.items():
        reg = R.functions.get(name)
        rr.instances += 1
        if reg is None:
            raise AnalysisError('%s not registered' % name)
        core = reg.core
        good = core.kind == 'func' and core.fi is xf and core.bound_args
        accname = None
        if good:
            a0 = core.bound_args[0]
            from ..peval import Ext as _E
            if isinstance(a0, _E):
                accname = a0.name
            elif isinstance(a0, FuncV):
                accname = a0.fi.name
            elif isinstance(a0, CallV):
                # xaverage = partial(xfunc, func=_xaverage, default=None)
                f0 = a0.kw.get('func')
                accname = 'xaverage' if isinstance(f0, FuncV) and \
                    f0.fi.name == '_xaverage' else repr(a0)
            good = accname in (acc[1], acc[1].split('.')[-1]) or (
                acc[1] == 'builtins.len' and accname == 'builtins.len')
        if good:
            rr.ok('%s = xfilter bound to %s' % (name, accname), reg.site)
        else:
            rr.fail('%s::registration %s::criteria core' % (
                reg.module.rel, name),
                '%s is not the shared criteria filter bound to %s (core: %s, '
                'accumulator %s)' % (name, acc[1], core.describe(), accname),
                file=reg.module.rel, function='FUNCTIONS[%r]' % name,
                line=reg.lineno)
    return rr


def rule_typed(ctx):
    rr = RuleResult('C19', 'C19.typed', 'CBU',
                    'comparisons happen within one type rank', floor=5)
    p = ctx.project
    gt = p.func(LOOK, '_get_type_id')
    xfi = p.func(FUNCS_REL, '_xfilter')
    rr.instances += 1
    # the comparison operator variable: bound from LOGIC_OPERATORS[...]
    scopes = [xfi] + list(xfi.nested.values()) + list(xfi.lambdas)
    opvars = set()
    from ..util import assign_pairs
    for t, v, _st in assign_pairs(xfi):
        if isinstance(t, ast.Name) and isinstance(v, ast.Subscript) and \
                'LOGIC_OPERATORS' in norm_src(v.value):
            opvars.add(t.id)
    # ... or looked up where it is applied: LOGIC_OPERATORS[op](value, crit)
    direct = [(g0, n) for g0 in scopes
              for n in (own_nodes(g0) if g0 is xfi else ast.walk(g0.node))
              if isinstance(n, ast.Call) and isinstance(
                  n.func, ast.Subscript) and 'LOGIC_OPERATORS' in norm_src(
                  n.func.value) and n.args]
    if not opvars and not direct:
        raise AnalysisError('_xfilter: comparison operator lookup not found')

    # helpers the operator is handed to - called, or bound with
    # functools.partial: their parameter is the operator there, and a
    # parameter bound to _get_type_id is the rank function there
    binds = {}   # helper fq -> {param: argument expression in _xfilter}
    for g0 in list(scopes):
        for n in (own_nodes(g0) if g0 is xfi else ast.walk(g0.node)):
            if not isinstance(n, ast.Call):
                continue
            fexpr, args = n.func, list(n.args)
            if ctx.cg.resolve_name_expr(g0, fexpr) == (
                    'ext', 'functools.partial') and args:
                fexpr, args = args[0], args[1:]
            if not any(isinstance(a, ast.Name) and a.id in opvars
                       for a in args):
                continue
            r_ = ctx.cg.resolve_name_expr(g0, fexpr) if isinstance(
                fexpr, (ast.Name, ast.Attribute)) else None
            if r_ and r_[0] == 'func' and r_[1] not in scopes:
                h = r_[1]
                binds[h.fq] = {h.params[i]: a for i, a in enumerate(args)
                               if i < len(h.params)}
                scopes.append(h)

    def is_rank_call(g, e, of=None):
        if not (isinstance(e, ast.Call) and e.args):
            return False
        hit = ctx.cg.resolve_name_expr(g, e.func) == ('func', gt)
        if not hit and isinstance(e.func, ast.Name):
            a = binds.get(g.fq, {}).get(e.func.id)
            hit = a is not None and ctx.cg.resolve_name_expr(
                xfi, a) == ('func', gt)
        if not hit:
            return False
        return of is None or norm_src(e.args[0]) == of

    cmp_calls = []
    for g in scopes:
        nodes = own_nodes(g) if g is xfi else ast.walk(g.node)
        ops_here = opvars if g.fq not in binds else {
            prm for prm, a in binds[g.fq].items()
            if isinstance(a, ast.Name) and a.id in opvars}
        for n in nodes:
            if isinstance(n, ast.Call) and isinstance(n.func, ast.Name) and \
                    n.func.id in ops_here and n.args:
                cmp_calls.append((g, n))
    cmp_calls += [d for d in direct if not any(d[1] is c for _g, c in
                                               cmp_calls)]
    if not cmp_calls:
        raise AnalysisError('_xfilter: no call of the comparison operator')
    for g, call in cmp_calls:
        val = norm_src(call.args[0])
        ok = False
        # (a) rank(value) == rank(criterion) and operator(value, criterion)
        for n in ast.walk(g.node):
            if isinstance(n, ast.BoolOp) and isinstance(n.op, ast.And):
                idx = [i for i, v in enumerate(n.values)
                       if any(c is call for c in ast.walk(v))]
                if not idx:
                    continue
                for v in n.values[:idx[0]]:
                    if isinstance(v, ast.Compare) and len(v.ops) == 1 and \
                            isinstance(v.ops[0], ast.Eq) and (
                            is_rank_call(g, v.left, val) or
                            is_rank_call(g, v.comparators[0], val)):
                        ok = True
        # (b) operator applied to the elements selected by a rank-equality mask
        if not ok:
            for n in ast.walk(g.node):
                if isinstance(n, (ast.ListComp, ast.GeneratorExp)) and any(
                        c is call for c in ast.walk(n.elt)):
                    it = n.generators[0].iter
                    if isinstance(it, ast.Subscript) and isinstance(
                            it.slice, ast.Name):
                        mask = it.slice.id
                        for t, v, _st in assign_pairs(g):
                            if isinstance(t, ast.Name) and t.id == mask and \
                                    isinstance(v, ast.Compare) and len(
                                    v.ops) == 1 and isinstance(v.ops[0], ast.Eq):
                                ok = 'mask'
        if ok:
            rr.ok('criterion comparison `%s` is applied only to values whose '
                  'rank equals the criterion\'s (%s)' % (
                      norm_src(call), 'short-circuit and' if ok is True else
                      'rank-equality mask; its memo slot is checked by '
                      'C19.slotmemo'), '%s:%d' % (g.module.rel, call.lineno))
        else:
            rr.fail(key_of(xfi, 'criterion compared across types'),
                    '_xfilter applies the comparison `%s` without first '
                    'testing `rank(value) == rank(criterion)`' % norm_src(call),
                    file=g.module.rel, function=g.qualname, line=call.lineno)
    # type_id computed from the criterion with the shared rank function
    rr.instances += 1
    tid = [n for n in own_nodes(xfi) if isinstance(n, ast.Call)
           and ctx.cg.resolve_name_expr(xfi, n.func) == ('func', gt)]
    if tid:
        rr.ok('criterion rank comes from _get_type_id', xfi.module.rel)
    else:
        rr.fail(key_of(xfi, 'criterion rank not from _get_type_id'),
                '_xfilter does not rank the criterion with _get_type_id',
                file=xfi.module.rel, function=xfi.qualname, line=xfi.lineno)
    # xmatch: candidates filtered by type equality before scans
    xm = p.func(LOOK, 'xmatch')
    cfg = CFG(xm)
    dom = cfg.dominators()
    prm = xm.params
    filt = None
    for n in own_nodes(xm):
        if isinstance(n, ast.Assign) and isinstance(n.value, ast.Compare) and \
                isinstance(n.value.ops[0], ast.Eq) and isinstance(
                n.targets[0], ast.Name):
            names = {x.id for x in ast.walk(n.value) if isinstance(x, ast.Name)}
            if {'lookup_value_type', 'lookup_array_type'} <= names or (
                    len(prm) >= 4 and {prm[0], prm[3]} <= names):
                filt = n
    rr.instances += 1
    if filt is None:
        rr.fail(key_of(xm, 'candidates not filtered by type'),
                'xmatch no longer restricts the candidates to those of the '
                "lookup value's own type rank", file=xm.module.rel,
                function=xm.qualname, line=xm.lineno)
    else:
        mask = filt.targets[0].id
        filtered = {}
        for n in own_nodes(xm):
            if isinstance(n, ast.Assign) and isinstance(n.value, ast.Subscript) \
                    and isinstance(n.value.slice, ast.Name) and \
                    n.value.slice.id == mask and isinstance(
                    n.targets[0], ast.Name):
                filtered[n.targets[0].id] = n
        loops = [n for n in own_nodes(xm) if isinstance(n, ast.For)]
        bad = None
        for lp in loops:
            names = {x.id for x in ast.walk(lp.iter) if isinstance(x, ast.Name)}
            if not names & set(filtered):
                bad = lp
            elif not all(cfg.dominates(cfg.node_of(filtered[k]),
                                       cfg.node_of(lp), dom)
                         for k in names & set(filtered)):
                bad = lp
        if bad is not None or not filtered:
            rr.fail(key_of(xm, 'scan over unfiltered candidates'),
                    'xmatch scans `%s`, not the type-filtered candidates' % (
                        norm_src(bad.iter) if bad is not None else '?'),
                    file=xm.module.rel, function=xm.qualname,
                    line=bad.lineno if bad is not None else xm.lineno)
        else:
            rr.ok('xmatch scans only candidates whose rank equals the lookup '
                  "value's (filter `%s`)" % norm_src(filt.value),
                  '%s:%d' % (xm.module.rel, filt.lineno))
    # ... and the key is never compared with the *unfiltered* candidates
    if len(prm) >= 5:
        rr.instances += 1
        raw = [n for n in own_nodes(xm) if isinstance(n, ast.Compare) and
               {prm[1], prm[4]} <= {x.id for x in [n.left] + list(
                   n.comparators) if isinstance(x, ast.Name)}]
        if raw:
            rr.fail(key_of(xm, 'key compared with unfiltered candidates'),
                    'xmatch evaluates `%s`: the key is compared with every '
                    'candidate, whatever its type rank - TRUE == 1 and FALSE '
                    '== 0 compare equal, so a logical matches a number' %
                    norm_src(raw[0]), file=xm.module.rel,
                    function=xm.qualname, line=raw[0].lineno)
        else:
            rr.ok('xmatch never compares the key with the unfiltered '
                  'candidate array', xm.module.rel)
    # three modes, exhaustive, with the right comparison direction
    top_if = [n for n in xm.node.body if isinstance(n, ast.If)]
    mode_if = None
    for n in top_if:
        c = _cmp_norm(n.test, 'match_type')
        if c and c[1] == '0':
            mode_if = n
    rr.instances += 3
    if mode_if is None:
        raise AnalysisError('xmatch: match_type dispatch not recognised')
    c1 = _cmp_norm(mode_if.test, 'match_type')
    second = mode_if.orelse[0] if len(mode_if.orelse) == 1 and isinstance(
        mode_if.orelse[0], ast.If) else None
    c2 = _cmp_norm(second.test, 'match_type') if second is not None else None
    modes = {}
    if c1:
        modes[c1[0]] = mode_if.body
    if c2:
        modes[c2[0]] = second.body
    if set(modes) == {'Gt', 'Lt'} and second is not None and second.orelse:
        rr.ok('match modes are an exhaustive  >0 / <0 / else  split',
              '%s:%d' % (xm.module.rel, mode_if.lineno))
    else:
        rr.fail(key_of(xm, 'match modes not exhaustive'),
                'xmatch dispatches on match_type with %s; expected >0, <0 and '
                'an else branch for exact match' % sorted(modes),
                file=xm.module.rel, function=xm.qualname, line=mode_if.lineno)
        return rr
    for mode, want, text in (('Gt', 'LtE', 'largest element not greater than '
                                           'the key (recorded while x <= val)'),
                             ('Lt', 'GtE', 'smallest element not smaller than '
                                           'the key (recorded while x >= val, '
                                           'scan stops at the first x < val)')):
        # the scan predicate of the branch: a nested def, or a module-level
        # function selected by name (possibly through functools.partial)
        defs, shift = [s for s in modes[mode]
                       if isinstance(s, ast.FunctionDef)], 0
        if not defs:
            for s_ in modes[mode]:
                if not (isinstance(s_, ast.Assign) and len(s_.targets) == 1
                        and isinstance(s_.targets[0], ast.Name)):
                    continue
                v_, sh = s_.value, 0
                if isinstance(v_, ast.Call) and ctx.cg.resolve_name_expr(
                        xm, v_.func) == ('ext', 'functools.partial') and \
                        v_.args and not v_.keywords:
                    v_, sh = v_.args[0], len(v_.args) - 1
                r_ = ctx.cg.resolve_name_expr(xm, v_) if isinstance(
                    v_, (ast.Name, ast.Attribute)) else None
                if r_ and r_[0] == 'func' and isinstance(
                        r_[1].node, ast.FunctionDef):
                    defs, shift = [r_[1].node], sh
        if len(defs) != 1 or len(defs[0].args.args) < 3 + shift:
            raise AnalysisError('xmatch: the scan predicate of the match_type '
                                '%s 0 branch was not recognised'
                                % ('>' if mode == 'Gt' else '<'))
        # the condition under which the predicate records the candidate
        # (`r[0] = j`), read from the path conditions of that store - the same
        # whether the code nests the store or leaves early before it
        from ..util import path_conditions
        cand = defs[0].args.args[1 + shift].arg
        val = defs[0].args.args[2 + shift].arg
        pfi = p.func_of_node.get(id(defs[0]))
        stores = [n for n in ast.walk(defs[0]) if isinstance(n, ast.Assign)
                  and isinstance(n.targets[0], ast.Subscript)
                  and isinstance(n.targets[0].value, ast.Name)
                  and n.targets[0].value.id in [a.arg for a in
                                                defs[0].args.args]]
        if pfi is None or len(stores) != 1:
            raise AnalysisError('xmatch: the store that records a candidate '
                                'was not recognised in the match_type %s 0 '
                                'predicate' % ('>' if mode == 'Gt' else '<'))
        neg = {'Lt': 'GtE', 'GtE': 'Lt', 'Gt': 'LtE', 'LtE': 'Gt'}
        eff = []
        for t_, pol in path_conditions(pfi, stores[0]):
            c = _cmp_norm(t_, cand)
            if c and c[1] == val and c[0] in neg:
                eff.append(c[0] if pol else neg[c[0]])
        if len(eff) != 1:
            raise AnalysisError('xmatch: no single ordering test between the '
                                'candidate and the key guards the recording '
                                'store (match_type %s 0)'
                                % ('>' if mode == 'Gt' else '<'))
        ok = eff[0] == want
        if ok:
            rr.ok('match_type %s 0: %s' % ('>' if mode == 'Gt' else '<', text),
                  '%s:%d' % (xm.module.rel, defs[0].lineno))
        else:
            rr.fail(key_of(xm, 'mode %s comparison direction' % mode),
                    'xmatch, match_type %s 0: the scan comparison is not %s' % (
                        '>' if mode == 'Gt' else '<', text),
                    file=xm.module.rel, function=xm.qualname,
                    line=defs[0].lineno if defs else mode_if.lineno)
    return rr


def _guards(ctx, regs):
    from .common import rule_stale_guard, reg_targets
    funcs = []
    for reg in regs:
        fs, _ = reg_targets(ctx, reg)
        funcs += [f for f in fs if f not in funcs]
    funcs = [f for f in ctx.cg.reachable(funcs).values()]
    funcs = sorted({f[0].fq: f[0] for f in funcs}.values(), key=lambda f: f.fq)
    return rule_stale_guard(ctx, 'C19', 'C19.guard', funcs)


def run(ctx):
    S = ctx.soft
    from .c02 import rule_rank
    r = S(rule_rank, ctx)
    r.prop, r.rule = 'C19', 'C19.rank'
    for f in r.findings:
        f.prop, f.rule = 'C19', 'C19.rank'
    for o in r.obligations:
        o.rule = 'C19.rank'
    from .common import rule_memo
    names = ('MATCH', 'LOOKUP', 'VLOOKUP', 'HLOOKUP', 'INDEX', 'COUNTIF',
             'SUMIF', 'AVERAGEIF')
    regs = [ctx.registry.functions[n] for n in names
            if n in ctx.registry.functions]
    from .common import rule_slotmemo, nomut_for
    fm = [f for f in ctx.project.functions.values()
          if f.module.rel.startswith('formulas/functions/')]
    return [S(rule_core, ctx), S(rule_typed, ctx), r,
            S(rule_memo, ctx, 'C19', 'C19.memo', regs),
            S(rule_slotmemo, ctx, 'C19', 'C19.slotmemo', fm),
            S(nomut_for, ctx, 'C19', 'C19.nomut', regs, floor=20),
            S(_guards, ctx, regs)]
