"""C15 - partial load: work-list discipline of ExcelModel.complete (structural clauses)."""
import ast

from ..model import AnalysisError, own_nodes, norm_src
from ..report import RuleResult
from ..cfg import CFG
from ..util import key_of, src, call_name, kwarg
from ..pattern import find, has, match

META = {
    'decides': (
        'C15, the work-list discipline only: (worklist) ExcelModel.complete '
        'tests every popped node against the done-set before processing it and '
        'marks it done; every branch that adds something to the graph pushes '
        'what that thing depends on (a reference\'s inputs, the spill range '
        'behind an anchor, the inputs of each cell added); whole rows/columns '
        'are clipped with min(bound, sheet maximum); from_ranges seeds the '
        'work-list with the requested ranges; (snapshot) a local copy of the '
        'derived `references` property is never used after a call that can '
        'load a workbook (and so define names) without being re-read, on any '
        'path including the exception edges; (bounds) row bounds are compared '
        'as numbers and sizes are inclusive in every rectangle test the '
        'work-list and add_cell rely on; (drop) every path of add_cell '
        'that discards a cell is a duplicate, a blank, or - for a constant '
        'covered by an array formula - is matched by the caller enqueuing the '
        'covering formula.'
        ' (cachekey) the per-run cache of sheet extents is keyed by what the cached value is computed from (the worksheet, not its title).'
        ' (carry) what a node of the work-list becomes - cells or an error placeholder - is not decided by a container the loop fills while processing other nodes.'),
    'not_decided': (
        'Equality of values with the fully loaded model and idempotence of '
        'finish().'),
    'trusted_base': ['CPython ast'],
    'assumptions': [],
}

EXCEL = 'formulas/excel/__init__.py'


def _push_scopes(ctx, f, stmts, stack):
    """Where values get onto the work-list `stack` from these statements of f:
    [(statements, name of the list pushed to, [list literals returned])] -
    the statements themselves; a private helper that is handed the work-list
    (the list is its parameter); a private helper whose result is pushed
    (`stack.extend(self._helper(...))`: the list it returns, built under a
    local name or written as a literal)."""
    out = [(stmts, stack, [])]
    for s in stmts:
        for c in ast.walk(s):
            if not isinstance(c, ast.Call):
                continue
            # helper handed the work-list
            if any(norm_src(a) == stack for a in c.args):
                for e in ctx.cg._resolve_callee(f, c.func, c, 'call'):
                    if e.is_ext or e.precision != 'exact':
                        continue
                    h = e.dst
                    prm = h.params[1:] if h.cls is not None else h.params
                    for i, a in enumerate(c.args):
                        if norm_src(a) == stack and i < len(prm):
                            out.append((h.node.body, prm[i], []))
            # helper whose result is pushed
            if call_name(c) in ('extend', 'append') and isinstance(
                    c.func, ast.Attribute) and norm_src(
                    c.func.value) == stack and c.args and isinstance(
                    c.args[0], ast.Call):
                for e in ctx.cg._resolve_callee(f, c.args[0].func, c.args[0],
                                                'call'):
                    if e.is_ext or e.precision != 'exact':
                        continue
                    h = e.dst
                    rets = [n.value for n in own_nodes(h) if isinstance(
                        n, ast.Return) and n.value is not None]
                    names = {r.id for r in rets if isinstance(r, ast.Name)}
                    lits = [r for r in rets if isinstance(r, (ast.List,
                                                             ast.Tuple))]
                    for nm in sorted(names) or [None]:
                        out.append((h.node.body, nm, lits))
    return out


def _private_callee(ctx, g, call):
    eds = [e for e in ctx.cg._resolve_callee(g, call.func, call, 'call')
           if not e.is_ext and e.precision == 'exact']
    if len(eds) == 1 and eds[0].dst.name.startswith('_') and \
            not eds[0].dst.name.startswith('__'):
        return eds[0].dst
    return None


def _worklist_scopes(ctx, f, stmts, stack):
    """[(function, statements, name of the work-list there or None, are its
    return values pushed?)]: the loop body and, transitively, the private
    helpers that are handed the list or whose result is pushed."""
    out = [(f, stmts, stack, False)]
    seen = set()
    i = 0
    while i < len(out) and len(out) < 12:
        g, body, wl, rp = out[i]
        i += 1
        for st in body:
            for c in ast.walk(st):
                h = arg_wl = None
                pushed_result = False
                if isinstance(c, ast.Call) and wl is not None and \
                        isinstance(c.func, ast.Attribute) and c.func.attr in (
                        'extend', 'append') and norm_src(
                        c.func.value) == wl and c.args and isinstance(
                        c.args[0], ast.Call):
                    h, pushed_result = _private_callee(ctx, g, c.args[0]), True
                elif isinstance(c, ast.Return) and rp and isinstance(
                        c.value, ast.Call):
                    h, pushed_result = _private_callee(ctx, g, c.value), True
                elif isinstance(c, ast.Call) and wl is not None and any(
                        norm_src(a) == wl for a in c.args):
                    h = _private_callee(ctx, g, c)
                    if h is not None:
                        prm = h.params[1:] if h.cls is not None else h.params
                        for j, a in enumerate(c.args):
                            if norm_src(a) == wl and j < len(prm):
                                arg_wl = prm[j]
                if h is None or (h.fq, pushed_result) in seen:
                    continue
                seen.add((h.fq, pushed_result))
                if pushed_result:
                    rets = [n.value for n in own_nodes(h) if isinstance(
                        n, ast.Return) and isinstance(n.value, ast.Name)]
                    out.append((h, h.node.body,
                                rets[0].id if rets else None, True))
                elif arg_wl:
                    out.append((h, h.node.body, arg_wl, False))
    return out


def _pushed(ctx, scope, stmts, scopes, depth=0):
    """Expressions whose value reaches the work-list from these statements of
    a scope: arguments of append/extend on its list, its return values when
    they are pushed by the caller, and - through calls of private helpers -
    what those push."""
    g, _body, wl, rp = scope
    out = []

    def expand(e):
        if isinstance(e, ast.BoolOp) and isinstance(e.op, ast.Or):
            e = e.values[0]
        if isinstance(e, (ast.Tuple, ast.List)):
            for x in e.elts:
                expand(x)
            return
        if isinstance(e, ast.Call) and depth < 3:
            h = _private_callee(ctx, g, e)
            if h is not None:
                for sc in scopes:
                    if sc[0] is h and sc[3]:
                        out.extend(_pushed(ctx, sc, sc[1], scopes, depth + 1))
                        return
        if isinstance(e, ast.Name) and wl is not None and e.id == wl:
            return
        out.append(e)

    for st in stmts:
        for c in ast.walk(st):
            if isinstance(c, ast.Call) and wl is not None and isinstance(
                    c.func, ast.Attribute) and c.func.attr in (
                    'append', 'extend') and norm_src(c.func.value) == wl \
                    and c.args:
                expand(c.args[0])
            elif isinstance(c, ast.Return) and rp and c.value is not None:
                expand(c.value)
            elif isinstance(c, ast.Call) and wl is not None and depth < 3 \
                    and any(norm_src(a) == wl for a in c.args):
                # a helper that is handed the list pushes on our behalf
                h = _private_callee(ctx, g, c)
                for sc in scopes:
                    if h is not None and sc[0] is h and not sc[3]:
                        out.extend(_pushed(ctx, sc, sc[1], scopes, depth + 1))
    return out


def rule_worklist(ctx):
    rr = RuleResult('C15', 'C15.worklist', 'MPT',
                    'work-list discipline of complete()', floor=6)
    p = ctx.project
    f = p.func(EXCEL, 'ExcelModel.complete')
    loops = [n for n in own_nodes(f) if isinstance(n, ast.While)]
    if len(loops) != 1:
        raise AnalysisError('complete: expected one while loop')
    lp = loops[0]
    stack = norm_src(lp.test)
    cfg = CFG(f)
    dom = cfg.dominators()
    # pop
    pops = [n for n in lp.body if isinstance(n, ast.Assign) and isinstance(
        n.value, ast.Call) and call_name(n.value) == 'pop' and norm_src(
        n.value.func.value) == stack]
    if len(pops) != 1 or pops[0] is not lp.body[0]:
        raise AnalysisError('complete: the loop does not start by popping the '
                            'work-list')
    node = pops[0].targets[0].id
    rr.instances += 1
    # done test directly after
    guard = lp.body[1] if len(lp.body) > 1 else None
    # the done-set: the collection S with `S.add(<node>)` as third statement
    done = None
    if len(lp.body) > 2 and isinstance(lp.body[2], ast.Expr) and isinstance(
            lp.body[2].value, ast.Call) and call_name(lp.body[2].value) == \
            'add' and [norm_src(a) for a in lp.body[2].value.args] == [node]:
        done = norm_src(lp.body[2].value.func.value)
    gok = done is not None and isinstance(guard, ast.If) and (
        '%s in %s' % (node, done)) in norm_src(guard.test) and any(
        isinstance(s, ast.Continue) for s in guard.body)
    mark = [n for n in lp.body if done is not None and isinstance(
        n, ast.Expr) and norm_src(n.value) == '%s.add(%s)' % (done, node)]
    if gok and mark and lp.body.index(mark[0]) == 2:
        rr.ok('popped node is skipped if already done, else marked done before '
              'processing', '%s:%d' % (EXCEL, guard.lineno))
    else:
        rr.fail(key_of(f, 'done-set discipline'),
                'complete() no longer tests the popped node against `done` '
                'and marks it before processing: a node can be processed twice '
                'or the loop may not terminate', file=EXCEL,
                function=f.qualname, line=lp.lineno)
    # done initialised from cells
    rr.instances += 1
    from ..util import assign_pairs as _pairs
    init = [v for t, v, _st in _pairs(f)
            if isinstance(t, ast.Name) and t.id == done]
    if init and 'self.cells' in norm_src(init[0]):
        rr.ok('done-set starts from the cells already loaded', EXCEL)
    else:
        rr.fail(key_of(f, 'done-set initialisation'),
                'the done-set is not initialised from self.cells', file=EXCEL,
                function=f.qualname, line=f.lineno)
    # pushes: what gets onto the work-list, wherever the code that decides
    # it lives - the loop body, a private helper that is handed the list, or
    # a private helper whose *result* is pushed (its return values count)
    scopes = _worklist_scopes(ctx, f, lp.body, stack)
    rr.instances += 3

    def under(scope, stmts):
        return _pushed(ctx, scope, stmts, scopes)

    # (1) reference branch
    ref_alias = {'self.references'}
    from ..util import assign_pairs
    for g, _b, _wl, _rp in scopes:
        for t, v, _st in assign_pairs(g):
            if isinstance(t, ast.Name) and norm_src(v) == 'self.references':
                ref_alias.add(t.id)
    ref_ifs = [(sc, n) for sc in scopes for st in sc[1] for n in ast.walk(st)
               if isinstance(n, ast.If) and any(
                   norm_src(n.test).endswith(' in %s' % a) for a in ref_alias)]
    if not ref_ifs:
        raise AnalysisError('complete: the branch for defined names (`<node> '
                            'in self.references`) was not found')
    if any('.inputs' in norm_src(e) for sc, n in ref_ifs
           for e in under(sc, n.body)):
        rr.ok('a defined name pushes the inputs of its reference cell',
              '%s:%d' % (EXCEL, ref_ifs[0][1].lineno))
    else:
        rr.fail(key_of(f, 'reference inputs not pushed'),
                'for a defined name complete() no longer enqueues the inputs '
                'of the reference: the cells a name points to are not loaded',
                file=EXCEL, function=f.qualname, line=lp.lineno)
    # (2) anchor branch
    anch = [(sc, n) for sc in scopes for st in sc[1] for n in ast.walk(st)
            if isinstance(n, ast.If) and
            match("__rng.get('anchor')", n.test) is not None]
    if not anch:
        raise AnalysisError('complete: the anchor branch (`rng.get(\'anchor'
                            '\')`) was not found')
    aok = False
    for sc, n in anch:
        vals = under(sc, n.body)
        # the range the anchor is linked to: inputs=[...] of the add_function
        # in the branch or in the helper it delegates to
        fns = [c for st in n.body for c in ast.walk(st)
               if isinstance(c, ast.Call) and call_name(c) == 'add_function']
        for st in n.body:
            for c in ast.walk(st):
                if isinstance(c, ast.Call):
                    for e in ctx.cg._resolve_callee(sc[0], c.func, c, 'call'):
                        if not e.is_ext and e.precision == 'exact' and \
                                e.dst.name.startswith('_'):
                            fns += [c2 for c2 in own_nodes(e.dst)
                                    if isinstance(c2, ast.Call) and
                                    call_name(c2) == 'add_function']
        for fn_ in fns:
            inputs = kwarg(fn_, 'inputs') or (
                fn_.args[2] if len(fn_.args) > 2 else None)
            if inputs is not None and any(
                    norm_src(v_) in norm_src(inputs) for v_ in vals):
                aok = True
    if aok:
        rr.ok('an anchor (A1#) links to the spill range and pushes that range',
              '%s:%d' % (EXCEL, anch[0][1].lineno))
    else:
        rr.fail(key_of(f, 'spill range not pushed'),
                'for an anchor reference complete() no longer enqueues the '
                'array-formula range it links to', file=EXCEL,
                function=f.qualname, line=lp.lineno)
    # (3) cells added push their inputs
    cok, seen_add = False, False
    for sc in scopes:
        for n in [x for s_ in sc[1] for x in ast.walk(s_)]:
            if not isinstance(n, ast.For):
                continue
            adds = [s for s in n.body if isinstance(s, ast.Assign) and any(
                isinstance(c, ast.Call) and call_name(c) == 'add_cell'
                for c in ast.walk(s.value))]
            if not adds:
                continue
            seen_add = True
            var = adds[0].targets[0].id
            for s in n.body:
                if isinstance(s, ast.If) and norm_src(s.test) == var and any(
                        ('%s.inputs' % var) in norm_src(e)
                        for e in under(sc, s.body)):
                    cok = True
    if not seen_add:
        raise AnalysisError('complete: the loop that adds the cells read from '
                            'a sheet was not found')
    if cok:
        rr.ok('every cell added pushes its inputs', EXCEL)
    else:
        rr.fail(key_of(f, 'cell inputs not pushed'),
                'after adding a cell complete() no longer enqueues the cell\'s '
                'inputs: precedents of loaded formulas are missing from a '
                'partially loaded model', file=EXCEL, function=f.qualname,
                line=lp.lineno)
    # clipping
    rr.instances += 1
    it = [n for n in ast.walk(lp) if isinstance(n, ast.Call)
          and call_name(n) == 'iter_rows']
    if not it:
        # the window may be read by a private helper of complete()
        from ..util import nodes_with_helpers
        it = [n for _g, n in nodes_with_helpers(ctx, f)
              if isinstance(n, ast.Call) and call_name(n) == 'iter_rows']
    if it and len(it[0].args) == 4:
        a = [norm_src(x) for x in it[0].args]
        good = match("__wk.iter_rows(int(__rng['r1']), min(int(__rng['r2']), "
                     "___mr), __rng['n1'], min(__rng['n2'], ___mc))",
                     it[0]) is not None
        if good:
            rr.ok('rows/columns are read from r1..min(r2, max_row), '
                  'n1..min(n2, max_column)', '%s:%d' % (EXCEL, it[0].lineno))
        else:
            rr.fail(key_of(f, 'clipping'),
                    'the cell window is read with bounds %s; expected '
                    'r1..min(r2, max_row), n1..min(n2, max_column): cells of '
                    'the requested range are skipped or the whole grid is '
                    'scanned' % a, file=EXCEL, function=f.qualname,
                    line=it[0].lineno)
    else:
        raise AnalysisError('complete: iter_rows call not recognised')
    # from_ranges seeds the work-list
    fr = p.func(EXCEL, 'ExcelModel.from_ranges')
    rr.instances += 1
    if any(isinstance(n, ast.Call) and call_name(n) == 'complete' and n.args and
           norm_src(n.args[0]) == (fr.vararg or '') for n in own_nodes(fr)):
        rr.ok('from_ranges passes the requested ranges as the initial '
              'work-list', EXCEL)
    else:
        rr.fail(key_of(fr, 'does not seed the work-list'),
                'from_ranges no longer hands the requested ranges to '
                'complete()', file=EXCEL, function=fr.qualname, line=fr.lineno)
    return rr


def rule_drop(ctx):
    rr = RuleResult('C15', 'C15.drop', 'MPT',
                    'every discarding path of add_cell is justified', floor=3)
    p = ctx.project
    ac = p.func(EXCEL, 'ExcelModel.add_cell')
    comp = p.func(EXCEL, 'ExcelModel.complete')
    fr_param = ac.params[3] if len(ac.params) > 3 else None
    # classify `return` (None) statements by their guarding conditions
    def walk(stmts, guards, out):
        for st in stmts:
            if isinstance(st, ast.If):
                walk(st.body, guards + [norm_src(st.test)], out)
                walk(st.orelse, guards, out)
            elif isinstance(st, (ast.For, ast.While)):
                # `for r in rs: if c: return` is `if any(c for r in rs):
                # return`: the loop is part of the condition
                head = 'for %s in %s' % (norm_src(st.target), norm_src(
                    st.iter)) if isinstance(st, ast.For) else \
                    'while %s' % norm_src(st.test)
                inner = []
                walk(st.body, [], inner)
                for r_, g_ in inner:
                    out.append((r_, guards + [' '.join(g_ + [head])]))
                walk(st.orelse, guards, out)
            elif isinstance(st, (ast.With, ast.Try)):
                walk(st.body, guards, out)
            elif isinstance(st, ast.Return):
                out.append((st, list(guards)))
    rets = []
    walk(ac.node.body, [], rets)
    none_rets = [(r, g) for r, g in rets if r.value is None]
    implicit_none = not isinstance(ac.node.body[-1], ast.Return)
    for r, g in none_rets:
        rr.instances += 1
        gt = ' and '.join(g)
        cellp0 = ac.params[1] if len(ac.params) > 1 else 'cell'
        if 'in self.cells' in gt and len(g) == 1:
            rr.ok('drop: duplicate (already loaded) - `%s`' % gt,
                  '%s:%d' % (EXCEL, r.lineno))
        elif len(g) == 1 and gt.startswith('not %s.add(' % cellp0):
            rr.ok('drop: Cell.add() reported nothing to add (blank cell) - '
                  '`%s`' % gt, '%s:%d' % (EXCEL, r.lineno))
        elif fr_param and fr_param in gt:
            # the caller must enqueue the covering formula
            handled = False
            wl = [norm_src(w.test) for w in own_nodes(comp)
                  if isinstance(w, ast.While)]
            for n in own_nodes(comp):
                if isinstance(n, ast.Call) and call_name(n) in (
                        'extend', 'append') and norm_src(n.func.value) in wl:
                    if any(k in norm_src(n) for k in (
                            'formula_ranges', 'formula_references', 'covering',
                            'anchor_of')):
                        handled = True
            if handled:
                rr.ok('drop: constant covered by an array formula; complete() '
                      'enqueues the covering formula', '%s:%d' % (
                          EXCEL, r.lineno))
            else:
                rr.fail(key_of(comp, 'covered constant dropped without '
                                     'enqueuing the array formula'),
                        'add_cell discards a constant cell that lies inside an '
                        'array-formula range (`%s`), and complete() enqueues '
                        'nothing in its place: the array formula that defines '
                        'the requested cell is never loaded, the cell stays '
                        'blank' % gt, file=EXCEL, function=comp.qualname,
                        line=r.lineno)
        else:
            rr.fail(key_of(ac, 'unjustified drop `%s`' % gt[:60]),
                    'add_cell discards a cell under the condition `%s`, which '
                    'is not a duplicate, blank or covered-constant case' % gt,
                    file=EXCEL, function=ac.qualname, line=r.lineno)
    if implicit_none:
        rr.instances += 1
        last_if = [s for s in ac.node.body if isinstance(s, ast.If)][-1]
        cellp = ac.params[1] if len(ac.params) > 1 else 'cell'
        if ('%s.add(' % cellp) in norm_src(last_if.test):
            rr.ok('drop: Cell.add() reported nothing to add (blank cell)',
                  '%s:%d' % (EXCEL, last_if.lineno))
        else:
            rr.fail(key_of(ac, 'falls through to None'),
                    'add_cell can fall through without adding the cell',
                    file=EXCEL, function=ac.qualname, line=ac.lineno)
    return rr


def run(ctx):
    S = ctx.soft
    from .common import rule_cachekey
    from .modelstate import rule_snapshot
    from .c03 import _bounds
    from .c14 import rule_carry
    return [S(rule_worklist, ctx), S(rule_drop, ctx),
            S(rule_snapshot, ctx, 'C15', 'C15.snapshot'),
            S(_bounds, ctx, 'C15'),
            S(rule_cachekey, ctx, 'C15', 'C15.cachekey', [EXCEL]),
            # what a node becomes must not depend on which other nodes the
            # work-list happened to process before it (shared with C14)
            S(rule_carry, ctx, 'C15', 'C15.carry')]
