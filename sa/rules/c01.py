"""C01 - operator grammar parameters and canonical rendering (structural clauses)."""
import ast

from ..model import AnalysisError, own_nodes, norm_src
from ..peval import DictV, FuncV, Const, ClassV, CallV, is_const
from ..report import RuleResult
from ..cfg import CFG
from ..util import key_of, src, call_name, assign_pairs
from .. import rx
from . import tokens_lang as TL

META = {
    'decides': (
        'C01, the grammar\'s parameters and the delimiting of exported text: '
        ' (prec) the precedence table orders the 18 operator names exactly as '
        'Excel\'s binding classes (relation compared for all 324 ordered '
        'pairs); (arity) unary signs and % take one operand, everything else '
        'two; (assoc) the shunting-yard pop relation is "pop while top >= new", '
        'so with (prec) every `a op1 b op2 c` of the 12x12 binary pairs groups '
        'as the spec tree; (unary) a sign is binary exactly after an operand, a '
        'closing parenthesis or %; (names) every name an operator token can '
        'produce is a key of the precedence table and of OPERATORS; (empty) '
        'empty arguments are inserted in the three contexts "(," ",," ",)"; '
        ' (render) every set_expr assigns the expression, binary operators are '
        'rendered inside one pair of parentheses, function names upper-cased, '
        'and no rendering puts a sign next to an operand unparenthesised; '
        ' (fold) the tokenizer does not merge a binary operator with a following '
        'sign; (filters) the matcher order respects the overlaps Error<Range, '
        'Number<Range, Intersect last.'
        ' (predsnap) the rank an operator token is compared with is read after the token has been renamed by its context (no stale copy of `pred`); (signrun) the sign a folded run of + and - stands for is the parity of its minus signs; (filters) the order of the token matchers respects prefix overlaps.'
        ' (freshtoken) a token appended to the builder inside a loop is a new object on every iteration - the builder keys its nodes by token object.'),
    'not_decided': (
        'That parsing every spelling yields the spec tree (whitespace, case, '
        'redundant parentheses, argument counting across nesting) and the '
        'evaluated value.'),
    'trusted_base': ['CPython ast, re._parser', 'spec/operators.json'],
    'assumptions': ['regex languages compared on ASCII, repeats expanded twice'],
}

OP = TL.OPERATOR_REL


def _class_of(spec, name):
    for i, c in enumerate(spec['classes_loosest_first']):
        if name in c:
            return i
    return None


def rule_prec(ctx):
    spec = ctx.spec('operators')
    rr = RuleResult('C01', 'C01.prec', 'TAB',
                    'precedence order relation equals Excel\'s binding classes',
                    floor=12)
    prec = TL.precedences(ctx)
    names = [n for c in spec['classes_loosest_first'] for n in c]
    missing = [n for n in names if n not in prec]
    extra = [n for n in prec if n not in names]
    rr.instances = len(prec)
    for n in missing:
        rr.fail('%s::Operator._precedences::missing %r' % (OP, n),
                'operator %r has no precedence: Operator.pred raises KeyError' % n,
                file=OP, function='Operator._precedences', line=1)
    for n in extra:
        rr.fail('%s::Operator._precedences::unknown %r' % (OP, n),
                'precedence table has the unknown operator %r' % n, file=OP,
                function='Operator._precedences', line=1)
    bad = {}
    npairs = 0
    for a in names:
        for b in names:
            if a in prec and b in prec:
                npairs += 1
                ca, cb = _class_of(spec, a), _class_of(spec, b)
                want = (ca > cb) - (ca < cb)
                got = (prec[a] > prec[b]) - (prec[a] < prec[b])
                if want != got:
                    bad[(a, b)] = (want, got)
                else:
                    rr.ok('rank(%r) %s rank(%r)' % (
                        a, {1: '>', 0: '=', -1: '<'}[got], b), OP,
                        nontrivial=a <= b)
    # report per operator whose relation to some other is wrong (stable key)
    seen = set()
    for (a, b), (want, got) in sorted(bad.items()):
        key = tuple(sorted((a, b)))
        if key in seen:
            continue
        seen.add(key)
        rel = {1: 'tighter than', 0: 'as tight as', -1: 'looser than'}
        rr.fail('%s::Operator._precedences::%r vs %r' % (OP, key[0], key[1]),
                '_precedences makes %r bind %s %r (ranks %s, %s); in Excel it '
                'binds %s' % (a, rel[got], b, prec[a], prec[b], rel[want]),
                file=OP, function='Operator._precedences', line=1)
    rr.note('%d ordered pairs compared' % npairs)
    return rr, prec


def rule_arity(ctx):
    spec = ctx.spec('operators')
    rr = RuleResult('C01', 'C01.arity', 'TAB', 'operator arities', floor=4)
    p = ctx.project
    op = p.cls(OP, 'Operator')
    d = ctx.ev.class_attr(op, '_n_args')
    if not isinstance(d, DictV):
        raise AnalysisError('Operator._n_args is not a foldable table')
    default = None
    fac = d.factory
    if isinstance(fac, FuncV) and not fac.fi.params:
        # `lambda: 2`, a def returning it, or a constant it names
        body = fac.fi.node.body
        if not fac.fi.is_lambda:
            stmts = [st for st in body if not (isinstance(
                st, ast.Expr) and isinstance(st.value, ast.Constant))]
            body = stmts[0].value if len(stmts) == 1 and isinstance(
                stmts[0], ast.Return) else None
        if body is not None:
            av = ctx.ev.eval(fac.fi.module, body,
                             ctx.ev.module_env(fac.fi.module))
            if is_const(av):
                default = av.v
    rr.instances += 1
    if default == 2:
        rr.ok('default arity is 2', OP)
    else:
        rr.fail('%s::Operator._n_args::default' % OP,
                'default operator arity is %r, must be 2' % default, file=OP,
                function='Operator._n_args', line=1)
    table = {k.v: v.v for k, v in d.items if is_const(k) and is_const(v)}
    for n in spec['unary']:
        rr.instances += 1
        if table.get(n) == 1:
            rr.ok('%r takes one operand' % n, OP)
        else:
            rr.fail('%s::Operator._n_args::%r' % (OP, n),
                    '%r has arity %r; it is a unary operator' % (
                        n, table.get(n, default)), file=OP,
                    function='Operator._n_args', line=1)
    for n, v in table.items():
        if n not in spec['unary'] and v != 2:
            rr.instances += 1
            rr.fail('%s::Operator._n_args::%r' % (OP, n),
                    'binary operator %r has arity %r' % (n, v), file=OP,
                    function='Operator._n_args', line=1)
    return rr


def _pop_relation(ctx):
    """Extract when the shunting-yard loop of Operator.ast pops the stack top.

    Returns 'ge' (pop iff top >= new), 'gt' (pop iff top > new), or raises.
    """
    p = ctx.project
    f = p.func(OP, 'Operator.ast')
    loops = [n for n in own_nodes(f) if isinstance(n, ast.While)]
    if len(loops) != 1:
        raise AnalysisError('Operator.ast: expected one while loop')
    lp = loops[0]
    def _pairs(n):
        t, v = n.targets[0], n.value
        if isinstance(t, ast.Tuple) and isinstance(v, ast.Tuple) and len(
                t.elts) == len(v.elts):
            return list(zip(t.elts, v.elts))
        return [(t, v)]

    new_names = set()
    for n in own_nodes(f):
        if isinstance(n, ast.Assign):
            for t, v in _pairs(n):
                if isinstance(v, ast.Attribute) and v.attr == 'pred' and \
                        isinstance(v.value, ast.Name) and \
                        v.value.id == f.params[0] and isinstance(t, ast.Name):
                    new_names.add(t.id)

    top_names = set()
    for n in own_nodes(f):
        if isinstance(n, ast.Assign):
            for t, v in _pairs(n):
                if isinstance(v, ast.Attribute) and v.attr == 'pred' and \
                        isinstance(v.value, ast.Subscript) and 'stack' in \
                        norm_src(v.value) and isinstance(t, ast.Name):
                    top_names.add(t.id)

    def side(e):
        if isinstance(e, ast.Name) and e.id in new_names:
            return 'new'
        if isinstance(e, ast.Name) and e.id in top_names:
            return 'top'
        if isinstance(e, ast.Attribute) and e.attr == 'pred':
            if isinstance(e.value, ast.Name) and e.value.id == f.params[0]:
                return 'new'
            if isinstance(e.value, ast.Subscript) and 'stack' in norm_src(e.value):
                return 'top'
        return None

    def rel(c):
        """Normalise compare to relation on (new ? top)."""
        if not (isinstance(c, ast.Compare) and len(c.ops) == 1):
            return None
        l, r = side(c.left), side(c.comparators[0])
        op = type(c.ops[0])
        if l == 'new' and r == 'top':
            return {ast.Gt: 'new>top', ast.GtE: 'new>=top', ast.Lt: 'new<top',
                    ast.LtE: 'new<=top', ast.Eq: 'new==top'}.get(op)
        if l == 'top' and r == 'new':
            return {ast.Gt: 'new<top', ast.GtE: 'new<=top', ast.Lt: 'new>top',
                    ast.LtE: 'new>=top', ast.Eq: 'new==top'}.get(op)
        return None

    def right_set(e):
        """Operator names for which a flag expression is true:
        `self.name in self._attr` / `self.name in (...)` / a local bound to it."""
        if isinstance(e, ast.Name):
            for n in own_nodes(f):
                if isinstance(n, ast.Assign):
                    t, v = n.targets[0], n.value
                    if isinstance(t, ast.Tuple) and isinstance(v, ast.Tuple):
                        for tt, vv in zip(t.elts, v.elts):
                            if isinstance(tt, ast.Name) and tt.id == e.id:
                                return right_set(vv)
                    elif isinstance(t, ast.Name) and t.id == e.id:
                        return right_set(v)
            return None
        if isinstance(e, ast.Compare) and len(e.ops) == 1 and isinstance(
                e.ops[0], ast.In) and norm_src(e.left) == '%s.name' % f.params[0]:
            c = e.comparators[0]
            if isinstance(c, ast.Attribute) and isinstance(c.value, ast.Name) \
                    and c.value.id == f.params[0]:
                av = ctx.ev.class_attr(p.cls(OP, 'Operator'), c.attr)
                vals = ctx.ev.iterate(av)
                if vals is None and isinstance(av, CallV) and av.args:
                    vals = ctx.ev.iterate(av.args[0])
                if vals is not None and all(is_const(v, str) for v in vals):
                    return {v.v for v in vals}
            if isinstance(c, (ast.Tuple, ast.List, ast.Set)) and all(
                    isinstance(x, ast.Constant) for x in c.elts):
                return {x.value for x in c.elts}
        return None

    def decide(test, negate_for_while=False):
        """(relation, right-assoc set) for a break test."""
        disj = test.values if isinstance(test, ast.BoolOp) and isinstance(
            test.op, ast.Or) else [test]
        base, right = None, set()
        for d in disj:
            r = rel(d)
            if r is not None:
                base = r
                continue
            if isinstance(d, ast.BoolOp) and isinstance(d.op, ast.And):
                eq = [x for x in d.values if rel(x) == 'new==top']
                flags = [x for x in d.values if rel(x) is None]
                if len(eq) == 1 and len(flags) == 1:
                    rs = right_set(flags[0])
                    if rs is None:
                        return None
                    right |= rs
                    continue
            return None
        return base, right

    # idiom 1: `if new > top [or (flag and new == top)]: break` in the loop body
    for st in lp.body:
        if isinstance(st, ast.If) and any(isinstance(s, ast.Break)
                                          for s in st.body):
            d = decide(st.test)
            if d is None:
                break
            r, right = d
            if r == 'new>top':
                return 'ge', lp, right
            if r == 'new>=top':
                return 'gt', lp, right
            if r is not None:
                return 'inverted:' + r, lp, right
    # idiom 2: relation in the while test
    conj = lp.test.values if isinstance(lp.test, ast.BoolOp) and isinstance(
        lp.test.op, ast.And) else [lp.test]
    NEG = {'new>top': 'new<=top', 'new>=top': 'new<top',
           'new<=top': 'new>top', 'new<top': 'new>=top'}
    for c in conj:
        if isinstance(c, ast.UnaryOp) and isinstance(c.op, ast.Not):
            r = NEG.get(rel(c.operand))
        else:
            r = rel(c)
        if r == 'new<=top':
            return 'ge', lp, set()
        if r == 'new<top':
            return 'gt', lp, set()
        if r is not None:
            return 'inverted:' + r, lp, set()
    raise AnalysisError('Operator.ast: pop condition not recognised')


def rule_assoc(ctx, prec):
    spec = ctx.spec('operators')
    rr = RuleResult('C01', 'C01.assoc', 'MPT+TAB',
                    'pop relation and resulting grouping of a op1 b op2 c',
                    floor=145)
    relation, lp, right = _pop_relation(ctx)
    f = ctx.project.func(OP, 'Operator.ast')
    rr.instances += 1
    if relation == 'ge':
        rr.ok('shunting-yard pops while rank(top) >= rank(new): equal ranks '
              'group left to right', '%s:%d' % (OP, lp.lineno))
    else:
        rr.fail(key_of(f, 'pop relation'),
                'Operator.ast pops the operator stack with relation `%s` '
                '(required: pop while rank(top) >= rank(new)); operators of '
                'equal rank no longer group left to right' % relation,
                file=OP, function='Operator.ast', line=lp.lineno)
    # the loop must only pop operators and must push the new one afterwards
    rr.instances += 1
    test_txt = norm_src(lp.test)
    if 'isinstance(stack[-1], Operator)' in test_txt:
        rr.ok('popping stops at a parenthesis/function (only Operator tokens '
              'are popped)', OP)
    else:
        rr.fail(key_of(f, 'pops non-operators'),
                'the pop loop is no longer restricted to Operator tokens on '
                'the stack: parentheses stop grouping', file=OP,
                function='Operator.ast', line=lp.lineno)
    binary = [n for c in spec['classes_loosest_first'] for n in c
              if n not in spec['unary'] and n not in (':', ' ', ',')]
    for a in binary:
        for b in binary:
            rr.instances += 1
            if a not in prec or b not in prec:
                continue
            pops = prec[a] >= prec[b] if relation == 'ge' else (
                prec[a] > prec[b] if relation == 'gt' else None)
            if pops and prec[a] == prec[b] and b in right:
                pops = False  # the incoming operator is flagged right-assoc
            ca, cb = _class_of(spec, a), _class_of(spec, b)
            want_left = ca >= cb
            if pops is None:
                continue
            if pops == want_left:
                rr.ok('x %s y %s z groups as %s' % (
                    a, b, '((x %s y) %s z)' % (a, b) if want_left else
                    '(x %s (y %s z))' % (a, b)), OP, nontrivial=True)
            else:
                rr.fail('%s::Operator.ast::grouping %r then %r' % (OP, a, b),
                        '`x %s y %s z` is grouped as %s; Excel groups it as %s'
                        % (a, b,
                           '((x %s y) %s z)' % (a, b) if pops else
                           '(x %s (y %s z))' % (a, b),
                           '((x %s y) %s z)' % (a, b) if want_left else
                           '(x %s (y %s z))' % (a, b)), file=OP,
                        function='Operator.ast', line=lp.lineno)
    return rr


def rule_unary(ctx):
    rr = RuleResult('C01', 'C01.unary', 'EXH',
                    'a sign is binary exactly after an operand, a closing '
                    'parenthesis or %', floor=3)
    p = ctx.project
    f = p.func(OP, 'Operator.update_name')
    disj = set()
    prev = None
    for n in own_nodes(f):
        if isinstance(n, ast.Call) and isinstance(n.func, ast.Name) and \
                n.func.id == 'isinstance' and len(n.args) == 2 and isinstance(
                n.args[0], ast.Name):
            prev = n.args[0].id
    if prev is None:
        raise AnalysisError('Operator.update_name: previous-token tests not found')

    def conj_of(call):
        # the And-expression the isinstance belongs to
        for n in own_nodes(f):
            if isinstance(n, ast.BoolOp) and isinstance(n.op, ast.And) and \
                    call in n.values:
                return [v for v in n.values if v is not call]
        return []

    for n in own_nodes(f):
        if isinstance(n, ast.Call) and isinstance(n.func, ast.Name) and \
                n.func.id == 'isinstance' and len(n.args) == 2 and isinstance(
                n.args[0], ast.Name) and n.args[0].id == prev:
            r = ctx.cg.resolve_name_expr(f, n.args[1])
            if not (r and r[0] == 'class'):
                raise AnalysisError('update_name: cannot resolve %s' %
                                    norm_src(n.args[1]))
            extra = ' and '.join(sorted(norm_src(c).replace(prev, 't')
                                        for c in conj_of(n)))
            disj.add((r[1].name, extra))
    want = {('Operand', ''), ('Parenthesis', 't.has_end'),
            ('Operator', "t.name == '%'")}
    rr.instances = len(want)
    for w in sorted(want):
        if w in disj:
            rr.ok('binary context: previous token is %s%s' % (
                w[0], (' with ' + w[1]) if w[1] else ''), OP)
        else:
            rr.fail(key_of(f, 'binary context %s missing' % w[0]),
                    'update_name no longer treats a sign after %s%s as binary: '
                    'e.g. `2%%-1` / `(1)-1` / `1-1` would read the sign as unary'
                    % (w[0], (' (' + w[1] + ')') if w[1] else ''), file=OP,
                    function='Operator.update_name', line=f.lineno)
    for d in sorted(disj - want):
        rr.fail(key_of(f, 'extra binary context %s' % d[0]),
                'update_name treats a sign after %s%s as binary; Excel reads it '
                'as a unary sign there' % (d[0], (' (' + d[1] + ')') if d[1]
                                           else ''), file=OP,
                function='Operator.update_name', line=f.lineno)
    # the rewrite only applies to + and -
    rr.instances += 1
    rewrites = [n for n in own_nodes(f) if isinstance(n, ast.Assign) and any(
        isinstance(t, ast.Subscript) and isinstance(t.slice, ast.Constant)
        and t.slice.value == 'name' for t in n.targets)]
    chars = TL._enclosing_in_guard(f, rewrites[0]) if rewrites else None
    if chars == {'+', '-'}:
        rr.ok("only '+' and '-' are candidates for the unary rewrite", OP)
    else:
        rr.fail(key_of(f, 'unary candidates'),
                'update_name does not restrict the unary rewrite to + and -',
                file=OP, function='Operator.update_name', line=f.lineno)
    return rr


def rule_names(ctx, prec):
    rr = RuleResult('C01', 'C01.names', 'EXH',
                    'producible operator names are table keys', floor=3)
    p = ctx.project
    op = p.cls(OP, 'Operator')
    ops_table = ctx.registry.operators
    for c in TL.parser_filters(ctx):
        if not p.is_subclass(c, op):
            continue
        rr.instances += 1
        names, detail = TL.producible_names(ctx, c)
        miss_prec = sorted(n for n in names if n not in prec)
        miss_ops = sorted(n for n in names if n.upper() not in ops_table)
        if miss_prec:
            rr.fail('%s::%s::names without precedence' % (OP, c.name),
                '%s can produce the operator name(s) %s, which Operator.'
                '_precedences does not contain: KeyError while parsing' % (
                    c.name, ', '.join(repr(m) for m in miss_prec)), file=OP,
                function=c.name, line=c.node.lineno,
                items=['%02x' % ord(x) if len(x) == 1 else x
                       for x in miss_prec])
        if miss_ops:
            known_prec = [m for m in miss_ops if m not in miss_prec]
            if known_prec:
                rr.fail('%s::%s::names without implementation %s' % (
                    OP, c.name, ','.join(known_prec)),
                    '%s can produce %s, which OPERATORS does not implement' % (
                        c.name, ', '.join(repr(m) for m in known_prec)),
                    file=OP, function=c.name, line=c.node.lineno)
        if not miss_prec and not miss_ops:
            rr.ok('%s produces %s: all in _precedences and OPERATORS' % (
                c.name, sorted(names)), OP)
    return rr


def rule_empty(ctx):
    rr = RuleResult('C01', 'C01.empty', 'EXH',
                    'empty arguments keep their position in the three '
                    'contexts', floor=3)
    p = ctx.project
    sep = p.func(OP, 'Separator.ast')
    par = p.func('formulas/tokens/parenthesis.py', 'Parenthesis.ast')

    def empty_guards(f):
        out = []
        for n in own_nodes(f):
            if isinstance(n, ast.If) and any(
                    isinstance(c, ast.Call) and isinstance(c.func, ast.Attribute)
                    and c.func.attr == 'ast' and isinstance(
                        c.func.value, ast.Call) and norm_src(
                        c.func.value.func) == 'Empty'
                    for s in n.body for c in ast.walk(s)):
                out.append(n)
        return out

    def expand_flags(f, tests):
        """Text of the tests, with a flag variable replaced by the values it
        is given and the tests under which it is given them."""
        parts = []
        for t in tests:
            parts.append(norm_src(t))
            for x in ast.walk(t):
                if isinstance(x, ast.Name):
                    for n in own_nodes(f):
                        if isinstance(n, ast.If):
                            for s_ in n.body + n.orelse:
                                if isinstance(s_, ast.Assign) and any(
                                        isinstance(tt, ast.Name) and
                                        tt.id == x.id for tt in s_.targets):
                                    parts.append(norm_src(n.test))
                                    parts.append(norm_src(s_.value))
                    for tt, vv, _s in assign_pairs(f):
                        if isinstance(tt, ast.Name) and tt.id == x.id:
                            parts.append(norm_src(vv))
        return ' '.join(parts)

    gs = empty_guards(sep)
    txt = expand_flags(sep, [g.test for g in gs])
    rr.instances = 3
    if 'isinstance(lt, Separator)' in txt or ('Separator' in txt and
                                             'isinstance' in txt):
        rr.ok('`, ,` : Separator after Separator inserts Empty', OP)
    else:
        rr.fail(key_of(sep, 'empty argument between separators'),
                'Separator.ast no longer inserts an Empty operand when a '
                'separator follows a separator (`f(1,,2)`)', file=OP,
                function='Separator.ast', line=sep.lineno)
    if "'('" in txt and 'String' in txt:
        rr.ok('`( ,` : Separator right after an opening parenthesis (not a '
              'string "(") inserts Empty', OP)
    else:
        rr.fail(key_of(sep, 'empty first argument'),
                'Separator.ast no longer inserts an Empty operand for a '
                'separator right after an opening parenthesis (`f(,2)`), or no '
                'longer distinguishes the string "("', file=OP,
                function='Separator.ast', line=sep.lineno)
    gp = empty_guards(par)
    ptxt = ' '.join(norm_src(g.test) for g in gp)
    if 'Separator' in ptxt and "')'" in ptxt:
        rr.ok('`, )` : closing parenthesis after a separator inserts Empty',
              par.module.rel)
    else:
        rr.fail(key_of(par, 'empty last argument'),
                'Parenthesis.ast no longer inserts an Empty operand for a '
                'closing parenthesis right after a separator (`f(1,)`)',
                file=par.module.rel, function='Parenthesis.ast', line=par.lineno)
    return rr


def rule_render(ctx):
    rr = RuleResult('C01', 'C01.render', 'SYM',
                    'canonical rendering is delimited and re-readable',
                    floor=4)
    p = ctx.project
    tok = p.cls('formulas/tokens/__init__.py', 'Token')
    overrides = [c.methods['set_expr'] for c in p.subclasses(tok)
                 if 'set_expr' in c.methods]
    for m in overrides:
        rr.instances += 1
        cfg = CFG(m)
        dom = cfg.dominators()
        stores = [n for n in own_nodes(m) if isinstance(n, ast.Assign) and any(
            isinstance(t, ast.Subscript) and isinstance(t.slice, ast.Constant)
            and t.slice.value == 'expr' for t in n.targets)]
        exit_dominated = False
        for s in stores:
            sn = cfg.node_of(s)
            if sn is not None and cfg.dominates(sn, cfg.exit, dom):
                exit_dominated = True
        if exit_dominated:
            rr.ok('%s assigns attr[\'expr\'] on every path' % m.qualname,
                  '%s:%d' % (m.module.rel, m.lineno))
        else:
            rr.fail(key_of(m, 'expr not assigned on all paths'),
                    '%s does not assign attr[\'expr\'] on every path: the node '
                    'id / exported text of such a token is missing' % m.qualname,
                    file=m.module.rel, function=m.qualname, line=m.lineno)
    # a token that renders its argument tokens renders all of them, in order
    for m in overrides:
        va = m.vararg
        if not va or not any(isinstance(n, ast.Name) and n.id == va
                             for n in own_nodes(m)):
            continue
        rr.instances += 1
        full = {va}
        lossy = None
        for _round in range(3):
            for t, v, st in assign_pairs(m):
                if not isinstance(t, ast.Name):
                    continue
                src_names = {x.id for x in ast.walk(v) if isinstance(x, ast.Name)}
                if not (src_names & full):
                    continue
                if isinstance(v, (ast.ListComp, ast.GeneratorExp)):
                    if any(g.ifs for g in v.generators):
                        lossy = lossy or (st, 'a filtering comprehension')
                    else:
                        full.add(t.id)
                elif isinstance(v, ast.Call) and isinstance(v.func, ast.Name) \
                        and v.func.id in ('list', 'tuple', 'map'):
                    full.add(t.id)
                elif isinstance(v, ast.Call) and isinstance(v.func, ast.Name) \
                        and v.func.id == 'filter':
                    lossy = lossy or (st, 'filter()')
                elif isinstance(v, ast.Subscript) and isinstance(
                        v.slice, ast.Slice) and isinstance(v.value, ast.Name) \
                        and v.value.id in full:
                    lossy = lossy or (st, 'a slice')
        for n in own_nodes(m):
            if isinstance(n, ast.Call) and isinstance(n.func, ast.Attribute) \
                    and n.func.attr in ('pop', 'remove', 'clear') and \
                    isinstance(n.func.value, ast.Name) and \
                    n.func.value.id in full:
                lossy = lossy or (n, '`%s`' % norm_src(n))
            if isinstance(n, ast.Delete) and any(
                    isinstance(x, ast.Name) and x.id in full
                    for t in n.targets for x in ast.walk(t)):
                lossy = lossy or (n, '`%s`' % norm_src(n))
            if isinstance(n, (ast.ListComp, ast.GeneratorExp)) and any(
                    g.ifs and any(isinstance(x, ast.Name) and x.id in full
                                  for x in ast.walk(g.iter))
                    for g in n.generators):
                lossy = lossy or (n, 'a filtering comprehension')
        if lossy is None:
            rr.ok('%s renders every argument token, in order (no filter, '
                  'slice or removal between *%s and the text)' % (
                      m.qualname, va), '%s:%d' % (m.module.rel, m.lineno))
        else:
            n, how = lossy
            rr.fail(key_of(m, 'argument tokens dropped from the rendering'),
                    '%s builds the expression text from its argument tokens '
                    'through %s: arguments can disappear from the text, so '
                    'two different calls (e.g. with and without trailing '
                    'empty arguments) get the same node identifier and the '
                    'exported text parses to a different tree' % (
                        m.qualname, how), file=m.module.rel,
                    function=m.qualname, line=n.lineno)
    # operator templates
    f = p.func(OP, 'Operator.set_expr')
    templates = {}
    for n in own_nodes(f):
        if isinstance(n, ast.If):
            pass
    # the statements that produce the rendered text: assignments to the
    # variable finally stored into attr['expr'], or - when the text comes from
    # a private helper (`self.attr['expr'] = self._format(...)`) - the
    # helper's return statements.  The condition of each is read from the
    # path conditions (nested if/elif and guard clauses give the same list).
    from ..util import template_of, path_conditions
    evar, g = None, f
    for n in own_nodes(f):
        if isinstance(n, ast.Assign) and any(
                isinstance(t, ast.Subscript) and isinstance(
                    t.slice, ast.Constant) and t.slice.value == 'expr'
                for t in n.targets):
            if isinstance(n.value, ast.Name):
                evar = n.value.id
            elif isinstance(n.value, ast.Call):
                eds = [e for e in ctx.cg._resolve_callee(f, n.value.func,
                                                         n.value, 'call')
                       if not e.is_ext and e.precision == 'exact']
                if len(eds) == 1 and eds[0].dst.name.startswith('_'):
                    g = eds[0].dst
    if evar is None and g is f:
        raise AnalysisError('Operator.set_expr: rendered variable not found')
    tl = []
    for n in own_nodes(g):
        if g is f and isinstance(n, ast.Assign) and isinstance(
                n.targets[0], ast.Name) and n.targets[0].id == evar:
            val = n.value
        elif g is not f and isinstance(n, ast.Return) and n.value is not None:
            val = n.value
        else:
            continue
        pos = [norm_src(c) for c, pol in path_conditions(g, n) if pol]
        neg = [norm_src(c) for c, pol in path_conditions(g, n) if not pol]
        if not pos and not neg:
            continue          # the unconditional initial value
        tl.append((' and '.join(pos) or 'else', val, n))
    if len(tl) < 3:
        raise AnalysisError('Operator.set_expr: %d templates found' % len(tl))

    def local_tpl(e, depth=0):
        """template_of(e), looking through one local name."""
        tp_ = template_of(e)
        if tp_ is None and isinstance(e, ast.Name) and depth < 2:
            from .common import _defs_of
            ds = [d for d in _defs_of(g, e.id)]
            tps = [local_tpl(d, depth + 1) for d in ds]
            if tps and all(t is not None for t in tps):
                return tps[0]
        return tp_

    for cond, val, st in tl:
        rr.instances += 1
        text = norm_src(val)
        tp = local_tpl(val)
        if 'u-' in cond or 'u+' in cond:
            # unary: sign directly followed by the operand
            paren = tp is not None and tp[0].startswith('(') and \
                tp[0].endswith(')')
            if paren:
                rr.ok('unary sign rendering is parenthesised', OP)
            elif tp is None:
                raise AnalysisError('Operator.set_expr: unary rendering `%s` '
                                    'not understood' % text[:60])
            else:
                rr.fail(key_of(f, 'unary rendering unparenthesised'),
                        'a unary sign is rendered as `%s` without parentheses: '
                        'next to another sign (`-(-x)` -> `--x`) the reader '
                        'folds the run into one sign, so the exported text '
                        'parses to a different tree' % text, file=OP,
                        function='Operator.set_expr', line=st.lineno)
        elif "'%'" in cond:
            if tp is not None and tp[0] == '{}%':
                rr.ok('postfix %% rendered after its operand', OP)
            elif tp is None:
                raise AnalysisError('Operator.set_expr: percent rendering '
                                    '`%s` not understood' % text[:60])
            else:
                rr.fail(key_of(f, 'percent rendering'),
                        'postfix %% is rendered as `%s`' % text, file=OP,
                        function='Operator.set_expr', line=st.lineno)
        else:
            joined = tp is not None and len(tp[1]) == 1 and isinstance(
                tp[1][0], ast.Call) and isinstance(
                tp[1][0].func, ast.Attribute) and tp[1][0].func.attr == 'join'
            if tp is not None and tp[0] == '({})' and joined:
                rr.ok('binary operator (%s) rendered as one parenthesised '
                      'group joined by the operator' % cond, OP)
            elif not (isinstance(val, ast.Call) and isinstance(
                    val.func, ast.Attribute) and val.func.attr == 'join') \
                    and (tp is None or (tp[0] == '({})' and not joined)):
                # (a bare `sep.join(args)` is understood: no parentheses)
                raise AnalysisError('Operator.set_expr: binary rendering '
                                    '`%s` not understood' % text[:60])
            else:
                rr.fail(key_of(f, 'binary rendering not parenthesised (%s)' %
                               cond[:30]),
                        'binary operators (%s) are rendered as `%s`: the '
                        'exported text is not fully parenthesised' % (
                            cond, text), file=OP, function='Operator.set_expr',
                        line=st.lineno)
    # function rendering: NAME(args) with upper-cased name
    fn = p.func('formulas/tokens/function.py', 'Function.set_expr')
    rr.instances += 1
    from ..util import template_of
    t = ' '.join(norm_src(n) for n in own_nodes(fn) if isinstance(n, ast.Assign))
    shaped = False
    for n in own_nodes(fn):
        tp = template_of(n) if isinstance(
            n, (ast.BinOp, ast.Call, ast.JoinedStr)) else None
        if tp and tp[0] == '{}({})' and len(tp[1]) == 2 and \
                '.upper()' in norm_src(tp[1][0]):
            shaped = True
    if shaped and "', '.join" in t:
        rr.ok('functions rendered as NAME(a, b, ...) with the name upper-cased',
              fn.module.rel)
    else:
        rr.fail(key_of(fn, 'function rendering'),
                'Function.set_expr no longer renders `NAME(a, b)` with the '
                'name upper-cased', file=fn.module.rel,
                function='Function.set_expr', line=fn.lineno)
    return rr


def rule_fold(ctx):
    rr = RuleResult('C01', 'C01.fold', 'SYM',
                    'the tokenizer does not merge an operator with a following '
                    'sign', floor=1)
    p = ctx.project
    ot = p.cls(OP, 'OperatorToken')
    r = TL.class_regex(ctx, ot, '_re_process')
    subs = r.groups_named('sum_minus') if r else []
    rr.instances = max(1, len(subs))
    if not subs:
        rr.ok('no sign-run group', OP)
        return rr
    for s in subs:
        run = rx.is_unbounded_run(s)
        if run is not None and (run[2] is rx.sre_c.MAXREPEAT or run[2] > 1):
            signs = sorted(rx.charset(run[0]) & {'+', '-'})
            if len(signs) > 1 or run[2] is rx.sre_c.MAXREPEAT:
                rr.fail('%s::OperatorToken::sign runs folded into one operator'
                        % OP,
                        'the sign-run group matches runs longer than one '
                        'character and OperatorToken.process folds them into a '
                        'single + or -: in `1+-2^2` the unary minus is merged '
                        'with the binary plus (parsed as 1-(2^2), Excel: '
                        '1+((-2)^2))', file=OP, function='OperatorToken',
                        line=ot.node.lineno)
                continue
        rr.ok('sign group matches a single sign', OP)
    return rr


def rule_signrun(ctx):
    rr = RuleResult('C01', 'C01.signrun', 'TAB',
                    'the sign of a folded run is the parity of its minus signs',
                    floor=1)
    p = ctx.project
    ot = p.cls(OP, 'OperatorToken')
    f = ot.methods.get('process')
    rr.instances = 1
    if f is None:
        rr.ok('OperatorToken has no run folding', OP, nontrivial=False)
        return rr
    stores = [n for n in own_nodes(f) if isinstance(n, ast.Assign) and any(
        isinstance(t, ast.Subscript) and isinstance(t.slice, ast.Constant)
        and t.slice.value == 'name' for t in n.targets)]
    if not stores:
        rr.ok('OperatorToken.process does not rewrite the name', OP,
              nontrivial=False)
        return rr
    parity = False
    for n in own_nodes(f):
        if isinstance(n, ast.BinOp) and isinstance(n.op, ast.Mod) and isinstance(
                n.right, ast.Constant) and n.right.value == 2:
            parity = True
        if isinstance(n, ast.BinOp) and isinstance(n.op, (ast.BitAnd,)) and \
                isinstance(n.right, ast.Constant) and n.right.value == 1:
            parity = True
        if isinstance(n, ast.BinOp) and isinstance(n.op, ast.BitXor):
            parity = True
        if isinstance(n, (ast.For, ast.While)):
            for x in ast.walk(n):
                # toggling / exhaustive pair cancellation inside a loop
                if isinstance(x, ast.Assign) and isinstance(
                        x.value, ast.UnaryOp) and isinstance(x.value.op, ast.Not):
                    parity = True
                if isinstance(x, ast.Call) and isinstance(
                        x.func, ast.Attribute) and x.func.attr == 'replace' and \
                        x.args and isinstance(x.args[0], ast.Constant) and \
                        x.args[0].value == '--':
                    parity = True
    if parity:
        rr.ok('the folded sign is computed from the parity of the number of '
              'minus signs', '%s:%d' % (OP, stores[0].lineno))
    else:
        rr.fail(key_of(f, 'sign of a run not decided by parity'),
                'OperatorToken.process folds a run of signs into `%s` without '
                'any parity computation over its minus signs: runs of four or '
                'more signs get the wrong sign' % norm_src(stores[0].value),
                file=OP, function='OperatorToken.process', line=stores[0].lineno)
    return rr


def rule_filters(ctx):
    rr = RuleResult('C01', 'C01.filters', 'TAB',
                    'matcher order respects prefix overlaps', floor=3)
    fs = TL.parser_filters(ctx)
    names = [c.name for c in fs]

    def before(a, b, why):
        rr.instances += 1
        if a in names and b in names and names.index(a) < names.index(b):
            rr.ok('%s is tried before %s (%s)' % (a, b, why),
                  'formulas/parser.py')
        else:
            rr.fail('formulas/parser.py::Parser.filters::%s before %s' % (a, b),
                    'Parser.filters tries %s before %s: %s' % (b, a, why),
                    file='formulas/parser.py', function='Parser.filters', line=1)

    before('Error', 'Range', "`Sheet1!#REF!` would be read as the name "
                             "`Sheet1`")
    before('Number', 'Range', 'TRUE/FALSE would be read as defined names')
    before('Function', 'Parenthesis', '`SUM(` must be taken as a function, not '
                                      'as name + parenthesis')
    # Intersect after every filter that can start with whitespace
    p = ctx.project
    for c in fs:
        if c.name == 'Intersect':
            continue
        r = TL.class_regex(ctx, c, '_re')
        first, can_empty = rx.first_chars(r.tree, ignorecase=r.ignorecase())
        if ' ' in first:
            before(c.name, 'Intersect', 'each leading blank of a %s token '
                                        'would become an intersection' % c.name)
    return rr


def rule_predsnap(ctx):
    """The precedence of an operator token is a property of its *name*, and the
    name of a sign changes (`-` -> `u-`) when its context is inspected: a copy
    of the precedence taken before that is the binary rank of a unary sign."""
    from .modelstate import rule_snapshot
    return rule_snapshot(
        ctx, 'C01', 'C01.predsnap', cls_rel=OP, cls_name='Operator',
        need='pred', min_snaps=1,
        consequence='the copy is the rank the token had under its old name - '
                    'a prefix sign compares with the rank of the binary '
                    'operator and no longer binds tightest')


def rule_freshtoken(ctx):
    rr = RuleResult('C01', 'C01.freshtoken', 'DEF',
                    'a token appended to the builder inside a loop is a new '
                    'object on every iteration', floor=1)
    p = ctx.project
    scope = [m for m in p.modules.values() if m.rel.startswith(
        'formulas/tokens/') or m.rel in ('formulas/parser.py',
                                         'formulas/builder.py')]
    for m in scope:
        for f in m.all_funcs:
            loops = [n for n in own_nodes(f) if isinstance(
                n, (ast.For, ast.While))]
            for lp in loops:
                inside = set()
                for st in lp.body + lp.orelse:
                    inside |= {id(x) for x in ast.walk(st)}
                for c in [x for st in lp.body for x in ast.walk(st)
                          if isinstance(x, ast.Call) and isinstance(
                              x.func, ast.Attribute) and x.func.attr ==
                          'append' and isinstance(x.func.value, ast.Name) and
                          x.func.value.id in f.all_params and
                          x.func.value.id == 'builder' and len(x.args) == 1]:
                    rr.instances += 1
                    a = c.args[0]
                    if not isinstance(a, ast.Name):
                        rr.ok('%s appends `%s`, evaluated per iteration' % (
                            f.qualname, norm_src(a)),
                            '%s:%d' % (m.rel, c.lineno))
                        continue
                    binds = [n for n in own_nodes(f) if isinstance(
                        n, ast.Assign) and any(isinstance(t, ast.Name) and
                                               t.id == a.id for t in n.targets)]
                    loopvar = any(isinstance(x, ast.Name) and x.id == a.id and
                                  isinstance(x.ctx, ast.Store)
                                  for x in ast.walk(lp))
                    outer = [b for b in binds if id(b) not in inside]
                    made = [b for b in outer if isinstance(
                        b.value, ast.Call) and (ctx.cg.resolve_name_expr(
                            f, b.value.func) or (None,))[0] == 'class']
                    if made and len(binds) == len(outer) and not loopvar:
                        rr.fail(key_of(f, 'one token object appended '
                                          'repeatedly'),
                                '%s creates `%s = %s` once and appends that '
                                'one object on every iteration of the loop at '
                                'line %d: the builder keys its nodes by token '
                                'object, so the second use finds the node of '
                                'the first and the earlier operands are '
                                'dropped from the evaluated tree' % (
                                    f.qualname, a.id, norm_src(made[0].value),
                                    lp.lineno), file=m.rel,
                                function=f.qualname, line=c.lineno)
                    else:
                        rr.ok('%s appends `%s`, bound per iteration' % (
                            f.qualname, a.id), '%s:%d' % (m.rel, c.lineno))
    return rr


def run(ctx):
    S = ctx.soft
    r_prec, prec = rule_prec(ctx)
    snap = None
    assoc = S(rule_assoc, ctx, prec)
    if getattr(assoc, 'undecided', None):
        # the pop loop was not recognised: if that is because it compares a
        # stale copy of the rank, say so instead of "cannot decide"
        snap = rule_predsnap(ctx)
        if snap.findings:
            assoc = None
    snap = snap or rule_predsnap(ctx)
    rules = [r_prec, S(rule_arity, ctx)] + ([assoc] if assoc is not None else []) \
        + [S(rule_unary, ctx), S(rule_names, ctx, prec), S(rule_empty, ctx),
           S(rule_render, ctx), S(rule_fold, ctx), S(rule_signrun, ctx),
           S(rule_filters, ctx), snap, S(rule_freshtoken, ctx)]
    return rules
