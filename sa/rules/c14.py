"""C14 - unresolvable functions and references degrade locally (structural clauses)."""
import ast

from ..model import AnalysisError, own_nodes, norm_src
from ..peval import DictV, TokenV, is_const
from ..report import RuleResult
from ..effects import Exceptions, ExcClass
from ..util import key_of, src, call_name, assign_pairs
from ..registry import FUNCS_REL
from .c11 import builder_tolerated, rule_table

META = {
    'decides': (
        'C14, structural clauses only: (name) the exception class raised for '
        'an unknown function is tolerated by the formula dispatcher and is the '
        'class the cell wrapper converts to #NAME? - three sites agree; '
        '(table) unknown names resolve to not_implemented instead of KeyError; '
        '(ref) in the completion work-list the calls that open a workbook or '
        'sheet sit in a try whose broad handler registers a #REF! cell and '
        'continues, unparsable ids register a #REF! reference, and missing '
        'links map to members of the error table; (plain) substituted values '
        'are ordinary error singletons; (lookup) Function.compile looks the '
        'name up as written (no prefix stripping); (local) Cell.compile '
        'discards the parsed expression only after compiling it, so no path '
        'turns a whole formula into a constant because of one item in it; '
        '(cachekey) caches kept by the loader are keyed by everything the '
        'cached value depends on, so one failed lookup is not replayed for '
        'unrelated references; (carry) in the completion work-list no error '
        'placeholder is registered under a condition on a container that the '
        'loop fills while processing other nodes.'
        ' (link) where the file of an external reference is set, no path condition tests whether the link table lists the index: an unknown index names a workbook of its own.'),
    'not_decided': 'Values of unrelated cells (locality beyond these '
                   'structural conditions).',
    'trusted_base': ['CPython ast', 'schedula: a dispatcher built with a '
                     'raises predicate wraps other node exceptions in '
                     'DispatcherError with .ex'],
    'assumptions': [],
}


def rule_name(ctx):
    rr = RuleResult('C14', 'C14.name', 'TAB',
                    'three-site agreement on the unknown-function exception',
                    floor=3)
    p = ctx.project
    ex = Exceptions(ctx)
    ni = p.func(FUNCS_REL, 'not_implemented')
    raised = [ex.exc_of_expr(ni, n.exc) for n in own_nodes(ni)
              if isinstance(n, ast.Raise) and n.exc is not None]
    raised = [c for c in raised if c is not None]
    rr.instances += 1
    if len(raised) != 1:
        raise AnalysisError('not_implemented: expected one raise')
    cls = raised[0]
    rr.ok('not_implemented raises %s' % cls.name, ni.module.rel)
    tol = builder_tolerated(ctx, ex)
    rr.instances += 1
    binit = p.func('formulas/builder.py', 'AstBuilder.__init__')
    if any(ex.is_sub(cls, t) for t in tol):
        rr.ok('the formula dispatcher tolerates %s (raises predicate: %s)' % (
            cls.name, ', '.join(t.name for t in tol)), binit.module.rel)
    else:
        rr.fail(key_of(binit, 'raises predicate does not tolerate %s' % cls.name),
                'an unimplemented function raises %s, which the formula '
                "dispatcher's raises predicate (%s) does not tolerate: "
                'compiling the cell aborts instead of yielding #NAME?' % (
                    cls.name, ', '.join(t.name for t in tol) or 'none'),
                file=binit.module.rel, function=binit.qualname,
                line=binit.lineno)
    cw = p.func('formulas/cell.py', 'CellWrapper.__call__')
    rr.instances += 1
    conv = None
    for n in own_nodes(cw):
        if isinstance(n, ast.If):
            for c in ast.walk(n.test):
                if isinstance(c, ast.Call) and isinstance(c.func, ast.Name) \
                        and c.func.id == 'isinstance' and len(c.args) == 2:
                    t = c.args[1]
                    elts = t.elts if isinstance(t, ast.Tuple) else [t]
                    classes = [ex.exc_of_expr(cw, e) for e in elts]
                    rets = [s for s in n.body if isinstance(s, ast.Return)]
                    if rets and rets[0].value is not None:
                        conv = (classes, norm_src(rets[0].value), n)
    if conv is None:
        rr.fail(key_of(cw, 'no conversion to #NAME?'),
                'CellWrapper.__call__ no longer converts the unknown-function '
                'exception into an error value', file=cw.module.rel,
                function=cw.qualname, line=cw.lineno)
    else:
        classes, val, node = conv
        if not any(c is not None and ex.is_sub(cls, c) for c in classes):
            rr.fail(key_of(cw, 'converts a different class'),
                    'CellWrapper.__call__ converts %s, but not_implemented '
                    'raises %s' % ([c.name for c in classes if c], cls.name),
                    file=cw.module.rel, function=cw.qualname, line=node.lineno)
        elif '#NAME?' not in val:
            rr.fail(key_of(cw, 'unknown function not mapped to #NAME?'),
                    'an unknown function is converted to `%s` instead of '
                    '#NAME?' % val, file=cw.module.rel, function=cw.qualname,
                    line=node.lineno)
        else:
            rr.ok('CellWrapper.__call__ maps DispatcherError(%s) to #NAME?' %
                  cls.name, '%s:%d' % (cw.module.rel, node.lineno))
        # it must look at the wrapped exception inside a DispatcherError handler
        tries = [n for n in own_nodes(cw) if isinstance(n, ast.Try)]
        hs = [h for t in tries for h in t.handlers]
        names = [norm_src(h.type) for h in hs if h.type is not None]
        if not any('DispatcherError' in n or n in ('Exception',) for n in names):
            rr.fail(key_of(cw, 'DispatcherError not caught'),
                    'CellWrapper.__call__ does not catch DispatcherError',
                    file=cw.module.rel, function=cw.qualname, line=cw.lineno)
    return rr


def rule_ref(ctx):
    rr = RuleResult('C14', 'C14.ref', 'MPT',
                    'missing books/sheets/names become #REF! cells and the '
                    'work-list continues', floor=3)
    p = ctx.project
    comp = p.func('formulas/excel/__init__.py', 'ExcelModel.complete')
    ex = Exceptions(ctx)
    # complete() itself and the private helpers it delegates to; leaving a
    # helper early (`return`) is what `continue` is in the loop itself
    from ..util import with_helpers
    scope = with_helpers(ctx, comp)
    tries = [(g, n) for g in scope for n in own_nodes(g)
             if isinstance(n, ast.Try)]

    def goes_on(g, h):
        return any(isinstance(s, ast.Continue) for s in h.body) or (
            g is not comp and h.body and isinstance(h.body[-1], ast.Return))

    # (1) add_book/add_sheet inside try with broad handler
    io_calls = [(g, n) for g in scope for n in own_nodes(g)
                if isinstance(n, ast.Call)
                and call_name(n) in ('add_book', 'add_sheet')]
    if not io_calls:
        raise AnalysisError('ExcelModel.complete: no add_book/add_sheet call')
    for g, c in io_calls:
        rr.instances += 1
        enclosing = [(g2, t) for g2, t in tries if any(
            x is c for s in t.body for x in ast.walk(s))]
        ok = False
        why = 'not inside a try block'
        for g2, t in enclosing:
            for h in t.handlers:
                hc = ex.handler_classes(g2, h)
                broad = any(k.name in ('Exception', 'BaseException') for k in hc)
                if not broad:
                    why = 'handler only catches %s' % ', '.join(
                        k.name for k in hc)
                    continue
                txt = ' '.join(norm_src(s) for s in h.body)
                reg = '#REF!' in txt and ('.add(' in txt)
                cont = goes_on(g2, h)
                if reg and cont:
                    ok = True
                else:
                    why = 'broad handler does not register a #REF! cell and ' \
                          'continue'
        if ok:
            rr.ok('%s is guarded: failure registers a #REF! cell and the '
                  'work-list continues' % src(c.func),
                  '%s:%d' % (comp.module.rel, c.lineno))
        else:
            rr.fail(key_of(comp, '%s failure aborts completion' % call_name(c)),
                    'in ExcelModel.complete the call %s is %s: a missing or '
                    'unreadable workbook/sheet aborts loading instead of '
                    'degrading to #REF!' % (src(c.func), why),
                    file=comp.module.rel, function=comp.qualname, line=c.lineno)
    # (2) unparsable id -> Ref '#REF!'
    rr.instances += 1
    ok = False
    for g2, t in tries:
        if any(isinstance(x, ast.Call) and call_name(x) == 'get_range'
               for s in t.body for x in ast.walk(s)):
            for h in t.handlers:
                hc = ex.handler_classes(g2, h)
                txt = ' '.join(norm_src(s) for s in h.body)
                if any(k.name in ('InvalidRangeName', 'ValueError', 'Exception')
                       for k in hc) and '#REF!' in txt and goes_on(g2, h):
                    ok = True
    if ok:
        rr.ok('an id that is not a range registers a #REF! reference and '
              'continues', comp.module.rel)
    else:
        rr.fail(key_of(comp, 'unparsable id aborts completion'),
                'ExcelModel.complete does not turn an unresolvable name into a '
                '#REF! reference', file=comp.module.rel,
                function=comp.qualname, line=comp.lineno)
    # (3) _missing_ref maps to members of Error.errors
    errs = ctx.ev.class_attr(p.cls('formulas/tokens/operand.py', 'Error'),
                             'errors')
    if not isinstance(errs, DictV):
        raise AnalysisError('Error.errors is not a foldable table')
    keys = set(errs.keys())
    mr = p.func('formulas/cell.py', 'Cell._missing_ref')
    rr.instances += 1
    consts = [n.value for n in own_nodes(mr) if isinstance(n, ast.Constant)
              and isinstance(n.value, str) and n.value.startswith('#')]
    bad = [c for c in consts if c not in keys]
    uses_table = any(isinstance(n, ast.Subscript) and 'errors' in norm_src(
        n.value) for n in own_nodes(mr))
    if consts and not bad and uses_table:
        rr.ok('Cell._missing_ref substitutes %s, members of Error.errors' %
              sorted(set(consts)), mr.module.rel)
    else:
        rr.fail(key_of(mr, 'missing reference not mapped to an error value'),
                'Cell._missing_ref maps a missing link to %s which is not in '
                'the error table / not looked up in it' % (bad or consts),
                file=mr.module.rel, function=mr.qualname, line=mr.lineno)
    return rr


def rule_lookup(ctx):
    rr = RuleResult('C14', 'C14.lookup', 'TAB',
                    'function/operator tables are indexed by the whole '
                    'upper-cased token name', floor=2)
    p = ctx.project
    for rel, q, table in (('formulas/tokens/function.py', 'Function.compile',
                           'get_functions()'),
                          ('formulas/tokens/operator.py', 'Operator.compile',
                           'OPERATORS')):
        f = p.func(rel, q)
        rr.instances += 1
        subs = [n for n in own_nodes(f) if isinstance(n, ast.Subscript)
                and norm_src(n.value).endswith(table)]
        if not subs:
            # the table may be bound to a local first
            loc = [t.id for t, v, _ in assign_pairs(f) if isinstance(t, ast.Name)
                   and norm_src(v).endswith(table)]
            subs = [n for n in own_nodes(f) if isinstance(n, ast.Subscript)
                    and isinstance(n.value, ast.Name) and n.value.id in loc]
        if not subs:
            raise AnalysisError('%s: table lookup not found' % q)
        key = subs[0].slice
        want = '%s.name.upper()' % f.params[0]
        ok = norm_src(key) == want
        if not ok and isinstance(key, ast.Name):
            asg = [(t, v, n) for t, v, n in assign_pairs(f)
                   if isinstance(t, ast.Name) and t.id == key.id]
            ok = len(asg) == 1 and isinstance(asg[0][2], ast.Assign) and \
                norm_src(asg[0][1]) == want
        if ok:
            rr.ok('%s indexes %s with %s' % (q, table, want),
                  '%s:%d' % (rel, subs[0].lineno))
        else:
            rr.fail(key_of(f, 'table key is not the whole token name'),
                    '%s looks the token up under `%s` (possibly rewritten '
                    'before the lookup) instead of the whole upper-cased name: '
                    'an unknown name can resolve to a different, implemented '
                    'function instead of #NAME?' % (q, norm_src(key)),
                    file=rel, function=q, line=subs[0].lineno)
    return rr


def rule_plain(ctx):
    rr = RuleResult('C14', 'C14.plain', 'TAB',
                    'error table holds XlError singletons for the seven codes',
                    floor=7)
    p = ctx.project
    errs = ctx.ev.class_attr(p.cls('formulas/tokens/operand.py', 'Error'),
                             'errors')
    xl = p.cls('formulas/tokens/operand.py', 'XlError')
    want = {'#NULL!', '#DIV/0!', '#VALUE!', '#REF!', '#NUM!', '#NAME?', '#N/A'}
    have = {}
    for k, v in errs.items:
        if is_const(k, str):
            have[k.v] = v
    for code in sorted(want):
        rr.instances += 1
        v = have.get(code)
        if isinstance(v, TokenV) and not isinstance(v.cls, str) and \
                p.is_subclass(v.cls, xl) and v.text == code:
            rr.ok('Error.errors[%r] is the module-level XlError(%r)' % (
                code, code), 'formulas/tokens/operand.py')
        else:
            rr.fail('formulas/tokens/operand.py::Error.errors::%s' % code,
                    'Error.errors[%r] is %r, not the XlError singleton for '
                    'that code' % (code, v), file='formulas/tokens/operand.py',
                    function='Error.errors', line=1)
    return rr


def rule_local(ctx):
    """A formula is never replaced wholesale: the parsed expression is dropped
    only after it has been compiled into the cell function."""
    from ..cfg import CFG
    rr = RuleResult('C14', 'C14.local', 'MPT',
                    'a cell formula is always compiled: no path discards the '
                    'parsed expression for a constant', floor=1)
    p = ctx.project
    f = p.func('formulas/cell.py', 'Cell.compile')
    sn = f.params[0]
    cfg = CFG(f)
    dom = cfg.dominators()

    def is_self_builder(e):
        return isinstance(e, ast.Attribute) and e.attr == 'builder' and \
            isinstance(e.value, ast.Name) and e.value.id == sn

    drops = [n for n in own_nodes(f) if isinstance(n, ast.Assign) and any(
        is_self_builder(t) for t in n.targets) and isinstance(
        n.value, ast.Constant) and n.value.value is None]
    comp = [n for n in own_nodes(f) if isinstance(n, ast.Call) and
            call_name(n) == 'compile' and isinstance(n.func, ast.Attribute)
            and is_self_builder(n.func.value)]
    if not drops or not comp:
        raise AnalysisError('Cell.compile: `self.builder.compile(...)` / '
                            '`self.builder = None` not recognised')
    bound = False
    # stores `self.func = E` where E is built (through locals) from a value
    # that self.builder.compile(...) produces on some path - directly, or
    # after a look-up in a cache of such values
    from .common import _defs_of
    compiled_stores = []
    for t, v, st in assign_pairs(f):
        if isinstance(t, ast.Attribute) and t.attr == 'func' and isinstance(
                t.value, ast.Name) and t.value.id == sn:
            bound = True
            seen, work, hit = set(), [v], False
            while work and not hit:
                e = work.pop()
                if any(c is x for c in comp for x in ast.walk(e)):
                    hit = True
                    break
                for x in ast.walk(e):
                    if isinstance(x, ast.Name) and x.id not in seen:
                        seen.add(x.id)
                        work.extend(_defs_of(f, x.id))
            if hit:
                compiled_stores.append(st)
    rr.instances += 1
    cnodes = [cfg.node_of(c) for c in comp] + [
        cfg.node_of(st) for st in compiled_stores]
    bad = [d for d in drops if not any(
        cn is not None and cfg.dominates(cn, cfg.node_of(d), dom)
        for cn in cnodes)]
    if bad or not bound:
        d = (bad or drops)[0]
        rr.fail(key_of(f, 'expression dropped without being compiled'),
                'Cell.compile can reach `self.builder = None` (line %d) on a '
                'path that does not pass through self.builder.compile(): the '
                'whole formula is replaced by whatever constant the cell '
                'holds, so one unresolvable item anywhere in the formula - '
                'even inside a branch that is not selected or inside IFERROR '
                '- decides the cell' % d.lineno, file=f.module.rel,
                function=f.qualname, line=d.lineno)
    else:
        rr.ok('every path that discards the parsed expression has compiled '
              'it into self.func first', '%s:%d' % (f.module.rel,
                                                    drops[0].lineno))
    return rr


def rule_carry(ctx, prop='C14', rule='C14.carry'):
    """Locality inside the completion work-list: the decision to replace a node
    by an error placeholder is taken from what happened to *that* node in this
    iteration (an exception just caught, a lookup that just came back empty),
    never from state the loop carries over from other nodes."""
    rr = RuleResult(prop, rule, 'DEP',
                    'an error placeholder is never decided by state carried '
                    'over from other nodes', floor=1)
    p = ctx.project
    f = p.func('formulas/excel/__init__.py', 'ExcelModel.complete')
    loops = [n for n in f.node.body if isinstance(n, ast.While)]
    if len(loops) != 1:
        raise AnalysisError('complete: expected one while loop')
    lp = loops[0]
    mut = {'add', 'append', 'extend', 'update', 'setdefault', 'insert'}
    # containers created before the loop and written inside it
    before = {t.id for t, v, st in assign_pairs(f)
              if isinstance(t, ast.Name) and st.lineno < lp.lineno}
    carried = {}
    for n in ast.walk(lp):
        if isinstance(n, ast.Call) and isinstance(n.func, ast.Attribute) and \
                n.func.attr in mut and isinstance(n.func.value, ast.Name) and \
                n.func.value.id in before:
            carried.setdefault(n.func.value.id, n)
        if isinstance(n, ast.Assign):
            for t in n.targets:
                if isinstance(t, ast.Subscript) and isinstance(
                        t.value, ast.Name) and t.value.id in before:
                    carried.setdefault(t.value.id, n)
    # the work-list itself and the done-set are the loop's own bookkeeping
    wl = {x.id for x in ast.walk(lp.test) if isinstance(x, ast.Name)}
    # placeholder sites: Cell/Ref(<node>, '=#REF!' / error constant)
    sites = []

    def walk(stmts, guards):
        for st in stmts:
            if isinstance(st, ast.If):
                walk(st.body, guards + [st.test])
                walk(st.orelse, guards + [st.test])
                continue
            if isinstance(st, ast.Try):
                walk(st.body, guards)
                for h in st.handlers:
                    walk(h.body, guards)
                walk(st.orelse, guards)
                walk(st.finalbody, guards)
                continue
            if isinstance(st, (ast.For, ast.While, ast.With)):
                walk(st.body, guards)
                continue
            for c in ast.walk(st):
                if isinstance(c, ast.Call) and len(c.args) >= 2 and isinstance(
                        c.args[1], ast.Constant) and isinstance(
                        c.args[1].value, str) and c.args[1].value.startswith(
                        '=#'):
                    sites.append((c, list(guards)))

    walk(lp.body, [])
    if not sites:
        rr.instances = 1
        rr.ok('complete() registers no error placeholder inside the loop',
              f.module.rel, nontrivial=False)
    for c, guards in sites:
        rr.instances += 1
        names = {x.id for g in guards for x in ast.walk(g)
                 if isinstance(x, ast.Name)}
        bad = sorted((names & set(carried)) - wl)
        # the done-set guard is a skip (`continue`), it never encloses a site
        if bad:
            rr.fail(key_of(f, 'placeholder decided by carried state `%s`' %
                           bad[0]),
                    'complete() registers the placeholder `%s` under a '
                    'condition on `%s`, a container filled while *other* '
                    'nodes were processed (`%s`): the failure of one node '
                    'decides the value of another - e.g. one missing sheet '
                    'turns every later reference into the same workbook into '
                    '#REF!' % (norm_src(c)[:40], bad[0],
                               norm_src(carried[bad[0]])[:40]),
                    file=f.module.rel, function=f.qualname, line=c.lineno)
        else:
            rr.ok('placeholder `%s` (line %d) is decided by what happened to '
                  'this node' % (norm_src(c)[:40], c.lineno),
                  '%s:%d' % (f.module.rel, c.lineno))
    return rr


def _cachekey(ctx):
    """A per-run cache in the completion work-list must be keyed by everything
    its value depends on, the model state included: a cached context of a
    workbook that was dropped again turns every later reference to it into
    #REF! - damage that is not local."""
    from .common import rule_cachekey
    return rule_cachekey(ctx, 'C14', 'C14.cachekey',
                         ['formulas/excel/__init__.py'])


def rule_link(ctx):
    rr = RuleResult('C14', 'C14.link', 'DEF',
                    'a workbook index that the table of external links does '
                    'not know still names a workbook of its own', floor=1)
    from ..util import with_helpers, path_conditions
    p = ctx.project
    OPERAND = 'formulas/tokens/operand.py'
    f0 = p.func(OPERAND, 'range2parts')
    stores = []
    for g in with_helpers(ctx, f0):
        for n in own_nodes(g):
            if isinstance(n, ast.Assign) and any(
                    isinstance(x, ast.Subscript) and isinstance(
                        x.slice, ast.Constant) and x.slice.value == 'filename'
                    and isinstance(x.ctx, ast.Store)
                    for t_ in n.targets for x in ast.walk(t_)):
                stores.append((g, n))
    if not stores:
        raise AnalysisError('range2parts: where the file of an external '
                            'reference is set was not found')

    def link_names(g):
        names = set()
        for n in own_nodes(g):
            if isinstance(n, ast.Assign) and len(n.targets) == 1 and \
                    isinstance(n.targets[0], ast.Name) and \
                    "'external_links'" in norm_src(n.value):
                names.add(n.targets[0].id)
        return names

    for g, st in stores:
        rr.instances += 1
        links = link_names(g)

        def is_links(e):
            return "'external_links'" in norm_src(e) or (
                isinstance(e, ast.Name) and e.id in links)

        bad = [t_ for t_, pol in path_conditions(g, st)
               if isinstance(t_, ast.Compare) and len(t_.ops) == 1 and
               isinstance(t_.ops[0], (ast.In, ast.NotIn)) and is_links(
                   t_.comparators[0])]
        bad += [t_ for t_, pol in path_conditions(g, st)
                if isinstance(t_, ast.Call) and isinstance(
                    t_.func, ast.Attribute) and t_.func.attr == 'get' and
                is_links(t_.func.value) and len(t_.args) == 1]
        # ... or a test of what a default-less lookup in the table gave
        looked = {n.targets[0].id for n in own_nodes(g) if isinstance(
            n, ast.Assign) and len(n.targets) == 1 and isinstance(
            n.targets[0], ast.Name) and isinstance(n.value, ast.Call) and
            isinstance(n.value.func, ast.Attribute) and
            n.value.func.attr == 'get' and is_links(n.value.func.value) and
            len(n.value.args) == 1 and not n.value.keywords}
        for t_, pol in path_conditions(g, st):
            names = {x.id for x in ast.walk(t_) if isinstance(x, ast.Name)}
            if names & looked and (isinstance(t_, ast.Name) or isinstance(
                    t_, ast.Compare)):
                bad.append(t_)
        v = st.value
        if bad:
            rr.fail(key_of(g, 'unknown link index keeps the host workbook'),
                    '%s sets the file of an external reference only when `%s`:'
                    ' an index that the link table does not list keeps the '
                    'directory and file of the workbook that holds the formula, '
                    'so a reference into a missing workbook is read from the '
                    'host workbook instead of evaluating to #REF!' % (
                        g.qualname, norm_src(bad[0])), file=g.module.rel,
                    function=g.qualname, line=st.lineno)
        elif isinstance(v, ast.Call) and isinstance(
                v.func, ast.Attribute) and v.func.attr == 'get' and len(
                v.args) == 2 and is_links(v.func.value) and isinstance(
                v.args[1], ast.Tuple) and any(
                norm_src(e) == norm_src(v.args[0]) for e in v.args[1].elts):
            rr.ok('%s: an index without a link becomes a workbook named after '
                  'the index (`%s`)' % (g.qualname, norm_src(v.args[1])),
                  '%s:%d' % (g.module.rel, st.lineno))
        else:
            rr.ok('%s: the file of an external reference is set whether or '
                  'not the link table lists the index' % g.qualname,
                  '%s:%d' % (g.module.rel, st.lineno))
    return rr


def run(ctx):
    S = ctx.soft
    t = S(rule_table, ctx)
    t.prop, t.rule = 'C14', 'C14.table'
    for f in t.findings:
        f.prop, f.rule = 'C14', 'C14.table'
    for o in t.obligations:
        o.rule = 'C14.table'
    return [S(rule_name, ctx), t, S(rule_lookup, ctx), S(rule_ref, ctx),
            S(rule_plain, ctx), S(rule_local, ctx), S(_cachekey, ctx), S(rule_carry, ctx),
            S(rule_link, ctx)]
