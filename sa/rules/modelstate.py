"""Rules about ExcelModel's own state that several properties rely on.

(snapshot)  a local copy of a derived property (`refs = self.references`) is
            not used after a call that may change what the property is derived
            from, unless it is re-read first (forward dataflow on the CFG,
            exception edges included).
(emptied)   operations that must work on a copied / unpickled model never read
            an attribute that `__getstate__` replaces by an empty container.
(restore)   `__setstate__`/`__init__` never install a class-level or
            module-level mutable object into the instance.
"""
import ast

from ..model import AnalysisError, own_nodes, norm_src
from ..report import RuleResult
from ..cfg import CFG, ByLabel, stmt_exprs
from ..util import key_of

EXCEL = 'formulas/excel/__init__.py'
MODEL = 'ExcelModel'
MUTATORS = {'pop', 'popitem', 'clear', 'update', 'setdefault', 'append',
            'extend', 'remove', 'add', 'discard', 'insert', '__setitem__'}
# operations a copied or unpickled model must support (C17/C09/C07 entry points)
COPY_STABLE_OPS = ('calculate', '__call__', 'compile', 'to_dict', 'write')


def _is_property(f):
    return any(norm_src(d) in ('property', 'functools.cached_property',
                               'cached_property') for d in f.decorators())


def _self_attr(n, sn):
    return isinstance(n, ast.Attribute) and isinstance(n.value, ast.Name) and \
        n.value.id == sn


def property_deps(ctx, cls):
    """property name -> (self attributes read, constant mapping keys read)."""
    out = {}
    for name, f in cls.methods.items():
        if not _is_property(f) or not f.params:
            continue
        sn = f.params[0]
        attrs, keys = set(), set()
        for n in own_nodes(f):
            if _self_attr(n, sn):
                attrs.add(n.attr)
            if isinstance(n, ast.Call) and isinstance(n.func, ast.Attribute) \
                    and n.func.attr == 'get' and n.args and isinstance(
                    n.args[0], ast.Constant) and isinstance(
                    n.args[0].value, str):
                keys.add(n.args[0].value)
            if isinstance(n, ast.Subscript) and isinstance(
                    n.slice, ast.Constant) and isinstance(n.slice.value, str) \
                    and isinstance(n.ctx, ast.Load):
                keys.add(n.slice.value)
        if attrs:
            out[name] = (attrs, keys)
    # properties of base classes, and properties built on other properties
    for c in ctx.project.mro(cls)[1:]:
        for name, f in c.methods.items():
            if name in out or not _is_property(f) or not f.params:
                continue
            sn = f.params[0]
            attrs, keys = set(), set()
            for n in own_nodes(f):
                if _self_attr(n, sn):
                    attrs.add(n.attr)
                if isinstance(n, ast.Call) and isinstance(
                        n.func, ast.Attribute) and n.func.attr == 'get' and \
                        n.args and isinstance(n.args[0], ast.Constant) and \
                        isinstance(n.args[0].value, str):
                    keys.add(n.args[0].value)
                if isinstance(n, ast.Subscript) and isinstance(
                        n.slice, ast.Constant) and isinstance(
                        n.slice.value, str) and isinstance(n.ctx, ast.Load):
                    keys.add(n.slice.value)
            if attrs:
                out[name] = (attrs, keys)
    changed = True
    while changed:
        changed = False
        for name, (attrs, keys) in list(out.items()):
            for a in list(attrs):
                if a in out and a != name:
                    a2, k2 = out[a]
                    if not (a2 <= attrs and k2 <= keys):
                        out[name] = (attrs | a2, keys | k2)
                        attrs, keys = out[name]
                        changed = True
    return out


def _direct_staling(f, attrs, keys):
    """AST nodes of f that change `self.<attr>` or store under one of `keys`."""
    if not f.params:
        return []
    sn = f.params[0]
    out = []
    for n in own_nodes(f):
        if isinstance(n, (ast.Assign, ast.AugAssign, ast.Delete)):
            tg = n.targets if not isinstance(n, ast.AugAssign) else [n.target]
            for t in tg:
                for x in ast.walk(t):
                    if isinstance(x, ast.Subscript) and isinstance(
                            x.ctx, (ast.Store, ast.Del)):
                        if isinstance(x.slice, ast.Constant) and \
                                x.slice.value in keys:
                            out.append(n)
                        elif _self_attr(x.value, sn) and x.value.attr in attrs \
                                and not (isinstance(x.slice, ast.Constant)
                                         and keys):
                            # a store under another constant key of the same
                            # mapping does not touch what the property reads
                            out.append(n)
                    elif _self_attr(x, sn) and x.attr in attrs and isinstance(
                            x.ctx, (ast.Store, ast.Del)):
                        out.append(n)
        elif isinstance(n, ast.Call) and isinstance(n.func, ast.Attribute) and \
                n.func.attr in MUTATORS and _self_attr(n.func.value, sn) and \
                n.func.value.attr in attrs:
            out.append(n)
    return out


def self_closure(ctx, cls, start):
    """Methods of cls (package MRO) reachable from `start` through `self.m` uses."""
    p = ctx.project
    seen, work = {}, [start]
    while work:
        f = work.pop()
        if f.fq in seen or not f.params:
            continue
        seen[f.fq] = f
        sn = f.params[0]
        for n in own_nodes(f):
            if _self_attr(n, sn):
                m = p.find_method(cls, n.attr)
                if m is not None and m.fq not in seen:
                    work.append(m)
        for g in list(f.nested.values()) + list(f.lambdas):
            # closures see `self` of the enclosing method
            for n in ast.walk(g.node):
                if _self_attr(n, sn):
                    m = p.find_method(cls, n.attr)
                    if m is not None and m.fq not in seen:
                        work.append(m)
    return seen


def staling_methods(ctx, cls, attrs, keys):
    """method name -> witness text, for methods that may change the property."""
    out = {}
    for name, m in cls.methods.items():
        if _is_property(m):
            continue
        for fq, g in self_closure(ctx, cls, m).items():
            d = _direct_staling(g, attrs, keys)
            if d:
                out[name] = '%s: `%s`' % (g.qualname, norm_src(d[0])[:70])
                break
    return out


def _if_owner_map(f):
    return {id(n.test): n for n in own_nodes(f) if isinstance(n, ast.If)}


def _expr_nodes(cn):
    out = []
    for e in stmt_exprs(cn):
        if isinstance(e, (ast.FunctionDef, ast.AsyncFunctionDef, ast.ClassDef)):
            continue
        out.extend(ast.walk(e))
    return out


def stale_snapshot_uses(ctx, cls, f, deps=None):
    """[(use Name node, var, prop, staling witness, decided)] for method f of cls."""
    if not f.params:
        return [], 0
    sn = f.params[0]
    deps = deps if deps is not None else property_deps(ctx, cls)
    snaps = {}  # var -> prop
    refresh_nodes = {}
    for n in own_nodes(f):
        if isinstance(n, ast.Assign):
            pairs = []
            for t in n.targets:
                if isinstance(t, ast.Tuple) and isinstance(n.value, ast.Tuple) \
                        and len(t.elts) == len(n.value.elts):
                    pairs += list(zip(t.elts, n.value.elts))
                else:
                    pairs.append((t, n.value))
            for t, v in pairs:
                if isinstance(t, ast.Name) and _self_attr(v, sn) and \
                        v.attr in deps:
                    snaps[t.id] = v.attr
                    refresh_nodes.setdefault(id(n), set()).add(t.id)
    if not snaps:
        return [], 0
    stalers = {}
    for prop in set(snaps.values()):
        attrs, keys = deps[prop]
        stalers[prop] = (staling_methods(ctx, cls, attrs, keys),
                         {id(x) for x in _direct_staling(f, attrs, keys)})
    cfg = CFG(f)
    owners = _if_owner_map(f)

    def gen_of(cn):
        g, why = set(), None
        for n in _expr_nodes(cn):
            for var, prop in snaps.items():
                meths, direct = stalers[prop]
                if id(n) in direct:
                    g.add(var)
                    why = norm_src(n)[:60]
                if isinstance(n, ast.Call) and _self_attr(n.func, sn) and \
                        n.func.attr in meths:
                    g.add(var)
                    why = 'self.%s() [%s]' % (n.func.attr, meths[n.func.attr])
        return g, why

    def kills_of(cn):
        k = set()
        a = cn.ast
        if cn.kind == 'stmt' and isinstance(a, ast.Assign):
            k |= refresh_nodes.get(id(a), set())
            # any other assignment to the name makes it a different value
            for t in a.targets:
                for x in ast.walk(t):
                    if isinstance(x, ast.Name) and x.id in snaps:
                        k.add(x.id)
        return k

    def run(lenient):
        witness = {}

        def transfer(cn, st):
            g, why = gen_of(cn)
            if g:
                for v in g:
                    witness.setdefault(v, why)
            mid = frozenset(st | g)
            out = frozenset(mid - kills_of(cn))
            res = ByLabel({None: out, 'exc': mid})
            if lenient and cn.kind == 'test' and cn.label == 'if':
                owner = owners.get(id(cn.ast))
                if owner is not None:
                    cond = set()
                    for s in owner.body:
                        for x in ast.walk(s):
                            cond |= refresh_nodes.get(id(x), set())
                    if cond:
                        res['false'] = frozenset(out - cond)
            return res

        IN = cfg.forward(frozenset(), transfer, lambda a, b: a | b)
        uses = []
        for cn in cfg.nodes:
            st = IN.get(cn.id)
            if not st:
                continue
            for n in _expr_nodes(cn):
                if isinstance(n, ast.Name) and isinstance(n.ctx, ast.Load) and \
                        n.id in st:
                    uses.append((n, n.id, snaps[n.id], witness.get(n.id)))
        return uses

    strict = run(False)
    if not strict:
        return [], len(snaps)
    lenient = {id(u[0]) for u in run(True)}
    return [u + (id(u[0]) in lenient,) for u in strict], len(snaps)


def rule_snapshot(ctx, prop, rule, cls_rel=EXCEL, cls_name=MODEL,
                  need='references', min_snaps=2,
                  consequence='names defined by a workbook opened meanwhile '
                              'are unknown to the cells compiled with the '
                              'snapshot (#REF!)'):
    rr = RuleResult(prop, rule, 'DFA',
                    'a local snapshot of a derived property is re-read after '
                    'anything that can change it', floor=min_snaps)
    p = ctx.project
    cls = p.cls(cls_rel, cls_name)
    deps = property_deps(ctx, cls)
    if need not in deps:
        raise AnalysisError('%s.%s is not a derived property any more'
                            % (cls_name, need))
    n_snaps = 0
    for name, f in sorted(cls.methods.items()):
        uses, n = stale_snapshot_uses(ctx, cls, f, deps)
        n_snaps += n
        if not n:
            continue
        rr.instances += n
        if not uses:
            rr.ok('%s: every use of a snapshot of %s is reached only by paths '
                  'that re-read it after the last call that can change it' % (
                      f.qualname, ', '.join('self.' + x for x in sorted(
                          set(deps) & {a.attr for a in own_nodes(f)
                                       if isinstance(a, ast.Attribute)}))),
                  '%s:%d' % (f.module.rel, f.lineno))
            continue
        seen = set()
        for n_, var, pr, why, decided in uses:
            if (var, pr) in seen:
                continue
            seen.add((var, pr))
            if not decided:
                raise AnalysisError(
                    '%s: snapshot `%s` of self.%s is refreshed only under a '
                    'condition; whether the condition covers every change is '
                    'not decidable here' % (f.qualname, var, pr))
            rr.fail(key_of(f, 'stale snapshot of self.%s' % pr),
                    '%s uses `%s` (a snapshot of self.%s) at line %d on a path '
                    'where %s may have changed it since it was read: %s' % (
                        f.qualname, var, pr, n_.lineno, why or 'a call',
                        consequence),
                    file=f.module.rel, function=f.qualname, line=n_.lineno)
    if n_snaps < min_snaps:
        raise AnalysisError('snapshot rule: only %d snapshots of derived '
                            'properties of %s found' % (n_snaps, cls_name))
    return rr


# -- emptied attributes ---------------------------------------------------------
def emptied_attrs(ctx, cls):
    gs = cls.methods.get('__getstate__')
    if gs is None:
        return None, set()
    out = set()
    for n in own_nodes(gs):
        if isinstance(n, ast.Return) and isinstance(n.value, ast.Dict):
            for k, v in zip(n.value.keys, n.value.values):
                if not isinstance(k, ast.Constant):
                    continue
                empty = (isinstance(v, (ast.Dict,)) and not v.keys) or (
                    isinstance(v, (ast.List, ast.Set, ast.Tuple)) and
                    not v.elts) or (isinstance(v, ast.Constant) and
                                    v.value is None) or (
                    isinstance(v, ast.Call) and not v.args and not v.keywords
                    and norm_src(v.func) in ('dict', 'set', 'list'))
                if empty:
                    out.add(k.value)
    return gs, out


def rule_emptied(ctx, prop, rule, ops=COPY_STABLE_OPS):
    rr = RuleResult(prop, rule, 'SIB',
                    'operations that must work on a copied model read only '
                    'state that survives __getstate__', floor=len(ops))
    p = ctx.project
    cls = p.cls(EXCEL, MODEL)
    gs, emptied = emptied_attrs(ctx, cls)
    for op in ops:
        m = cls.methods.get(op)
        if m is None:
            raise AnalysisError('%s.%s not found' % (MODEL, op))
        rr.instances += 1
        bad = None
        closure = self_closure(ctx, cls, m)
        for fq, g in sorted(closure.items()):
            sn = g.params[0]
            scopes = [g.node] if g.is_lambda else None
            nodes = list(own_nodes(g))
            for h in list(g.nested.values()) + list(g.lambdas):
                nodes += list(ast.walk(h.node))
            for n in nodes:
                if _self_attr(n, sn) and n.attr in emptied and isinstance(
                        n.ctx, ast.Load):
                    bad = bad or (g, n)
        if bad is None:
            rr.ok('%s.%s (with %d methods it reaches through self) reads none '
                  'of the attributes __getstate__ empties (%s)' % (
                      MODEL, op, len(closure), ', '.join(sorted(emptied)) or
                      'none'), '%s:%d' % (m.module.rel, m.lineno))
        else:
            g, n = bad
            rr.fail(key_of(m, 'reads self.%s, emptied by __getstate__' % n.attr),
                    '%s.%s reads `self.%s` (in %s, line %d), but '
                    '__getstate__ replaces `%s` by an empty container: on a '
                    'deep copy, a dill round trip or a model whose cells were '
                    'added directly to the dispatcher the operation sees '
                    'nothing there and computes something else than on the '
                    'original' % (MODEL, op, n.attr, g.qualname, n.lineno,
                                  n.attr),
                    file=g.module.rel, function=g.qualname, line=n.lineno)
    return rr


# -- shared mutable defaults installed into instances -------------------------------
def _mutable_literal(v):
    if isinstance(v, (ast.Dict, ast.List, ast.Set, ast.ListComp, ast.DictComp,
                      ast.SetComp)):
        return True
    if isinstance(v, ast.Call) and norm_src(v.func) in (
            'dict', 'list', 'set', 'collections.OrderedDict',
            'collections.defaultdict', 'collections.deque'):
        return True
    return False


def _shared_container(ctx, f, e):
    """Description if expression e names a class-level / module-level mutable."""
    p = ctx.project
    sn = f.params[0] if f.params else None
    if isinstance(e, ast.Attribute) and isinstance(e.value, ast.Name) and \
            f.cls is not None and (e.value.id == sn or e.value.id == f.cls.name):
        a = p.find_class_attr(f.cls, e.attr)
        if a is not None and _mutable_literal(a[1]):
            return 'class attribute %s.%s' % (a[0].name, e.attr), a[1]
    if isinstance(e, ast.Attribute) and isinstance(e.value, ast.Call) and \
            norm_src(e.value.func) == 'type' and f.cls is not None:
        a = p.find_class_attr(f.cls, e.attr)
        if a is not None and _mutable_literal(a[1]):
            return 'class attribute %s.%s' % (a[0].name, e.attr), a[1]
    if isinstance(e, ast.Name):
        r = ctx.cg.resolve_name_expr(f, e)
        if r and r[0] == 'var':
            m, name = r[1], r[2]
            for st in m.tree.body:
                if isinstance(st, ast.Assign) and any(
                        isinstance(t, ast.Name) and t.id == name
                        for t in st.targets) and _mutable_literal(st.value):
                    return 'module variable %s.%s' % (m.rel, name), st.value
    return None


def shared_restores(ctx, f):
    """[(node, description)] where f installs a shared mutable into self."""
    if not f.params:
        return []
    sn = f.params[0]
    out = []
    for n in own_nodes(f):
        # self.X = <shared>
        if isinstance(n, ast.Assign):
            for t in n.targets:
                if _self_attr(t, sn):
                    d = _shared_container(ctx, f, n.value)
                    if d:
                        out.append((n, '`%s` binds the %s itself' % (
                            norm_src(n), d[0])))
        # self.__dict__.update(<shared dict whose values are mutable>)
        if isinstance(n, ast.Call) and isinstance(n.func, ast.Attribute) and \
                n.func.attr == 'update' and n.args:
            tgt = n.func.value
            is_state = _self_attr(tgt, sn) and tgt.attr == '__dict__' or (
                isinstance(tgt, ast.Call) and norm_src(tgt.func) == 'vars'
                and tgt.args and isinstance(tgt.args[0], ast.Name)
                and tgt.args[0].id == sn)
            if is_state:
                d = _shared_container(ctx, f, n.args[0])
                if d and isinstance(d[1], ast.Dict) and any(
                        _mutable_literal(v) for v in d[1].values):
                    out.append((n, '`%s` copies the values of the %s into the '
                                   'instance: the mutable ones are shared by '
                                   'every instance restored this way' % (
                                       norm_src(n), d[0])))
    return out


# -- no operation depends on the leftovers of an earlier calculation ------------------
HISTORY_FREE_OPS = ('calculate', '__call__', 'compile', 'to_dict', 'finish',
                    'complete', 'assemble', 'from_dict')


def rule_history(ctx, prop, rule, ops=HISTORY_FREE_OPS):
    """The dispatcher keeps the solution of its last run (`dsp.solution`).  An
    operation whose outcome may depend only on the model and on what it is
    given must not read it (ExcelModel.write, which is documented to default to
    the last solution, is the one reader)."""
    rr = RuleResult(prop, rule, 'WHO',
                    'calculation, compilation and export never read the '
                    'results of an earlier calculation', floor=4)
    p = ctx.project
    cls = p.cls(EXCEL, MODEL)
    for op in ops:
        m = cls.methods.get(op)
        if m is None:
            continue
        rr.instances += 1
        bad = None
        closure = dict(self_closure(ctx, cls, m))
        # module-level helpers of the same module the closure calls
        for g in list(closure.values()):
            for e in ctx.cg.out(g):
                if not e.is_ext and e.kind == 'call' and e.precision == 'exact' \
                        and e.dst.module is m.module and e.dst.cls is None:
                    closure.setdefault(e.dst.fq, e.dst)
        for fq, g in sorted(closure.items()):
            nodes = list(own_nodes(g))
            for h in list(g.nested.values()) + list(g.lambdas):
                nodes += list(ast.walk(h.node))
            for n in nodes:
                if isinstance(n, ast.Attribute) and n.attr == 'solution' and \
                        isinstance(n.ctx, ast.Load):
                    bad = bad or (g, n)
        if bad is None:
            rr.ok('%s.%s (with %d functions it reaches) never reads a '
                  'dispatcher\'s stored solution' % (MODEL, op, len(closure)),
                  '%s:%d' % (m.module.rel, m.lineno))
        else:
            g, n = bad
            rr.fail(key_of(m, 'reads the solution of an earlier calculation'),
                    '%s.%s reads `%s` (in %s, line %d): the values left by '
                    'whatever calculation ran last - overrides included - '
                    'flow into an operation that must depend only on the '
                    'model and its own arguments' % (
                        MODEL, op, norm_src(n), g.qualname, n.lineno),
                    file=g.module.rel, function=g.qualname, line=n.lineno)
    if rr.instances < 4:
        raise AnalysisError('history rule: only %d of the model operations '
                            'found' % rr.instances)
    return rr
