"""C18 - the parser is total: a formula or its syntax error, only (structural clauses)."""
import ast

from ..model import AnalysisError, own_nodes, norm_src
from ..peval import Const, is_const
from ..report import RuleResult
from ..effects import Exceptions, ExcClass
from ..util import key_of, src, call_name
from ..pattern import match as match_pat
from .. import rx
from . import tokens_lang as TL

META = {
    'decides': (
        'C18, structural clauses only: (esc) over the call graph from '
        'Parser.ast (rapid type analysis through the token hierarchy, the '
        'builder and what they reach) every exception class that is '
        'explicitly raised - or raised by a short table of implicit raisers '
        ' (eval/exec, schedula add_function/add_data id clashes, table lookups '
        'whose key language is not contained in the table) - and not handled '
        'on the way out belongs to the FormulaError family; (reject) the '
        'characters the operator tokenizer folds into signs are only + and -; '
        ' (arity) operand underflow and unmatched filters are turned into '
        'FormulaError; (num) the numeric-literal regex language is contained '
        'in the domain of the conversion Number.compile applies.'
        ' (adjacent) both adjacent-operand guards test the whole Operand family.'
        ' (drain) after the last token the operator stack is walked by a loop that raises on a left-over parenthesis; (num, ascii) the Number regex has no Unicode digit category.'),
    'not_decided': (
        'Termination, rejection of every malformed string, and exceptions '
        'raised implicitly by library code outside the implicit-raiser table.'),
    'trusted_base': [
        'CPython ast and re._parser', 'spec/exceptions.json',
        'schedula: add_function/add_data raise ValueError on an id clash; a '
        'dispatcher built with raises=True re-raises node exceptions as '
        'DispatcherError (a ValueError)',
        'call graph: exact names + rapid type analysis for unknown receivers'],
    'assumptions': [
        'regex languages are compared on ASCII with repeats expanded twice'],
}

# Infeasible (raise site, reason) pairs suppressed one at a time (DESIGN Appendix C)
SUPPRESS = {
    ('AnchorRangeName', 'formulas/ranges.py::Ranges.get_range'):
        'anchors are marked is_reference in Range.process, and '
        'AstBuilder.get_node_id never calls compile() on reference tokens',
    ('RangeValueError', 'formulas/ranges.py::Ranges.value'):
        'Ranges.value is only reached from set_value when a Ranges value is '
        'pushed; Range.compile pushes a reference string without value',
}


def entry_setup(ctx):
    p = ctx.project
    roots = [p.func('formulas/parser.py', 'Parser.ast'),
             p.func('formulas/parser.py', 'Parser.is_formula')]
    reach, inst, allowed = ctx.cg.rta(roots)
    return roots, reach, inst, allowed


def rule_esc(ctx):
    rr = RuleResult('C18', 'C18.esc', 'ESC',
                    'exception classes escaping Parser.ast are FormulaError '
                    'family', floor=40)
    p = ctx.project
    spec = ctx.spec('exceptions')
    implicit = {k: v for k, v in spec['implicit'].items()
                if k in ('builtins.eval', 'builtins.exec', 'builtins.compile',
                         'ast.literal_eval')}
    implicit['?.add_function'] = spec['implicit']['schedula.Dispatcher.add_function']
    implicit['?.add_data'] = spec['implicit']['schedula.Dispatcher.add_data']
    roots, reach, inst, allowed = entry_setup(ctx)
    ex = Exceptions(ctx, implicit=implicit, suppress=set(SUPPRESS),
                    follow=lambda e: (e.src.fq, e.dst.fq) in allowed)
    funcs = [v[0] for v in reach.values()]
    ex.compute(roots, funcs)
    rr.instances = len(funcs)
    fe = ExcClass('FormulaError', pkg=p.cls('formulas/errors.py', 'FormulaError'))
    entry = roots[0]
    n_raise = 0
    for f in funcs:
        n_raise += sum(1 for n in own_nodes(f) if isinstance(n, ast.Raise))
    found = dict(ex.esc[entry.fq])
    # implicit KeyError: operator name language not contained in the table
    op = p.cls(TL.OPERATOR_REL, 'Operator')
    prec = TL.precedences(ctx)
    pred = p.find_method(op, 'pred')
    for c in TL.parser_filters(ctx):
        if not p.is_subclass(c, op):
            continue
        names, _ = TL.producible_names(ctx, c)
        missing = sorted(n for n in names if n not in prec)
        if missing and pred is not None:
            found[(ExcClass('KeyError', builtin=KeyError),
                   '%s::%s via %s' % (pred.module.rel, pred.qualname, c.name))] = [
                '%s:%d Operator.pred indexes _precedences with the token name; '
                '%s can produce %s' % (pred.module.rel, pred.lineno, c.name,
                                       ', '.join(repr(m) for m in missing))]
    # the same for every other token class: `self.<table>[self.name]` in a
    # method the parser reaches, where <table> is a class-level mapping with
    # constant keys - the names the class regex can produce (all case variants
    # when it is compiled with IGNORECASE) must be keys of the table
    for c in TL.parser_filters(ctx):
        if p.is_subclass(c, op):
            continue
        r0 = TL.class_regex(ctx, c, '_re')
        subs = r0.groups_named('name') if r0 is not None else []
        if not subs:
            continue
        lang = None
        for k in p.mro(c):
            for m_ in k.methods.values():
                if m_.fq not in reach or not m_.params:
                    continue
                sn = m_.params[0]
                for n in own_nodes(m_):
                    if not (isinstance(n, ast.Subscript) and isinstance(
                            n.ctx, ast.Load) and isinstance(
                            n.value, ast.Attribute) and isinstance(
                            n.value.value, ast.Name) and
                            n.value.value.id == sn):
                        continue
                    key, fold = n.slice, None
                    if isinstance(key, ast.Call) and isinstance(
                            key.func, ast.Attribute) and key.func.attr in (
                            'upper', 'lower') and not key.args:
                        key, fold = key.func.value, key.func.attr
                    if not (isinstance(key, ast.Attribute) and
                            key.attr == 'name' and isinstance(
                            key.value, ast.Name) and key.value.id == sn):
                        continue
                    tab = TL.class_const(ctx, c, n.value.attr)
                    from ..peval import DictV
                    if not (isinstance(tab, DictV) and tab.items and all(
                            is_const(k_, str) for k_, _v in tab.items)):
                        continue
                    keys = {k_.v for k_, _v in tab.items}
                    # the alternatives of the regex that can be the match
                    # here: under `self.has_<g>` only those with group g,
                    # under its negation only those without
                    from ..util import path_conditions
                    stmt_ = None
                    for st_ in own_nodes(m_):
                        if isinstance(st_, ast.stmt) and any(
                                x is n for k2, v2 in ast.iter_fields(st_)
                                if k2 not in ('body', 'orelse', 'finalbody',
                                              'handlers')
                                for v3 in (v2 if isinstance(v2, list) else [v2])
                                if isinstance(v3, ast.AST)
                                for x in ast.walk(v3)):
                            stmt_ = st_
                    here = list(subs)
                    conds_ = list(path_conditions(m_, stmt_)
                                  if stmt_ is not None else [])
                    if m_.name.startswith('_') and not m_.name.startswith(
                            '__'):
                        # a private method runs under the conditions that hold
                        # at every place it is called on the same object
                        sites = []
                        for k3 in p.mro(c):
                            for m3 in k3.methods.values():
                                if not m3.params:
                                    continue
                                for st3 in own_nodes(m3):
                                    if isinstance(st3, ast.stmt) and any(
                                            isinstance(x, ast.Call) and
                                            isinstance(x.func, ast.Attribute)
                                            and x.func.attr == m_.name and
                                            isinstance(x.func.value, ast.Name)
                                            and x.func.value.id == m3.params[0]
                                            for k4, v4 in ast.iter_fields(st3)
                                            if k4 not in ('body', 'orelse',
                                                          'finalbody',
                                                          'handlers')
                                            for v5 in (v4 if isinstance(
                                                v4, list) else [v4])
                                            if isinstance(v5, ast.AST)
                                            for x in ast.walk(v5)):
                                        sites.append([
                                            (cn.attr, pl) for cn, pl in
                                            path_conditions(m3, st3)
                                            if isinstance(cn, ast.Attribute)
                                            and isinstance(cn.value, ast.Name)
                                            and cn.value.id == m3.params[0]
                                            and cn.attr.startswith('has_')])
                        if sites:
                            common = set(sites[0])
                            for s3 in sites[1:]:
                                common &= set(s3)
                            for attr3, pl in common:
                                conds_.append((ast.Attribute(
                                    value=ast.Name(id=sn, ctx=ast.Load()),
                                    attr=attr3, ctx=ast.Load()), pl))
                    for cnd, pol in conds_:
                        if isinstance(cnd, ast.Attribute) and isinstance(
                                cnd.value, ast.Name) and cnd.value.id == sn \
                                and cnd.attr.startswith('has_'):
                            g_ = cnd.attr[4:]
                            here = [s_ for s_ in here
                                    if r0.contains_group(s_, g_) == pol]
                    lang = set()
                    for s_ in here:
                        lang |= rx.language(s_, max_rep=2,
                                            ignorecase=r0.ignorecase())
                    if len(lang) > 4000:
                        raise AnalysisError(
                            '%s: name language too large' % c.fq)
                    names = {getattr(x, fold)() for x in lang} if fold \
                        else set(lang)
                    rr.instances += 1
                    missing = sorted(x for x in names if x not in keys)
                    if missing:
                        found[(ExcClass('KeyError', builtin=KeyError),
                               '%s::%s via %s' % (m_.module.rel, m_.qualname,
                                                  c.name))] = [
                            '%s:%d %s indexes %s with the token name; %s can '
                            'produce %s' % (
                                m_.module.rel, n.lineno, m_.qualname,
                                n.value.attr, c.name, ', '.join(
                                    repr(x) for x in missing[:4]) + (
                                    ' ...' if len(missing) > 4 else ''))]
    allowed_n = 0
    for (c, origin), w in sorted(found.items(), key=lambda kv: (kv[0][0].name,
                                                                kv[0][1])):
        if ex.is_sub(c, fe):
            allowed_n += 1
            rr.ok('%s raised in %s reaches the boundary: member of the '
                  'FormulaError family' % (c.name, origin), w[0])
            continue
        ofile = origin.split('::')[0]
        rr.fail('formulas/parser.py::Parser.ast::escapes %s from %s' % (
            c.name, origin),
            '%s raised in %s can leave Parser.ast: it is not a FormulaError '
            'and no handler on the way out catches it' % (c.name, origin),
            file=ofile, function=origin.split('::', 1)[1],
            line=_line_of(w), path=w)
    for (cn, origin), why in SUPPRESS.items():
        rr.ok('%s at %s: infeasible edge suppressed (%s)' % (cn, origin, why),
              origin)
    rr.note('%d functions reachable (RTA, %d instantiated classes), %d raise '
            'statements, %d escaping (class, origin) pairs of which %d in the '
            'FormulaError family' % (len(funcs), len(inst), n_raise,
                                     len(found), allowed_n))
    if n_raise < 15:
        raise AnalysisError('C18.esc: only %d raise statements reachable' % n_raise)
    return rr


def _line_of(w):
    try:
        return int(w[0].split(':')[1].split(' ')[0])
    except Exception:
        return None


def rule_reject(ctx):
    rr = RuleResult('C18', 'C18.reject', 'SYM',
                    'characters folded into a sign by the operator tokenizer '
                    'are only + and -', floor=1)
    p = ctx.project
    ot = p.cls(TL.OPERATOR_REL, 'OperatorToken')
    r = TL.class_regex(ctx, ot, '_re_process')
    if r is None:
        raise AnalysisError('OperatorToken._re_process not found')
    rep = TL.class_const(ctx, ot, '_replace')
    removed = set(rep.v) if is_const(rep, str) else set()
    subs = r.groups_named('sum_minus')
    if not subs:
        rr.instances += 1
        rr.ok('no sign-run group in the operator regex', r.where)
        return rr
    for s in subs:
        rr.instances += 1
        run = rx.is_unbounded_run(s)
        if run is None:
            chars = set(''.join(rx.language(s, max_rep=2)))
        else:
            chars = rx.charset(run[0])
        extra = sorted(chars - removed - {'+', '-'})
        if extra:
            rr.fail('%s::OperatorToken::sum_minus class admits non-sign '
                    'characters' % TL.OPERATOR_REL,
                    'the sign-run group of OperatorToken._re_process matches %s '
                    'besides + and - (only %r is stripped first): such a '
                    'character between two operands is silently read as `+`' % (
                        ', '.join(repr(c) for c in extra), ''.join(sorted(removed))),
                    file=TL.OPERATOR_REL, function='OperatorToken',
                    line=ot.node.lineno, items=['%02x' % ord(c) for c in extra])
        else:
            rr.ok('sign-run class minus stripped characters is {+,-}', r.where)
    return rr


def rule_arity(ctx):
    rr = RuleResult('C18', 'C18.arity', 'MPT',
                    'operand underflow / unmatched input become FormulaError',
                    floor=3)
    p = ctx.project
    ex = Exceptions(ctx)
    fe = ExcClass('FormulaError', pkg=p.cls('formulas/errors.py', 'FormulaError'))
    te = ExcClass('TokenError', pkg=p.cls('formulas/errors.py', 'TokenError'))
    app = p.func('formulas/builder.py', 'AstBuilder.append')
    # pops inside try/except IndexError -> FormulaError
    rr.instances += 1
    ok = False
    pops_outside = []
    from ..util import nodes_with_helpers
    for g_, n in nodes_with_helpers(ctx, app):
        if isinstance(n, ast.Try):
            has_pop = any(isinstance(c, ast.Call) and call_name(c) == 'pop'
                          for s in n.body for c in ast.walk(s))
            if not has_pop:
                continue
            for h in n.handlers:
                hc = ex.handler_classes(g_, h)
                if any(c.name in ('IndexError', 'LookupError', 'Exception')
                       for c in hc):
                    raises = [s for s in h.body if isinstance(s, ast.Raise)]
                    if raises and raises[-1].exc is not None:
                        c = ex.exc_of_expr(g_, raises[-1].exc)
                        if c is not None and ex.is_sub(c, fe):
                            ok = True
    if ok:
        rr.ok('operand pops are inside try/except IndexError -> FormulaError',
              app.module.rel)
    else:
        rr.fail(key_of(app, 'operand underflow not converted'),
                'AstBuilder.append pops operands without converting '
                'IndexError (missing operand) into FormulaError',
                file=app.module.rel, function=app.qualname, line=app.lineno)
    # Parser.ast filter loop
    pa = p.func('formulas/parser.py', 'Parser.ast')
    from ..util import with_helpers
    loops = []
    for g_ in with_helpers(ctx, pa):
        for n in own_nodes(g_):
            if isinstance(n, ast.For) and any(isinstance(s, ast.Try)
                                              for s in n.body):
                loops.append((g_, n))
    if len(loops) != 1:
        raise AnalysisError('Parser.ast: filter loop not recognised')
    pa0 = pa
    pa, loop = loops[0]
    tr = [s for s in loop.body if isinstance(s, ast.Try)][0]
    rr.instances += 1
    tok_ok = form_ok = False
    for h in tr.handlers:
        hc = ex.handler_classes(pa, h)
        last = h.body[-1] if h.body else None
        if any(c == te for c in hc) and isinstance(last, (ast.Pass, ast.Continue)):
            tok_ok = True
        if any(c == fe for c in hc) and isinstance(last, ast.Raise):
            c = ex.exc_of_expr(pa, last.exc) if last.exc is not None else fe
            form_ok = c is not None and ex.is_sub(c, fe)
        if any(ex.is_sub(fe, c) and c != fe and c != te for c in hc) and \
                not isinstance(last, ast.Raise):
            form_ok = False
    if tok_ok and form_ok:
        rr.ok('filter loop: TokenError tries the next filter, FormulaError is '
              're-raised as FormulaError', '%s:%d' % (pa.module.rel, tr.lineno))
    else:
        rr.fail(key_of(pa, 'filter loop handlers'),
                'the tokenizer loop no longer skips on TokenError and re-raises '
                'FormulaError as FormulaError', file=pa.module.rel,
                function=pa.qualname, line=tr.lineno)
    rr.instances += 1
    else_raises = [s for s in loop.orelse if isinstance(s, ast.Raise)]
    if not else_raises and not any(isinstance(x, ast.Break)
                                   for x in ast.walk(loop)):
        # the loop leaves by `return` on success: the statement after it is
        # what runs when no filter matched
        for holder in ast.walk(pa.node):
            for fld in ('body', 'orelse', 'finalbody'):
                stmts = getattr(holder, fld, None)
                if isinstance(stmts, list) and loop in stmts:
                    nxt = stmts[stmts.index(loop) + 1:stmts.index(loop) + 2]
                    else_raises = [s for s in nxt if isinstance(s, ast.Raise)]
    good = False
    if else_raises and else_raises[-1].exc is not None:
        c = ex.exc_of_expr(pa, else_raises[-1].exc)
        good = c is not None and ex.is_sub(c, fe)
    stale = nxt = None
    if not else_raises and any(isinstance(x, ast.Break)
                               for x in ast.walk(loop)):
        # the sentinel form: `X = None` before the loop, `X = <token>` ...
        # `break` inside, `if X is None: raise FormulaError` after it.  It is
        # the for-else only if nothing that can fail sits between the store
        # and the `break` under a handler that goes on to the next filter -
        # otherwise a rejected token stays bound and the test after the loop
        # passes although no filter matched.
        holder = None
        for h_ in ast.walk(pa.node):
            for fld in ('body', 'orelse', 'finalbody'):
                stmts_ = getattr(h_, fld, None)
                if isinstance(stmts_, list) and any(x is loop for x in stmts_):
                    holder = stmts_
        nxt = holder[holder.index(loop) + 1] if holder is not None and \
            holder.index(loop) + 1 < len(holder) else None
        if isinstance(nxt, ast.If) and isinstance(
                nxt.test, ast.Compare) and len(nxt.test.ops) == 1 and \
                isinstance(nxt.test.ops[0], ast.Is) and isinstance(
                nxt.test.left, ast.Name) and isinstance(
                nxt.test.comparators[0], ast.Constant) and \
                nxt.test.comparators[0].value is None and any(
                isinstance(s_, ast.Raise) for s_ in nxt.body):
            var = nxt.test.left.id
            rs = [s_ for s_ in nxt.body if isinstance(s_, ast.Raise)]
            c = ex.exc_of_expr(pa, rs[-1].exc) if rs[-1].exc is not None \
                else None
            reset = any(isinstance(s_, ast.Assign) and any(
                isinstance(t_, ast.Name) and t_.id == var for t_ in s_.targets)
                and isinstance(s_.value, ast.Constant) and
                s_.value.value is None
                for s_ in holder[:holder.index(loop)])
            good = c is not None and ex.is_sub(c, fe) and reset
            swallowing = any(
                h.body and isinstance(h.body[-1], (ast.Pass, ast.Continue))
                for h in tr.handlers)
            for blk in ast.walk(loop):
                for fld in ('body', 'orelse', 'finalbody'):
                    stmts_ = getattr(blk, fld, None)
                    if not isinstance(stmts_, list):
                        continue
                    for i_, s_ in enumerate(stmts_):
                        if not (isinstance(s_, ast.Assign) and any(
                                isinstance(t_, ast.Name) and t_.id == var
                                for t_ in s_.targets)):
                            continue
                        rest = stmts_[i_ + 1:]
                        upto = [k for k, r_ in enumerate(rest)
                                if isinstance(r_, ast.Break)]
                        between = rest[:upto[0]] if upto else rest
                        risky = [r_ for r_ in between if any(
                            isinstance(x, ast.Call) for x in ast.walk(r_))]
                        in_try = any(x is s_ for t_ in [tr]
                                     for b_ in t_.body for x in ast.walk(b_))
                        if risky and swallowing and in_try:
                            stale = (s_, risky[0])
    if stale is not None:
        rr.fail(key_of(pa, 'no-filter-matched case'),
                'the loop binds `%s` (line %d) before `%s`, which can raise '
                'TokenError under a handler that moves on to the next filter: '
                'when every filter rejects the text the name is still bound, '
                'the `is None` test after the loop passes and the text is '
                'skipped instead of raising FormulaError' % (
                    norm_src(stale[0].targets[0]), stale[0].lineno,
                    norm_src(stale[1])[:50]), file=pa.module.rel,
                function=pa.qualname, line=stale[0].lineno)
    elif good:
        rr.ok('no filter matched -> FormulaError (for-else)', pa.module.rel)
    elif not else_raises and any(isinstance(x, ast.Break)
                                 for x in ast.walk(loop)) and isinstance(
            nxt, ast.If):
        # some test follows the loop, but not one this rule can read
        raise AnalysisError('Parser.ast: how the loop over the filters '
                            'reports that none matched was not recognised')
    else:
        rr.fail(key_of(pa, 'no-filter-matched case'),
                'when no token class matches the rest of the input the loop '
                'does not raise FormulaError (characters outside the grammar '
                'would be skipped or loop forever)', file=pa.module.rel,
                function=pa.qualname, line=loop.lineno)
    # single result
    rr.instances += 1
    single = False
    for g_ in with_helpers(ctx, pa0):
        for n in own_nodes(g_):
            if isinstance(n, ast.If) and match_pat('len(__b) != 1', n.test) \
                    is not None and any(isinstance(s, ast.Raise)
                                        for s in n.body):
                single = True
    if single:
        rr.ok('a formula that does not reduce to one expression raises '
              'FormulaError', pa.module.rel)
    else:
        rr.fail(key_of(pa, 'single-expression check'),
                'Parser.ast no longer rejects input that leaves more than one '
                'expression on the builder (two adjacent operands)',
                file=pa.module.rel, function=pa.qualname, line=pa.lineno)
    return rr


def rule_adjacent(ctx):
    rr = RuleResult('C18', 'C18.adjacent', 'MPT',
                    'two adjacent operands are rejected', floor=2)
    p = ctx.project
    ex = Exceptions(ctx)
    fe = ExcClass('FormulaError', pkg=p.cls('formulas/errors.py', 'FormulaError'))
    operand = p.cls('formulas/tokens/operand.py', 'Operand')
    sites = [(p.func('formulas/tokens/operand.py', 'Operand.ast'),
              'an operand right after an operand', None),
             (p.func('formulas/tokens/parenthesis.py', 'Parenthesis.ast'),
              'an opening parenthesis right after an operand', 'has_start')]
    for f, what, extra in sites:
        rr.instances += 1
        ok, narrowed = False, None
        for n in own_nodes(f):
            if not isinstance(n, ast.If):
                continue
            raises = [s for s in n.body if isinstance(s, ast.Raise)]
            if not raises:
                continue
            c = ex.exc_of_expr(f, raises[0].exc) if raises[0].exc is not None \
                else None
            if c is None or not ex.is_sub(c, fe):
                continue
            for call in ast.walk(n.test):
                if isinstance(call, ast.Call) and isinstance(
                        call.func, ast.Name) and call.func.id == 'isinstance' \
                        and len(call.args) == 2 and 'tokens[-1]' in norm_src(
                        call.args[0]):
                    r = ctx.cg.resolve_name_expr(f, call.args[1])
                    if r and r[0] == 'class':
                        if extra and extra not in norm_src(n.test):
                            continue
                        if r[1] is operand:
                            ok = True
                        elif p.is_subclass(r[1], operand):
                            narrowed = r[1].name
        if ok:
            rr.ok('%s raises a FormulaError (guard on the Operand base class)'
                  % what, '%s:%d' % (f.module.rel, f.lineno))
        elif narrowed:
            rr.fail(key_of(f, 'adjacent-operand guard narrowed'),
                    '%s only rejects %s when the previous token is a %s, not '
                    'any Operand: e.g. a number followed by `(` is silently '
                    'read as two arguments' % (f.qualname, what, narrowed),
                    file=f.module.rel, function=f.qualname, line=f.lineno)
        else:
            rr.fail(key_of(f, 'adjacent-operand guard missing'),
                    '%s no longer rejects %s' % (f.qualname, what),
                    file=f.module.rel, function=f.qualname, line=f.lineno)
    return rr


def _has_category(tree, name):
    r"""The parsed pattern contains the character category `name` (e.g. the
    `\d` of CATEGORY_DIGIT), anywhere."""
    def rec(x):
        if isinstance(x, (list, tuple)) or hasattr(x, 'data'):
            for y in (x.data if hasattr(x, 'data') else x):
                if rec(y):
                    return True
            return False
        return str(x) == name
    return rec(tree)


def rule_num(ctx):
    rr = RuleResult('C18', 'C18.num', 'E6+TAB',
                    'numeric literal language within the domain of the '
                    'conversion', floor=1)
    p = ctx.project
    num = p.cls('formulas/tokens/operand.py', 'Number')
    r = TL.class_regex(ctx, num, '_re')
    comp = num.methods.get('compile')
    if comp is None:
        raise AnalysisError('Number.compile not found')
    convs = set()
    for n in own_nodes(comp):
        if isinstance(n, ast.Call) and isinstance(n.func, ast.Name):
            convs.add(n.func.id)
    digits = lambda cs: ({'0', '7'} & cs) or cs  # representatives for digit classes
    lang = set()
    for s in r.groups_named('name'):
        lang |= rx.language(s, max_rep=2, ignorecase=False, reduce=lambda cs: (
            {'0', '7'} if cs >= set('0123456789') else cs))
    # ASCII digits only: in a str pattern `\d` is every Unicode decimal digit
    # (no ASCII flag), and int()/float() convert those - a character outside
    # the grammar would be read as a number instead of being rejected
    rr.instances += 1
    import re as _re_mod
    uni = _has_category(r.tree, 'CATEGORY_DIGIT')
    if uni and not (r.flags & _re_mod.ASCII):
        rr.fail(key_of(comp, 'numeric literal admits non-ASCII digits'),
                'the Number regex uses `\\d` without the ASCII flag: it matches '
                'every Unicode decimal digit and %s converts them, so text '
                'such as an Arabic-Indic or full-width digit is read as a '
                'number instead of being rejected as outside the grammar'
                % '/'.join(sorted(convs & {'int', 'float'}) or ['the '
                                                               'conversion']),
                file=comp.module.rel, function='Number._re', line=comp.lineno)
    else:
        rr.ok('the Number regex writes its digits as ASCII ranges',
              comp.module.rel)
    rr.instances += 1
    bools = {'TRUE', 'FALSE'}
    numeric = sorted(x for x in lang if x.upper() not in bools)
    if not numeric:
        raise AnalysisError('Number regex: empty numeric language')
    if 'eval' in convs or 'literal_eval' in convs:
        bad = []
        for s in numeric:
            try:
                compile(s.capitalize(), '<literal>', 'eval')
            except SyntaxError:
                bad.append(s)
        if bad:
            rr.fail(key_of(comp, 'eval on numeric literal'),
                    'Number.compile evaluates the literal as Python source, '
                    'but the Number regex accepts %d forms that are not '
                    'Python literals (e.g. %s): SyntaxError escapes the '
                    'parser' % (len(bad), ', '.join(repr(b) for b in bad[:4])),
                    file=comp.module.rel, function=comp.qualname,
                    line=comp.lineno)
        else:
            rr.ok('every numeric form is a Python literal', comp.module.rel)
    elif convs & {'float', 'int'}:
        bad = []
        for s in numeric:
            try:
                float(s)
            except ValueError:
                bad.append(s)
        if bad:
            rr.fail(key_of(comp, 'conversion rejects accepted literal'),
                    'the Number regex accepts %s which float() rejects' % (
                        ', '.join(repr(b) for b in bad[:4])),
                    file=comp.module.rel, function=comp.qualname,
                    line=comp.lineno)
        else:
            rr.ok('all %d enumerated numeric forms (leading zeros, fractions, '
                  'signed exponents) are in the domain of float()' % len(numeric),
                  comp.module.rel)
        if 'float' not in convs:
            rr.fail(key_of(comp, 'no float conversion'),
                    'Number.compile converts with int() only: decimals and '
                    'exponents raise ValueError', file=comp.module.rel,
                    function=comp.qualname, line=comp.lineno)
    else:
        raise AnalysisError('Number.compile: conversion not recognised (%s)' %
                            sorted(convs))
    # int() of text has a second failure mode that float() has not: beyond
    # sys.int_max_str_digits (4300) it raises ValueError whatever the text
    # looks like.  The literal's digit run is unbounded, so every int() of it
    # needs a ValueError handler (the float() fallback)
    import re._constants as _c

    def unbounded(sp):
        for op, av in sp:
            if op in (_c.MAX_REPEAT, _c.MIN_REPEAT,
                      getattr(_c, 'POSSESSIVE_REPEAT', None)):
                lo, hi, body = av
                if hi == _c.MAXREPEAT and any(
                        (rx.charset(b) or set()) & set('0123456789')
                        for b in body):
                    return True
                if unbounded(body):
                    return True
            elif op is _c.SUBPATTERN:
                if unbounded(av[3]):
                    return True
            elif op is _c.BRANCH:
                if any(unbounded(x) for x in av[1]):
                    return True
            elif op in (getattr(_c, 'ATOMIC_GROUP', None),):
                if unbounded(av):
                    return True
        return False

    if any(unbounded(sgrp) for sgrp in r.groups_named('name')):
        ints = [n for n in own_nodes(comp) if isinstance(n, ast.Call)
                and isinstance(n.func, ast.Name) and n.func.id == 'int']
        for c in ints:
            rr.instances += 1
            guarded = False
            for t in own_nodes(comp):
                if isinstance(t, ast.Try) and any(
                        x is c for s_ in t.body for x in ast.walk(s_)):
                    for h in t.handlers:
                        names = {norm_src(e) for e in (
                            h.type.elts if isinstance(h.type, ast.Tuple)
                            else [h.type])} if h.type is not None else {
                            'BaseException'}
                        if names & {'ValueError', 'Exception', 'BaseException'}:
                            guarded = True
            if guarded:
                rr.ok('`%s` sits in a try that catches ValueError (digit-count '
                      'limit of int(), non-integer forms)' % norm_src(c),
                      '%s:%d' % (comp.module.rel, c.lineno))
            else:
                rr.fail(key_of(comp, 'int() of the literal without ValueError '
                                     'handler'),
                        'Number.compile calls `%s` outside any handler for '
                        'ValueError. The Number regex puts no bound on the '
                        'digit run and int() refuses text longer than '
                        'sys.int_max_str_digits (4300 digits) with ValueError, '
                        'whatever test precedes it: that exception leaves the '
                        'parser (float() of the same text has no such limit)'
                        % norm_src(c), file=comp.module.rel,
                        function=comp.qualname, line=c.lineno)
    rr.note('%d numeric forms enumerated, e.g. %s' % (len(numeric), numeric[:6]))
    return rr


def rule_drain(ctx):
    rr = RuleResult('C18', 'C18.drain', 'MPT',
                    'at the end of the input every entry left on the operator '
                    'stack is examined: an opening parenthesis anywhere in it '
                    'is an error', floor=1)
    p = ctx.project
    f = p.func('formulas/parser.py', 'Parser.ast')
    close = None
    for i, st in enumerate(f.node.body):
        if isinstance(st, ast.Expr) and isinstance(st.value, ast.Call) and \
                isinstance(st.value.func, ast.Attribute) and \
                st.value.func.attr == 'ast' and isinstance(
                st.value.func.value, ast.Call) and call_name(
                st.value.func.value) == 'Parenthesis' and \
                st.value.func.value.args and isinstance(
                st.value.func.value.args[0], ast.Constant) and \
                st.value.func.value.args[0].value == ')' and len(
                st.value.args) >= 2 and isinstance(st.value.args[1], ast.Name):
            close = (i, st.value.args[1].id)
        elif isinstance(st, ast.Expr) and isinstance(st.value, ast.Call) and \
                isinstance(st.value.func, ast.Attribute) and \
                st.value.func.attr == 'ast' and isinstance(
                st.value.func.value, ast.Call) and call_name(
                st.value.func.value) == 'Parenthesis' and \
                st.value.func.value.args and isinstance(
                st.value.func.value.args[0], ast.Constant) and \
                st.value.func.value.args[0].value == ')':
            # arguments passed as a bundle (`.ast(*state)`): the stack is
            # whatever the next statements hand to a helper that pops it
            for st2 in f.node.body[i + 1:]:
                for x in ast.walk(st2):
                    if isinstance(x, ast.Call) and isinstance(
                            x.func, (ast.Name, ast.Attribute)):
                        r_ = ctx.cg.resolve_name_expr(f, x.func)
                        if r_ and r_[0] == 'func':
                            h = r_[1]
                            hp = h.params[1:] if (h.cls is not None and not any(
                                isinstance(d, ast.Name) and
                                d.id == 'staticmethod'
                                for d in h.decorators())) else h.params
                            for j_, a in enumerate(x.args):
                                if isinstance(a, ast.Name) and j_ < len(hp) \
                                        and any(isinstance(c, ast.Call) and
                                                isinstance(c.func,
                                                           ast.Attribute) and
                                                c.func.attr == 'pop' and
                                                isinstance(c.func.value,
                                                           ast.Name) and
                                                c.func.value.id == hp[j_]
                                                for c in ast.walk(h.node)):
                                    close = close or (i, a.id)
    if close is None:
        raise AnalysisError('Parser.ast: the closing parenthesis pushed at the '
                            'end of the input was not found')
    i, stack = close
    rest = f.node.body[i + 1:]
    rr.instances += 1
    loops = [st for st in rest if isinstance(st, (ast.While, ast.For)) and any(
        isinstance(x, ast.Name) and x.id == stack for x in ast.walk(
            st.test if isinstance(st, ast.While) else st.iter))]
    tests = [st for st in rest if isinstance(st, ast.If) and any(
        isinstance(x, ast.Name) and x.id == stack for x in ast.walk(st.test))]
    if loops:
        lp = loops[0]
        raises = any(isinstance(x, ast.Raise) for x in ast.walk(lp))
        if raises:
            rr.ok('Parser.ast walks the whole stack after the last token and '
                  'raises on a left-over parenthesis', '%s:%d' % (
                      f.module.rel, lp.lineno))
        else:
            rr.fail(key_of(f, 'left-over parenthesis accepted'),
                    'the loop that empties the operator stack at the end of '
                    'the input no longer raises for a left-over opening '
                    'parenthesis', file=f.module.rel, function=f.qualname,
                    line=lp.lineno)
    elif any(isinstance(x, ast.Call) and any(
            isinstance(a, ast.Name) and a.id == stack
            for a in list(x.args) + [k.value for k in x.keywords])
            for st in rest for x in ast.walk(st)):
        # the stack is handed to a helper: the loop may live there
        drained = False
        for st in rest:
            for x in ast.walk(st):
                if not (isinstance(x, ast.Call) and isinstance(
                        x.func, (ast.Name, ast.Attribute))):
                    continue
                pos = [i_ for i_, a in enumerate(x.args) if isinstance(
                    a, ast.Name) and a.id == stack]
                r_ = ctx.cg.resolve_name_expr(f, x.func)
                if not pos or not r_ or r_[0] != 'func':
                    continue
                h = r_[1]
                if pos[0] >= len(h.params):
                    continue
                prm = h.params[pos[0]]
                for lp in own_nodes(h):
                    if isinstance(lp, (ast.While, ast.For)) and any(
                            isinstance(c, ast.Call) and isinstance(
                                c.func, ast.Attribute) and
                            c.func.attr == 'pop' and isinstance(
                                c.func.value, ast.Name) and
                            c.func.value.id == prm for c in ast.walk(lp)):
                        drained = True
        raises = any(isinstance(x, ast.Raise) for st in tests
                     for x in ast.walk(st))
        if drained and raises:
            rr.ok('Parser.ast has a helper walk the stack after the last token '
                  'and raises if anything is left', '%s:%d' % (
                      f.module.rel, tests[0].lineno))
        else:
            raise AnalysisError('Parser.ast: the operator stack is handed to a '
                                'helper after the last token; what it does '
                                'with it was not recognised')
    elif tests:
        rr.fail(key_of(f, 'only the top of the stack examined'),
                'after the last token Parser.ast tests `%s` once instead of '
                'walking the stack: an unclosed parenthesis under a pending '
                'operator (`=-(1`) is not seen, the formula is accepted and '
                'the operator silently dropped' % norm_src(tests[0].test),
                file=f.module.rel, function=f.qualname, line=tests[0].lineno)
    else:
        raise AnalysisError('Parser.ast: what happens to the operator stack '
                            'after the last token was not recognised')
    return rr


def run(ctx):
    S = ctx.soft
    return [S(rule_esc, ctx), S(rule_reject, ctx), S(rule_arity, ctx),
            S(rule_adjacent, ctx), S(rule_num, ctx), S(rule_drain, ctx)]
