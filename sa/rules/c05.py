"""C05 - array lifting and fitting: evaluation funnel and reshape helpers (structural clauses)."""
import ast

from ..model import AnalysisError, own_nodes, norm_src
from ..peval import TokenV, Const, is_const
from ..report import RuleResult
from ..util import key_of, src, call_name, kwarg
from ..pattern import find, has, match
from ..registry import FUNCS_REL

META = {
    'decides': (
        'C05, structural clauses only: (funnel) in the element wrapper every '
        'path that produces the result evaluates elements through safe_eval '
        'and views it as the output array type, and every evaluation path '
        'delegates broadcasting to numpy (np.vectorize / np.broadcast) rather '
        'than a hand-written pairing; a failed numpy broadcast is reported as '
        'BroadcastError; the core passed to the wrapper is referenced only '
        'inside safe_eval (the wrapper never evaluates it, or hands it to a '
        'helper, without the per-element checks) and every assignment to the '
        'result is built on safe_eval; (memo) no memoisation - lru_cache or a '
        'hand-written dict keyed by the raw element values - sits on a path '
        'whose result depends on whether an element is a logical or a number; '
        '(nomut) no code that runs during a calculation writes in place into '
        'an array it did not create - a blank replaced in place in a shared '
        'input array would change what the next consumer of that array sees; '
        '(fill) the two Excel-style reshapers both start from '
        '_init_reshape, whose fill is the array\'s own default, Array\'s '
        'default is #N/A (FalseArray/TrueArray carry the IS... defaults), both '
        'copy the value into [:r, :c] where get_shape maps a size-1 axis to '
        '"repeat", and the cell output filter fits values through '
        'Ranges.set_value.'),
    'not_decided': 'Element-wise values and shapes for all shape pairs.',
    'trusted_base': ['CPython ast', 'numpy: np.vectorize broadcasts its '
                     'arguments; a slice bound None spans the whole axis'],
    'assumptions': [],
}

RANGES = 'formulas/ranges.py'


def _calls_fn(ctx, g, call, target):
    """Does this call resolve (through the call graph's name resolution:
    aliases, Class.helper, self.helper) to the given package function?"""
    try:
        eds = ctx.cg._resolve_callee(g, call.func, call, 'call')
    except Exception:
        return False
    return any((not e.is_ext) and e.dst is target for e in eds)


def _helper_paths(ctx, w, first, carriers, depth=0):
    """If the statement `res = H(..., safe_eval, ...)` hands a carrier of the
    element evaluator to a private module-level helper H, the blocks of H
    that produce its result: [(stmts, cond, first, H, carriers in H)]."""
    v = first.value
    if not (isinstance(v, ast.Call) and isinstance(
            v.func, (ast.Name, ast.Attribute)) and depth < 2):
        return None
    r_ = ctx.cg.resolve_name_expr(w, v.func)
    if not (r_ and r_[0] == 'func' and r_[1].module is w.module and
            r_[1].parent is None and r_[1].cls is None and
            r_[1].name.startswith('_')):
        return None
    h = r_[1]
    car = {h.params[i] for i, a in enumerate(v.args)
           if isinstance(a, ast.Name) and a.id in carriers and
           i < len(h.params)}
    car |= {k.arg for k in v.keywords if isinstance(k.value, ast.Name)
            and k.value.id in carriers and k.arg in h.params}
    if not car:
        return None
    rets = [n for n in own_nodes(h) if isinstance(n, ast.Return)
            and n.value is not None]
    if len(rets) != 1:
        return None
    assigned = {t.id for n in own_nodes(h) if isinstance(n, ast.Assign)
                for t in n.targets if isinstance(t, ast.Name)}
    names = [x.id for x in ast.walk(rets[0].value)
             if isinstance(x, ast.Name) and x.id in assigned]
    if len(set(names)) != 1:
        return None
    resvar = names[0]

    def assigns_res(stmts):
        return any(isinstance(x, ast.Assign) and any(
            isinstance(t, ast.Name) and t.id == resvar for t in x.targets)
            for s in stmts for x in ast.walk(s))

    leaves = []

    def collect(stmts, conds):
        split = False
        for st in stmts:
            if isinstance(st, ast.If) and (assigns_res(st.body) or
                                           assigns_res(st.orelse)):
                split = True
                collect(st.body, conds + [norm_src(st.test)])
                collect(st.orelse, conds + ['not (%s)' % norm_src(st.test)])
            elif isinstance(st, (ast.With, ast.Try)) and assigns_res(st.body):
                split = True
                collect(st.body, conds)
        if not split and assigns_res(stmts):
            leaves.append((stmts, ' and '.join(conds)))

    collect(h.node.body, [])
    out = []
    for stmts, cond in leaves:
        f0 = [x for s in stmts for x in ast.walk(s) if isinstance(
            x, ast.Assign) and any(isinstance(t, ast.Name) and t.id == resvar
                                   for t in x.targets)][0]
        out.append((stmts, cond, f0, h, car))
    return out or None


def rule_funnel(ctx):
    rr = RuleResult('C05', 'C05.funnel', 'MPT/SIB',
                    'evaluation paths of the element wrapper', floor=2)
    p = ctx.project
    wu = p.func(FUNCS_REL, 'wrap_ufunc')
    w = wu.nested.get('wrapper')
    if w is None:
        raise AnalysisError('wrap_ufunc.wrapper not found')
    # the result variable: first argument of the returned call / returned name
    resvar = None
    for n in own_nodes(w):
        if isinstance(n, ast.Return) and n.value is not None:
            v = n.value
            if isinstance(v, ast.Call) and v.args and isinstance(
                    v.args[0], ast.Name):
                resvar = v.args[0].id
            elif isinstance(v, ast.Call) and v.args and isinstance(
                    v.args[0], ast.Call) and v.args[0].args and isinstance(
                    v.args[0].args[0], ast.Name):
                # `return_func(_view(res, otype), *args)`: the result passes
                # through a conversion helper on its way out
                resvar = v.args[0].args[0].id
            elif isinstance(v, ast.Name):
                resvar = v.id
    if resvar is None:
        raise AnalysisError('wrap_ufunc.wrapper: result variable not recognised')
    # names that carry the element evaluator (safe_eval or something built on it)
    carriers = {'safe_eval'}
    changed = True
    while changed:
        changed = False
        for n in own_nodes(w):
            if isinstance(n, ast.Assign) and any(
                    isinstance(c, ast.Name) and c.id in carriers
                    for c in ast.walk(n.value)):
                for t in n.targets:
                    for x in ast.walk(t):
                        if isinstance(x, ast.Name) and x.id not in carriers \
                                and x.id != resvar:
                            carriers.add(x.id)
                            changed = True
    # a list filled element by element through safe_eval carries it too
    changed = True
    while changed:
        changed = False
        for n in own_nodes(w):
            if isinstance(n, ast.Call) and isinstance(
                    n.func, ast.Attribute) and n.func.attr in (
                    'append', 'extend') and isinstance(
                    n.func.value, ast.Name) and n.func.value.id not in carriers \
                    and n.func.value.id != resvar and any(
                    isinstance(c, ast.Name) and c.id in carriers
                    for a in n.args for c in ast.walk(a)):
                carriers.add(n.func.value.id)
                changed = True
    BCAST = (('ext', 'numpy.vectorize'), ('ext', 'numpy.broadcast'),
             ('ext', 'numpy.broadcast_arrays'), ('ext', 'numpy.nditer'),
             ('ext', 'numpy.frompyfunc'), ('ext', 'numpy.broadcast_to'))

    def assigns_res(stmts):
        return any(isinstance(x, ast.Assign) and any(
            isinstance(t, ast.Name) and t.id == resvar for t in x.targets)
            for s in stmts for x in ast.walk(s))

    leaves = []

    def collect(stmts, conds):
        """Leaf blocks: statement lists that produce `res` without a nested
        branch that does."""
        split = False
        for st in stmts:
            if isinstance(st, ast.If) and (assigns_res(st.body) or
                                           assigns_res(st.orelse)):
                split = True
                collect(st.body, conds + [norm_src(st.test)])
                collect(st.orelse, conds + ['not (%s)' % norm_src(st.test)])
            elif isinstance(st, (ast.With, ast.Try)) and assigns_res(st.body):
                split = True
                collect(st.body, conds)
        if not split and assigns_res(stmts):
            leaves.append((stmts, ' and '.join(conds)))

    collect(w.node.body, [])
    # keep the blocks that compute the result (not the re-view of `res`)
    prod = []
    for stmts, cond in leaves:
        first = [x for s in stmts for x in ast.walk(s) if isinstance(
            x, ast.Assign) and any(isinstance(t, ast.Name) and t.id == resvar
                                   for t in x.targets)][0]
        if any(isinstance(c, ast.Name) and c.id == resvar
               for c in ast.walk(first.value)):
            continue
        prod.append((stmts, cond, first))
    if not prod:
        rr.instances += 1
        rr.fail(key_of(wu, 'no evaluation through safe_eval'),
                'wrap_ufunc.wrapper: no path that computes the result was found',
                file=FUNCS_REL, function=w.qualname, line=w.lineno)
        return rr
    # a path that hands the evaluator to a private helper of the module
    # (`res = _helper(safe_eval, ...)`) continues in that helper: its own
    # result-producing blocks are the evaluation paths
    expanded = []
    for stmts, cond, first in prod:
        sub = _helper_paths(ctx, w, first, carriers)
        if sub is None:
            expanded.append((stmts, cond, first, w, carriers))
        else:
            for st2, c2, f2, h, car2 in sub:
                expanded.append((st2, ' and '.join(x for x in (cond, c2) if x),
                                 f2, h, car2))
    for stmts, cond, first, w_, carriers_ in expanded:
        rr.instances += 1
        uses = any(isinstance(c, ast.Name) and c.id in carriers_
                   for s in stmts for c in ast.walk(s))
        numpy_bcast = any(
            isinstance(c, ast.Call) and ctx.cg.resolve_name_expr(
                w_, c.func) in BCAST for s in stmts for c in ast.walk(s))
        if not numpy_bcast:
            # the carrier may have been lifted outside this block
            for nm in carriers_ - {'safe_eval'}:
                if any(isinstance(c, ast.Name) and c.id == nm
                       for s in stmts for c in ast.walk(s)):
                    for n in own_nodes(w_):
                        if isinstance(n, ast.Assign) and any(
                                isinstance(t, ast.Name) and t.id == nm
                                for t in n.targets) and any(
                                isinstance(c, ast.Call) and
                                ctx.cg.resolve_name_expr(w_, c.func) in BCAST
                                for c in ast.walk(n.value)):
                            numpy_bcast = True
        where = '%s:%d' % (FUNCS_REL, first.lineno)
        if not uses:
            rr.fail(key_of(wu, 'result path bypasses safe_eval'),
                    'wrap_ufunc.wrapper computes the result on the path `%s` '
                    'without evaluating elements through safe_eval (no error '
                    'check, no exception mapping, no NaN funnel)' % (
                        cond or 'default'), file=FUNCS_REL,
                    function=w.qualname, line=first.lineno)
        elif numpy_bcast:
            rr.ok('path [%s]: safe_eval lifted by numpy broadcasting' % (
                cond or 'default'), where)
        else:
            helpers = set()
            for s in stmts:
                for c in ast.walk(s):
                    if isinstance(c, ast.Call) and isinstance(
                            c.func, (ast.Name, ast.Attribute)):
                        r_ = ctx.cg.resolve_name_expr(w_, c.func)
                        if r_ and r_[0] == 'func' and r_[1].module is w.module \
                                and r_[1].parent is None:
                            helpers.add(r_[1].name)
            # the finding is identified by the pairing helpers of the pinned
            # tree it goes through; private helpers that are new relative to
            # the record (spec/anchors.json) are packaging, not identity
            from ..inline import _established
            est = _established() or set()
            helpers = sorted(h for h in helpers if not (
                h.startswith('_') and (FUNCS_REL, h) not in est))
            # identified by the pairing helper it uses, not by how the
            # condition leading to it is spelled
            # one finding per pairing helper: whether the two hand-rolled
            # cases sit in two blocks or share one does not change what is
            # reported
            for h_ in helpers or ['inline pairing']:
                rr.fail('%s::wrap_ufunc::hand-rolled evaluation path through '
                        '%s' % (FUNCS_REL, h_),
                        'wrap_ufunc.wrapper has an evaluation path (when `%s`) '
                        'that does not delegate broadcasting to numpy but pairs '
                        'elements by hand (%s): a row vector or an error value '
                        'among the arguments is handled differently from the '
                        'normal path' % (cond, h_ if helpers else norm_src(
                            first.value)[:60]),
                        file=FUNCS_REL, function=w.qualname, line=first.lineno)
    # the core is evaluated only inside safe_eval: the wrapper itself never
    # calls it or hands it to a helper
    rr.instances += 1
    core = wu.params[0] if wu.params else None
    se = wu.nested.get('safe_eval')
    if core is None or se is None:
        raise AnalysisError('wrap_ufunc: core parameter / safe_eval not found')
    outside = [n for n in own_nodes(w) if isinstance(n, ast.Name) and
               n.id == core and isinstance(n.ctx, ast.Load)]
    inside = [n for n in own_nodes(se) if isinstance(n, ast.Name) and
              n.id == core]
    if outside:
        rr.fail(key_of(wu, 'core used outside safe_eval'),
                'wrap_ufunc.wrapper refers to the core `%s` itself (line %d): '
                'it is evaluated, or handed to a helper that evaluates it, '
                'without the per-element error check, exception mapping and '
                'non-finite funnel of safe_eval - an array element can differ '
                'from the scalar result' % (core, outside[0].lineno),
                file=FUNCS_REL, function=w.qualname, line=outside[0].lineno)
    elif not inside:
        rr.fail(key_of(wu, 'safe_eval does not evaluate the core'),
                'safe_eval no longer calls the core `%s`' % core,
                file=FUNCS_REL, function=se.qualname, line=se.lineno)
    else:
        rr.ok('the core `%s` is referenced only inside safe_eval' % core,
              '%s:%d' % (FUNCS_REL, se.lineno))
    # every definition of the result is built on safe_eval (or re-views it)
    rr.instances += 1
    bad_def = None
    for n in own_nodes(w):
        if not (isinstance(n, ast.Assign) and any(
                isinstance(t, ast.Name) and t.id == resvar for t in n.targets)):
            continue
        arms = [n.value]
        while any(isinstance(a, ast.IfExp) for a in arms):
            arms = [b for a in arms for b in (
                (a.body, a.orelse) if isinstance(a, ast.IfExp) else (a,))]
        for a in arms:
            names = {x.id for x in ast.walk(a) if isinstance(x, ast.Name)}
            if isinstance(a, ast.Constant) and a.value is None:
                continue
            if names & carriers or resvar in names:
                continue
            # an empty array that is then filled element by element through
            # safe_eval (`res = np.empty(...); res[i] = safe_eval(...)`)
            alloc = isinstance(a, ast.Call) and isinstance(
                a.func, (ast.Name, ast.Attribute)) and \
                ctx.cg.resolve_name_expr(w, a.func) in (
                    ('ext', 'numpy.empty'), ('ext', 'numpy.full'),
                    ('ext', 'numpy.zeros'), ('ext', 'numpy.empty_like'),
                    ('ext', 'numpy.full_like'))
            stores = [s_ for s_ in own_nodes(w) if isinstance(s_, ast.Assign)
                      and any(isinstance(t, ast.Subscript) and isinstance(
                          t.value, ast.Name) and t.value.id == resvar
                          for t in s_.targets)]
            if alloc and stores and all(
                    {x.id for x in ast.walk(s_.value)
                     if isinstance(x, ast.Name)} & (carriers | {resvar})
                    for s_ in stores):
                continue
            # an empty list that is then filled through safe_eval
            # (`res = []; res.append(safe_eval(...))`)
            empty_list = (isinstance(a, ast.List) and not a.elts) or (
                isinstance(a, ast.Call) and isinstance(a.func, ast.Name) and
                a.func.id == 'list' and not a.args)
            fills_ = [c for c in own_nodes(w) if isinstance(c, ast.Call) and
                      isinstance(c.func, ast.Attribute) and c.func.attr in (
                          'append', 'extend') and isinstance(
                          c.func.value, ast.Name) and c.func.value.id == resvar]
            if empty_list and fills_ and all(
                    {x.id for a_ in c.args for x in ast.walk(a_)
                     if isinstance(x, ast.Name)} & carriers for c in fills_):
                continue
            bad_def = bad_def or (n, a)
    if bad_def:
        n, a = bad_def
        rr.fail(key_of(wu, 'result defined without safe_eval'),
                'wrap_ufunc.wrapper assigns `%s = %s`: a result that is not '
                'built from safe_eval (directly or through numpy lifting) nor '
                'a re-view of the previous result' % (resvar, norm_src(a)[:70]),
                file=FUNCS_REL, function=w.qualname, line=n.lineno)
    else:
        rr.ok('every assignment to `%s` is built on safe_eval or re-views the '
              'result' % resvar, FUNCS_REL)
    # every res is viewed as otype
    rr.instances += 1
    views = [n for n in own_nodes(w) if isinstance(n, ast.Call) and
             call_name(n) == 'view' and n.args and norm_src(n.args[0]) == 'otype']
    rets = [n for n in own_nodes(w) if isinstance(n, ast.Return)]
    if views and rets and all(resvar in norm_src(r.value) for r in rets):
        rr.ok('the result is viewed as `otype` before being returned', FUNCS_REL)
    else:
        rr.fail(key_of(wu, 'result not viewed as otype'),
                'wrap_ufunc.wrapper returns a result that is not viewed as the '
                'output array type', file=FUNCS_REL, function=w.qualname,
                line=w.lineno)
    # broadcast failure -> BroadcastError
    rr.instances += 1
    ok = False
    for n in own_nodes(w):
        if isinstance(n, ast.ExceptHandler) and n.type is not None and \
                'ValueError' in norm_src(n.type):
            # the handler itself, or a private helper it calls
            scopes_ = [(w, n.body)]
            for s in n.body:
                for c in ast.walk(s):
                    if isinstance(c, ast.Call) and isinstance(
                            c.func, (ast.Name, ast.Attribute)):
                        r_ = ctx.cg.resolve_name_expr(w, c.func)
                        if r_ and r_[0] == 'func' and r_[1].module is \
                                w.module and r_[1].name.startswith('_'):
                            scopes_.append((r_[1], r_[1].node.body))
            for g_, body_ in scopes_:
                t = ' '.join(norm_src(s) for s in body_)
                probes = any(
                    isinstance(c, ast.Call) and isinstance(
                        c.func, (ast.Name, ast.Attribute)) and
                    ctx.cg.resolve_name_expr(g_, c.func) == (
                        'ext', 'numpy.broadcast')
                    for s in body_ for c in ast.walk(s))
                if probes and 'BroadcastError' in t:
                    ok = True
    if ok:
        rr.ok('a numpy broadcasting failure is re-raised as BroadcastError',
              FUNCS_REL)
    else:
        rr.fail(key_of(wu, 'broadcast failure not classified'),
                'wrap_ufunc.wrapper no longer distinguishes a broadcasting '
                'failure (BroadcastError) from other ValueErrors',
                file=FUNCS_REL, function=w.qualname, line=w.lineno)
    return rr


def _enclosing_tests(f, node):
    out = []

    def rec(stmts, conds):
        for st in stmts:
            if st is node:
                out.append(list(conds))
            if isinstance(st, ast.If):
                rec(st.body, conds + [norm_src(st.test)])
                rec(st.orelse, conds + ['not (%s)' % norm_src(st.test)])
            else:
                for fld in ('body', 'orelse', 'finalbody'):
                    sub = getattr(st, fld, None)
                    if isinstance(sub, list) and sub and isinstance(
                            sub[0], ast.stmt):
                        rec(sub, conds)
                for h in getattr(st, 'handlers', []) or []:
                    rec(h.body, conds)

    rec(f.node.body, [])
    return ' and '.join(out[0]) if out else ''


def rule_fill(ctx):
    rr = RuleResult('C05', 'C05.fill', 'TAB/SIB',
                    'Excel-style reshape: fill value and copy window', floor=6)
    p = ctx.project
    ir = p.func(FUNCS_REL, '_init_reshape')
    rr.instances += 1
    vprm = ir.params[1] if len(ir.params) > 1 else 'value'
    if has("___r[:, :] = getattr(%s, '_default', Error.errors['#N/A'])" % vprm,
           ir, stmt=True):
        rr.ok("_init_reshape fills with the value's own _default (fallback "
              '#N/A)', FUNCS_REL)
    else:
        rr.fail(key_of(ir, 'fill value'),
                '_init_reshape no longer fills the destination with the '
                "array's `_default` (fallback #N/A): cells the result does not "
                'reach get another value', file=FUNCS_REL,
                function='_init_reshape', line=ir.lineno)
    rr.instances += 1
    if has('get_shape(*%s.shape)' % vprm, ir):
        rr.ok('_init_reshape derives the copy window from get_shape(*value.'
              'shape)', FUNCS_REL)
    else:
        rr.fail(key_of(ir, 'copy window'),
                '_init_reshape no longer derives the copy window from '
                'get_shape(*value.shape)', file=FUNCS_REL,
                function='_init_reshape', line=ir.lineno)
    gs = p.func(FUNCS_REL, 'get_shape')
    rr.instances += 1
    def maps_one_to_none(prm):
        for n in own_nodes(gs):
            # p = None if p == 1 else p
            if isinstance(n, ast.Assign) and len(n.targets) == 1 and isinstance(
                    n.targets[0], ast.Name) and n.targets[0].id == prm and \
                    isinstance(n.value, ast.IfExp):
                v = n.value
                if norm_src(v.test) in ('%s == 1' % prm, '1 == %s' % prm) and \
                        norm_src(v.body) == 'None' and norm_src(v.orelse) == prm:
                    return True
            # if p == 1: p = None
            if isinstance(n, ast.If) and not n.orelse and norm_src(n.test) in (
                    '%s == 1' % prm, '1 == %s' % prm) and len(n.body) == 1 \
                    and norm_src(n.body[0]) == '%s = None' % prm:
                return True
        return False

    rets = [n.value for n in own_nodes(gs) if isinstance(n, ast.Return)]
    in_order = len(rets) == 1 and isinstance(rets[0], ast.Tuple) and [
        norm_src(e) for e in rets[0].elts] == gs.params[:2]
    if len(gs.params) >= 2 and in_order and all(
            maps_one_to_none(q) for q in gs.params[:2]):
        rr.ok('get_shape maps a size-1 axis to None (= repeat along that axis)',
              FUNCS_REL)
    else:
        rr.fail(key_of(gs, 'size-1 axis'),
                'get_shape no longer maps a size-1 axis to None: a single row '
                'or column is not repeated over the destination',
                file=FUNCS_REL, function='get_shape', line=gs.lineno)
    # defaults
    arr = p.cls(FUNCS_REL, 'Array')
    rr.instances += 1
    d = ctx.ev.class_attr(arr, '_default')
    if isinstance(d, TokenV) and d.text == '#N/A':
        rr.ok('Array._default is #N/A', FUNCS_REL)
    else:
        rr.fail('%s::Array::_default' % FUNCS_REL,
                'Array._default is %r; unreached cells of an array result '
                'must show #N/A' % (d,), file=FUNCS_REL, function='Array',
                line=arr.node.lineno)
    for name, want in (('FalseArray', False), ('TrueArray', True)):
        c = p.find_class_anywhere(name)
        if not c:
            continue
        rr.instances += 1
        v = ctx.ev.class_attr(c[0], '_default')
        if is_const(v) and v.v is want:
            rr.ok('%s._default is %r' % (name, want), c[0].module.rel)
        else:
            rr.fail('%s::%s::_default' % (c[0].module.rel, name),
                    '%s._default is %r, expected %r' % (name, v, want),
                    file=c[0].module.rel, function=name, line=c[0].node.lineno)
    # siblings
    ra_ = p.func(RANGES, '_reshape_array_as_excel')
    ar_ = p.func(FUNCS_REL, 'Array.reshape')
    # the value being fitted is the first parameter of each, whatever its name
    sib = [(ar_, ar_.params[0] if ar_.params else 'self'),
           (ra_, ra_.params[0] if ra_.params else 'value')]
    for f, val in sib:
        rr.instances += 1
        # `res, r, c = <call resolved to _init_reshape>(...)`, however the
        # helper is addressed (bare name, Class.helper, alias), in the
        # function or in a private helper it delegates the fallback to
        from ..util import with_helpers
        inits = []
        for g in with_helpers(ctx, f):
            gval = val if g is f else (g.params[0] if (
                g.cls is not None and val == f.params[0] and g.params)
                else val)
            for n in own_nodes(g):
                if isinstance(n, ast.Assign) and len(
                        n.targets) == 1 and isinstance(
                        n.targets[0], ast.Tuple) and len(
                        n.targets[0].elts) == 3 and all(isinstance(
                        e, ast.Name) for e in n.targets[0].elts) and \
                        isinstance(n.value, ast.Call) and _calls_fn(
                        ctx, g, n.value, ir):
                    d_ = dict(zip(('res', 'r', 'c'), (
                        e.id for e in n.targets[0].elts)))
                    d_['g'], d_['val'] = g, gval
                    inits.append(d_)
        init = bool(inits)
        copy = init and has('%s[:%s, :%s] = %s' % (
            inits[0]['res'], inits[0]['r'], inits[0]['c'], inits[0]['val']),
            inits[0]['g'], stmt=True)
        if init and copy:
            rr.ok('%s starts from _init_reshape and copies the value into '
                  '[:r, :c]' % f.qualname, f.module.rel)
        else:
            rr.fail(key_of(f, 'reshape deviates from its sibling'),
                    '%s: %s%s - the two Excel-style reshapers no longer agree' % (
                        f.qualname, '' if init else 'does not start from '
                        '_init_reshape; ', '' if copy else
                        'does not copy the value into res[:r, :c]'),
                    file=f.module.rel, function=f.qualname, line=f.lineno)
    # the cell output filter fits through set_value -> _reshape_array_as_excel
    # (calls resolved through the call graph, private helpers followed)
    from ..util import nodes_with_helpers, bound_arg, assigned_value
    sv = p.func(RANGES, 'Ranges.set_value')
    ra = p.func(RANGES, '_reshape_array_as_excel')
    shape_f = p.func(RANGES, '_shape')
    rr.instances += 1

    def _calls(g, call, target):
        try:
            eds = ctx.cg._resolve_callee(g, call.func, call, 'call')
        except Exception:
            return False
        return any((not e.is_ext) and e.dst is target for e in eds)

    def _is_shape(g, e, depth=0):
        if isinstance(e, ast.Call) and _calls(g, e, shape_f):
            return True
        if isinstance(e, ast.Name) and depth < 2:
            vals = assigned_value(g, e.id)
            return bool(vals) and all(_is_shape(g, v, depth + 1) for v in vals)
        return False

    fits, unfit = [], []
    for g, n in nodes_with_helpers(ctx, sv):
        if isinstance(n, ast.Call) and _calls(g, n, ra):
            a2 = bound_arg(ctx, g, n, 1, 'base_shape')
            (fits if a2 is not None and _is_shape(g, a2) else unfit).append(
                (g, n))
    if fits and not unfit:
        rr.ok('Ranges.set_value fits the value to the shape of its range',
              RANGES)
    elif unfit:
        g, n = unfit[0]
        rr.fail(key_of(sv, 'value not fitted to the range'),
                'Ranges.set_value reshapes the value with `%s`, not to '
                '_shape(**rng)' % norm_src(n)[:80], file=RANGES,
                function=g.qualname, line=n.lineno)
    elif ra.fq not in ctx.cg.reachable([sv]):
        rr.fail(key_of(sv, 'value not fitted to the range'),
                'Ranges.set_value no longer reshapes the value to '
                '_shape(**rng) with _reshape_array_as_excel (the reshaper is '
                'not reachable from it)', file=RANGES,
                function=sv.qualname, line=sv.lineno)
    else:
        raise AnalysisError('C05.fill: Ranges.set_value reaches the reshaper '
                            'only through calls the rule does not follow')
    fo = p.func('formulas/cell.py', 'format_output')
    rr.instances += 1
    if any(isinstance(n, ast.Call) and call_name(n) == 'set_value'
           for n in own_nodes(fo)):
        rr.ok('the cell output filter stores through Ranges.set_value',
              'formulas/cell.py')
    else:
        rr.fail(key_of(fo, 'bypasses set_value'),
                'format_output no longer stores the result through '
                'Ranges.set_value', file='formulas/cell.py',
                function='format_output', line=fo.lineno)
    return rr


def run(ctx):
    S = ctx.soft
    from .common import rule_memo
    regs = [r for r in ctx.registry.all() if r.has('wrap_ufunc')]
    from .c07 import rule_nomut
    return [S(rule_funnel, ctx), S(rule_fill, ctx),
            S(rule_memo, ctx, 'C05', 'C05.memo', regs),
            S(rule_nomut, ctx, 'C05', 'C05.nomut')]
