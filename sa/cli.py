"""Command line: ./check <PROPERTY> [--tier quick|thorough] [--repo PATH] [--replay FILE]"""
import argparse
import importlib
import json
import os
import sys
import time
import traceback

from .model import Project, AnalysisError
from . import report

VERIF = report.VERIF
SPEC_DIR = os.path.join(VERIF, 'spec')


class Ctx:
    def __init__(self, repo, tier, seed):
        self.repo, self.tier, self.seed = repo, tier, seed
        self.project = Project(repo)
        self._ev = self._reg = self._cg = self._eff = None
        self._spec = {}

    @property
    def ev(self):
        if self._ev is None:
            from .peval import Evaluator
            self._ev = Evaluator(self.project)
        return self._ev

    @property
    def registry(self):
        if self._reg is None:
            from .registry import Registry
            self._reg = Registry(self.project, self.ev)
        return self._reg

    @property
    def cg(self):
        if self._cg is None:
            from .callgraph import CallGraph
            self._cg = CallGraph(self.project, self.ev)
        return self._cg

    @property
    def effects(self):
        if self._eff is None:
            from .effects import Effects
            self._eff = Effects(self)
        return self._eff

    def soft(self, rule_fn, *args, **kw):
        """Run one rule; when it cannot follow the code (AnalysisError) hand
        back an *undecided* result instead of aborting the property: what the
        other rules establish - a violation in particular - still stands, and
        the report exits 2 only if nothing was violated."""
        from .report import RuleResult
        try:
            return rule_fn(*args, **kw)
        except AnalysisError as ex:
            rr = RuleResult('?', getattr(rule_fn, '__name__', 'rule'),
                            'UNDECIDED', 'rule could not decide')
            rr.undecided = str(ex)
            return rr

    def spec(self, name):
        if name not in self._spec:
            path = os.path.join(SPEC_DIR, name + '.json')
            try:
                with open(path) as f:
                    self._spec[name] = json.load(f)
            except Exception as ex:
                raise AnalysisError('spec table %s unreadable: %s' % (name, ex))
        return self._spec[name]


def run_property(prop, repo, tier, seed, selftest=None, quiet=False):
    t0 = time.time()
    mod = importlib.import_module('sa.rules.%s' % prop.lower())
    ctx = Ctx(repo, tier, seed)
    results = mod.run(ctx)
    meta = mod.META
    extra = {}
    if ctx._cg is not None:
        extra['call_sites'] = ctx._cg.n_call_sites
        extra['call_sites_resolved'] = ctx._cg.n_resolved
    if ctx._reg is not None:
        extra['registrations'] = len(ctx._reg.all())
    if ctx.project.renamed_back:
        extra['anchors_renamed_back'] = [
            '%s: %s -> %s' % r for r in ctx.project.renamed_back]
        for r in ctx.project.renamed_back:
            print('NOTE private definition %s:%s has the shape recorded for '
                  '`%s` (spec/anchors.json): analysed under that name' % r)
    return report.emit(
        prop, tier, seed, results, ctx.project, t0,
        explanation=meta['decides'], not_decided=meta['not_decided'],
        trusted_base=meta.get('trusted_base', []),
        assumptions=meta.get('assumptions', []),
        extra_cov=extra, selftest=selftest)


def replay(path):
    with open(path) as f:
        d = json.load(f)
    print(json.dumps(d, indent=1))
    fn, line = d.get('file'), d.get('line')
    repo = os.environ.get('VERIF_REPO', '/repo')
    if fn and line:
        try:
            with open(os.path.join(repo, fn)) as f:
                lines = f.read().splitlines()
            lo, hi = max(0, line - 4), min(len(lines), line + 3)
            for i in range(lo, hi):
                print('%s %5d | %s' % ('>>' if i + 1 == line else '  ', i + 1,
                                       lines[i]))
        except OSError:
            pass
    return 0


def main(argv=None):
    ap = argparse.ArgumentParser()
    ap.add_argument('prop')
    ap.add_argument('--tier', default=os.environ.get('VERIF_TIER', 'quick'),
                    choices=['quick', 'thorough'])
    ap.add_argument('--repo', default=os.environ.get('VERIF_REPO', '/repo'))
    ap.add_argument('--replay')
    ap.add_argument('--no-selftest', action='store_true')
    a = ap.parse_args(argv)
    if a.replay:
        return replay(a.replay)
    try:
        seed = int(os.environ.get('VERIF_SEED', '0'))
    except ValueError:
        seed = 0
    prop = a.prop.upper()
    try:
        selftest = None
        if a.tier == 'thorough' and not a.no_selftest:
            try:
                from . import selftest as st
                selftest = st.run_for_property(prop, a.repo, seed)
                for w in selftest.get('warnings', []):
                    print('SELFTEST-WARNING %s' % w)
            except ImportError:
                selftest = None
        return run_property(prop, a.repo, a.tier, seed, selftest)
    except AnalysisError as ex:
        print('ANALYSIS-ERROR property=%s: %s' % (prop, ex))
        return 2
    except Exception:
        print('ANALYSIS-ERROR property=%s: internal error' % prop)
        traceback.print_exc()
        return 2


if __name__ == '__main__':
    sys.exit(main())
