"""Command line: ./check <PROPERTY> [--tier quick|thorough] [--repo PATH] [--replay FILE]"""
import argparse
import importlib
import json
import os
import sys
import time
import traceback

from .model import Project, AnalysisError
from . import report

VERIF = report.VERIF
SPEC_DIR = os.path.join(VERIF, 'spec')


class Ctx:
    def __init__(self, repo, tier, seed, inline=False):
        self.repo, self.tier, self.seed = repo, tier, seed
        self.project = Project(repo, inline=inline)
        self.is_alt, self._alt = inline, None
        self._soft_log = []
        self._ev = self._reg = self._cg = self._eff = None
        self._spec = {}

    @property
    def ev(self):
        if self._ev is None:
            from .peval import Evaluator
            self._ev = Evaluator(self.project)
        return self._ev

    @property
    def registry(self):
        if self._reg is None:
            from .registry import Registry
            self._reg = Registry(self.project, self.ev)
        return self._reg

    @property
    def cg(self):
        if self._cg is None:
            from .callgraph import CallGraph
            self._cg = CallGraph(self.project, self.ev)
        return self._cg

    @property
    def effects(self):
        if self._eff is None:
            from .effects import Effects
            self._eff = Effects(self)
        return self._eff

    def soft(self, rule_fn, *args, **kw):
        """Run one rule; when it cannot follow the code (AnalysisError) hand
        back an *undecided* result instead of aborting the property: what the
        other rules establish - a violation in particular - still stands, and
        the report exits 2 only if nothing was violated."""
        from .report import RuleResult, known_for, match_known

        def run(c, a):
            try:
                return c._call(rule_fn, a, kw)
            except AnalysisError as ex:
                rr = RuleResult('?', getattr(rule_fn, '__name__', 'rule'),
                                'UNDECIDED', 'rule could not decide')
                rr.undecided = str(ex)
                return rr
            except (KeyError, IndexError, AttributeError, TypeError,
                    ValueError) as ex:
                # the rule tripped over a shape it does not know: it cannot
                # decide (never a verdict either way)
                import traceback
                tb = traceback.extract_tb(ex.__traceback__)[-1]
                rr = RuleResult('?', getattr(rule_fn, '__name__', 'rule'),
                                'UNDECIDED', 'rule could not decide')
                rr.undecided = 'unrecognised shape (%s: %s at %s:%d)' % (
                    type(ex).__name__, ex, os.path.basename(tb.filename),
                    tb.lineno)
                return rr

        r = run(self, args)
        self._soft_n = getattr(self, '_soft_n', 0) + 1
        if self.is_alt:
            self._soft_log.append(r)
            return r
        if os.environ.get('VERIF_NO_ALT_VIEW') or \
                not isinstance(r, RuleResult):
            return r
        new = []
        if not getattr(r, 'undecided', None):
            ents = known_for(r.prop)
            new = [f for f in r.findings if match_known(f, ents) is None]
            if not new and r.instances < r.floor:
                # fewer instances than the rule expects: undecided as well
                r2 = self._alt_result(self._soft_n - 1)
                if isinstance(r2, RuleResult) and not getattr(
                        r2, 'undecided', None) and (
                        r2.template, r2.text) == (r.template, r.text) and \
                        r2.instances >= r2.floor:
                    r2.notes.append('instances counted on the view with new '
                                    'private helpers expanded (as written: '
                                    '%d < floor %d)' % (r.instances, r.floor))
                    return r2
                return r
            if not new:
                return r
        # The rule could not decide, or reports something new.  Ask the
        # equivalent view of the package in which *new* private helpers are
        # expanded at their call sites: the whole property is run there once,
        # and the result of the same rule (the same position in the run) is
        # compared.  An undecided rule may decide there; a violation that is
        # not there however the code is written was a matter of spelling and
        # is withdrawn as "cannot decide".
        r2 = self._alt_result(self._soft_n - 1)
        if os.environ.get('VERIF_DEBUG_ALT'):
            print('ALT %s: %r' % (getattr(rule_fn, '__name__', '?'), (
                getattr(r2, 'undecided', None),
                [f.key for f in getattr(r2, 'findings', [])][:3])
                if r2 is not None else None))
        if r2 is None or not isinstance(r2, RuleResult):
            return r
        if not getattr(r, 'undecided', None) and not getattr(
                r2, 'undecided', None) and (r2.template, r2.text) != (
                r.template, r.text):
            return r      # not the same rule: the two runs diverged
        und2 = getattr(r2, 'undecided', None)
        if getattr(r, 'undecided', None):
            if und2:
                return r
            r2.notes.append('decided on the view with private helpers '
                            'expanded at their call sites (as written: %s)'
                            % r.undecided[:160])
            return r2
        if und2:
            return r
        ents2 = known_for(r2.prop)
        new2 = [f for f in r2.findings if match_known(f, ents2) is None]
        if new2:
            return r
        why = ('the rule reports `%s` on the code as written but holds on '
               'the equivalent view with new private helpers expanded at '
               'their call sites: the report depends on how the code is '
               'spelled, not on what it does' % new[0].key)
        if os.environ.get('VERIF_ALT_STRICT'):
            rr = RuleResult(r.prop, r.rule, r.template, r.text, r.floor)
            rr.instances = r.instances
            rr.undecided = why
            return rr
        # the two programs are equivalent and the rule holds on one of them
        r2.notes.append('holds on the view with new private helpers expanded '
                        'at their call sites; as written: %s' % why[:300])
        return r2

    def _alt_result(self, index):
        """Result of the index-th rule of this property's run on the view
        with new private helpers expanded; None if that view is identical to
        the code as written, or could not be run."""
        if self._alt is None:
            self._alt = False
            run_fn = getattr(self, '_run', None)
            if run_fn is None:
                return None
            try:
                alt = Ctx(self.repo, self.tier, self.seed, inline=True)
                if not alt.project.n_inlined:
                    return None      # nothing to expand: same program
                alt._soft_log = []
                run_fn(alt)
                self._alt = alt
            except Exception:
                if os.environ.get('VERIF_DEBUG_ALT'):
                    traceback.print_exc()
                return None
        if not self._alt:
            return None
        log = self._alt._soft_log
        return log[index] if index < len(log) else None

    def _call(self, rule_fn, args, kw):
        return rule_fn(*args, **kw)

    def spec(self, name):
        if name not in self._spec:
            path = os.path.join(SPEC_DIR, name + '.json')
            try:
                with open(path) as f:
                    self._spec[name] = json.load(f)
            except Exception as ex:
                raise AnalysisError('spec table %s unreadable: %s' % (name, ex))
        return self._spec[name]


def run_property(prop, repo, tier, seed, selftest=None, quiet=False):
    t0 = time.time()
    mod = importlib.import_module('sa.rules.%s' % prop.lower())
    ctx = Ctx(repo, tier, seed)
    ctx._run = mod.run
    results = mod.run(ctx)
    meta = mod.META
    extra = {}
    if ctx._cg is not None:
        extra['call_sites'] = ctx._cg.n_call_sites
        extra['call_sites_resolved'] = ctx._cg.n_resolved
    if ctx._reg is not None:
        extra['registrations'] = len(ctx._reg.all())
    alt = ctx._alt
    extra['second_view'] = (
        {'built': True, 'call_sites_expanded': alt.project.n_inlined}
        if alt else {'built': False, 'why': 'not needed: no rule reported a '
                     'new violation or was undecided on the code as written, '
                     'or no private definition is new relative to '
                     'spec/anchors.json'})
    if ctx.project.renamed_back:
        extra['anchors_renamed_back'] = [
            '%s: %s -> %s' % r for r in ctx.project.renamed_back]
        for r in ctx.project.renamed_back:
            print('NOTE private definition %s:%s has the shape recorded for '
                  '`%s` (spec/anchors.json): analysed under that name' % r)
    return report.emit(
        prop, tier, seed, results, ctx.project, t0,
        explanation=meta['decides'], not_decided=meta['not_decided'],
        trusted_base=meta.get('trusted_base', []),
        assumptions=meta.get('assumptions', []),
        extra_cov=extra, selftest=selftest)


def replay(path):
    with open(path) as f:
        d = json.load(f)
    print(json.dumps(d, indent=1))
    fn, line = d.get('file'), d.get('line')
    repo = os.environ.get('VERIF_REPO', '/repo')
    if fn and line:
        try:
            with open(os.path.join(repo, fn)) as f:
                lines = f.read().splitlines()
            lo, hi = max(0, line - 4), min(len(lines), line + 3)
            for i in range(lo, hi):
                print('%s %5d | %s' % ('>>' if i + 1 == line else '  ', i + 1,
                                       lines[i]))
        except OSError:
            pass
    return 0


def main(argv=None):
    ap = argparse.ArgumentParser()
    ap.add_argument('prop')
    ap.add_argument('--tier', default=os.environ.get('VERIF_TIER', 'quick'),
                    choices=['quick', 'thorough'])
    ap.add_argument('--repo', default=os.environ.get('VERIF_REPO', '/repo'))
    ap.add_argument('--replay')
    ap.add_argument('--no-selftest', action='store_true')
    a = ap.parse_args(argv)
    if a.replay:
        return replay(a.replay)
    try:
        seed = int(os.environ.get('VERIF_SEED', '0'))
    except ValueError:
        seed = 0
    prop = a.prop.upper()
    try:
        selftest = None
        if a.tier == 'thorough' and not a.no_selftest:
            try:
                from . import selftest as st
                selftest = st.run_for_property(prop, a.repo, seed)
                for w in selftest.get('warnings', []):
                    print('SELFTEST-WARNING %s' % w)
            except ImportError:
                selftest = None
        return run_property(prop, a.repo, a.tier, seed, selftest)
    except AnalysisError as ex:
        print('ANALYSIS-ERROR property=%s: %s' % (prop, ex))
        return 2
    except Exception:
        print('ANALYSIS-ERROR property=%s: internal error' % prop)
        traceback.print_exc()
        return 2


if __name__ == '__main__':
    sys.exit(main())
