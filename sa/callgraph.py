"""E3 - call graph over the package (names exact, attribute calls by receiver class or CHA)."""
import ast

from .model import FuncInfo, ClassInfo, own_nodes, norm_src
from .peval import (Evaluator, FuncV, ClassV, Ext, CallV, DictV, SeqV, BoundV,
                    TokenV, Unknown, ModuleV, Const)


class Edge:
    __slots__ = ('src', 'dst', 'kind', 'precision', 'node', 'nargs')

    def __init__(self, src, dst, kind, precision, node, nargs=None):
        self.src, self.dst, self.kind = src, dst, kind
        self.precision, self.node, self.nargs = precision, node, nargs

    @property
    def is_ext(self):
        return isinstance(self.dst, str)

    def __repr__(self):
        d = self.dst if self.is_ext else self.dst.fq
        return '<%s -%s/%s-> %s @%s>' % (
            self.src.fq, self.kind, self.precision, d,
            getattr(self.node, 'lineno', '?'))


def local_names(fi):
    """Names bound in the function's own scope."""
    names = set(fi.all_params)
    for n in own_nodes(fi):
        if isinstance(n, ast.Name) and isinstance(n.ctx, (ast.Store, ast.Del)):
            names.add(n.id)
        elif isinstance(n, (ast.FunctionDef, ast.AsyncFunctionDef, ast.ClassDef)):
            names.add(n.name)
        elif isinstance(n, (ast.Import, ast.ImportFrom)):
            for a in n.names:
                names.add((a.asname or a.name).split('.')[0])
        elif isinstance(n, ast.ExceptHandler) and n.name:
            names.add(n.name)
        elif isinstance(n, ast.comprehension):
            for t in ast.walk(n.target):
                if isinstance(t, ast.Name):
                    names.add(t.id)
    return names


class CallGraph:
    def __init__(self, project, ev=None):
        self.p = project
        self.ev = ev or Evaluator(project)
        self.edges = {}  # fq -> [Edge]
        self._locals = {}
        self._local_types = {}
        self._narrow = {}
        self.methods_by_name = {}
        self.props_by_name = {}
        for c in project.classes.values():
            for name, f in c.methods.items():
                if _is_property(f):
                    self.props_by_name.setdefault(name, []).append(f)
                else:
                    self.methods_by_name.setdefault(name, []).append(f)
        self.token_getattr = [
            c.methods['__getattr__'] for c in project.classes.values()
            if '__getattr__' in c.methods]
        self.n_call_sites = 0
        self.n_resolved = 0
        self.instantiations = {}  # fq -> set of ClassInfo constructed there
        for f in list(project.functions.values()):
            self.edges[f.fq] = self._edges_of(f)

    # -- scope ---------------------------------------------------------------
    def locals_of(self, fi):
        if fi.fq not in self._locals:
            self._locals[fi.fq] = local_names(fi)
        return self._locals[fi.fq]

    def local_types(self, fi):
        """name -> ClassInfo for locals assigned (only) from constructor calls."""
        if fi.fq in self._local_types:
            return self._local_types[fi.fq]
        t, bad = {}, set()
        for n in own_nodes(fi):
            if isinstance(n, ast.Assign) and len(n.targets) == 1 and \
                    isinstance(n.targets[0], ast.Name):
                name = n.targets[0].id
                c = self._ctor_class(fi, n.value)
                if c is not None and name not in bad:
                    if name in t and t[name] is not c:
                        bad.add(name)
                        t.pop(name)
                    else:
                        t[name] = c
                else:
                    bad.add(name)
                    t.pop(name, None)
        self._local_types[fi.fq] = t
        return t

    def _ctor_class(self, fi, expr):
        if isinstance(expr, ast.Call):
            r = self.resolve_name_expr(fi, expr.func)
            if r and r[0] == 'class':
                return r[1]
        return None

    def resolve_name_expr(self, fi, expr):
        """Resolve Name/dotted Attribute in the scope of function fi.

        Returns same tuples as Project.resolve_expr plus ('local', fi, name),
        ('nested', FuncInfo).
        """
        if isinstance(expr, ast.Name):
            f = fi
            while f is not None:
                if expr.id in f.nested:
                    return 'nested', f.nested[expr.id]
                if expr.id in self.locals_of(f):
                    li = self.p.local_imports(f)
                    if expr.id in li:
                        return self.p.resolve_import(li[expr.id])
                    return 'local', f, expr.id
                f = f.parent
            return self.p.resolve_global(fi.module, expr.id)
        if isinstance(expr, ast.Attribute):
            base = self.resolve_name_expr(fi, expr.value)
            if base is None:
                return None
            if base[0] == 'ext':
                return 'ext', '%s.%s' % (base[1], expr.attr)
            if base[0] == 'module':
                r = self.p.resolve_global(base[1], expr.attr)
                if r is None:
                    sub = self.p.get_module('%s.%s' % (base[1].name, expr.attr))
                    if sub is not None:
                        return 'module', sub
                return r
            if base[0] == 'class':
                m = self.p.find_method(base[1], expr.attr)
                if m is not None:
                    return 'func', m
                a = self.p.find_class_attr(base[1], expr.attr)
                if a is not None:
                    return 'classattr', a[0], expr.attr
                return 'classattr?', base[1], expr.attr
            return None
        return None

    # -- edges ---------------------------------------------------------------
    def _edges_of(self, fi):
        out = []
        call_funcs = set()
        nodes = list(own_nodes(fi))
        # decorators are applied in the enclosing scope: a memoising decorator
        # is recorded as an ext edge of kind 'decorator' on the function itself
        for d in fi.decorators():
            r = self.p.resolve_expr(fi.module, d.func if isinstance(
                d, ast.Call) else d)
            if r and r[0] == 'ext':
                out.append(Edge(fi, r[1], 'decorator', 'exact', d))
        for n in nodes:
            if isinstance(n, ast.Call):
                call_funcs.add(id(n.func))
                self.n_call_sites += 1
                es = self._resolve_callee(fi, n.func, n, 'call')
                if es:
                    self.n_resolved += 1
                out.extend(es)
        for n in nodes:
            if isinstance(n, (ast.FunctionDef, ast.AsyncFunctionDef, ast.Lambda)):
                sub = self.p.func_of_node.get(id(n))
                if sub is not None:
                    out.append(Edge(fi, sub, 'def', 'exact', n))
                continue
            if id(n) in call_funcs:
                continue
            if isinstance(n, ast.Name) and isinstance(n.ctx, ast.Load):
                out.extend(self._resolve_callee(fi, n, n, 'ref'))
            elif isinstance(n, ast.Attribute) and isinstance(n.ctx, ast.Load):
                # property reads / function references / Token.__getattr__
                out.extend(self._attr_read(fi, n))
        return out

    def _av_targets(self, av, seen=None, depth=0):
        """Package functions / ext names contained in an abstract value."""
        seen = set() if seen is None else seen
        if id(av) in seen or depth > 6:
            return []
        seen.add(id(av))
        if isinstance(av, FuncV):
            return [av.fi]
        if isinstance(av, Ext):
            return [av.name]
        if isinstance(av, ClassV):
            init = self.p.find_method(av.ci, '__init__')
            return [init] if init else []
        r = []
        if isinstance(av, CallV):
            r += self._av_targets(av.fn, seen, depth + 1)
            for a in list(av.args) + list(av.kw.values()):
                r += self._av_targets(a, seen, depth + 1)
        elif isinstance(av, DictV):
            for k, v in av.items:
                r += self._av_targets(v, seen, depth + 1)
        elif isinstance(av, SeqV):
            for e in av.elts:
                r += self._av_targets(e, seen, depth + 1)
        elif isinstance(av, BoundV):
            if isinstance(av.base, Const) and isinstance(av.base.v, str):
                r.append('builtins.str.%s' % av.attr)
        return r

    def _resolve_callee(self, fi, expr, node, kind):
        nargs = len(node.args) if isinstance(node, ast.Call) else None
        if isinstance(expr, ast.Name):
            r = self.resolve_name_expr(fi, expr)
            return self._edges_from_res(fi, r, node, kind, nargs)
        if isinstance(expr, ast.Attribute):
            r = self.resolve_name_expr(fi, expr)
            if r is not None and r[0] not in ('classattr', 'classattr?'):
                return self._edges_from_res(fi, r, node, kind, nargs)
            return self._method_call(fi, expr, node, kind, nargs)
        if isinstance(expr, ast.Call):
            # f(...)(...) : e.g. super().m handled in _method_call; partial(...)()
            return []
        if isinstance(expr, ast.Subscript):
            # table[key](...) : resolve via evaluator on module-level tables
            r = self.resolve_name_expr(fi, expr.value) if isinstance(
                expr.value, (ast.Name, ast.Attribute)) else None
            if r and r[0] == 'var':
                av = self.ev.module_env(r[1]).get(r[2])
                return [Edge(fi, t, kind, 'table', node, nargs)
                        for t in self._av_targets(av)]
            return []
        return []

    def _edges_from_res(self, fi, r, node, kind, nargs):
        if r is None:
            if isinstance(node, ast.Call) and isinstance(node.func, ast.Name) \
                    or isinstance(node, ast.Name):
                name = node.func.id if isinstance(node, ast.Call) else node.id
                import builtins
                if hasattr(builtins, name):
                    return [Edge(fi, 'builtins.%s' % name, kind, 'exact', node,
                                 nargs)]
            return []
        if r[0] in ('func', 'nested'):
            return [Edge(fi, r[1], kind, 'exact', node, nargs)]
        if r[0] == 'class':
            out = []
            if kind == 'call':
                self.instantiations.setdefault(fi.fq, set()).add(r[1])
            init = self.p.find_method(r[1], '__init__')
            if init is not None and kind == 'call':
                out.append(Edge(fi, init, kind, 'exact', node, nargs))
            if init is None and kind == 'call':
                for b in self.p.ext_bases(r[1]):
                    out.append(Edge(fi, '%s.__init__' % b, kind, 'exact', node))
            return out
        if r[0] == 'ext':
            return [Edge(fi, r[1], kind, 'exact', node, nargs)]
        if r[0] == 'var':
            av = self.ev.module_env(r[1]).get(r[2])
            if av is None:
                return []
            return [Edge(fi, t, kind, 'exact', node, nargs)
                    for t in self._av_targets(av)]
        if r[0] == 'local':
            out = []
            if kind == 'call':
                for c in self._local_seq_classes(r[1], r[2]):
                    self.instantiations.setdefault(fi.fq, set()).add(c)
                    init = self.p.find_method(c, '__init__')
                    if init is not None:
                        out.append(Edge(fi, init, kind, 'exact', node, nargs))
            return out
        return []

    def _local_seq_classes(self, fi, name):
        """Classes a local may hold when it iterates a class-level list of
        classes (`for f in self.filters: f(...)`)."""
        from .util import assigned_value
        out = []
        cls = fi_cls(fi)
        if cls is None:
            return out
        for n in own_nodes(fi):
            if isinstance(n, ast.For) and isinstance(n.target, ast.Name) and \
                    n.target.id == name:
                its = [(fi, n.iter)]
                if isinstance(n.iter, ast.Name):
                    its = [(fi, v) for v in assigned_value(fi, n.iter.id)]
                    if not its and n.iter.id in fi.params and \
                            fi.name.startswith('_') and fi.parent is None:
                        # a parameter of a private method: what its callers in
                        # the class pass for it
                        k = fi.params.index(n.iter.id) - 1
                        for m in cls.methods.values():
                            if m is fi or not m.params:
                                continue
                            for c in own_nodes(m):
                                if isinstance(c, ast.Call) and isinstance(
                                        c.func, ast.Attribute) and \
                                        c.func.attr == fi.name and isinstance(
                                        c.func.value, ast.Name) and \
                                        c.func.value.id == m.params[0] and \
                                        0 <= k < len(c.args):
                                    a_ = c.args[k]
                                    if isinstance(a_, ast.Name):
                                        its += [(m, v) for v in
                                                assigned_value(m, a_.id)]
                                    else:
                                        its.append((m, a_))
                for owner, it in its:
                    if isinstance(it, ast.Attribute) and isinstance(
                            it.value, ast.Name) and it.value.id in \
                            _first_params(owner):
                        a = self.p.find_class_attr(cls, it.attr)
                        if a is None:
                            continue
                        av = self.ev.class_attr(a[0], it.attr)
                        for e in (self.ev.iterate(av) or []):
                            if isinstance(e, ClassV) and e.ci not in out:
                                out.append(e.ci)
        return out

    # -- isinstance narrowing -------------------------------------------------
    def narrow_facts(self, fi):
        """id(ast node) -> {name: [ClassInfo,...]} from enclosing
        `if isinstance(name, C)` tests (statement bodies and `and` chains)."""
        if fi.fq in self._narrow:
            return self._narrow[fi.fq]
        res = {}

        def facts_of(test):
            out = {}
            conj = test.values if isinstance(test, ast.BoolOp) and isinstance(
                test.op, ast.And) else [test]
            for c in conj:
                if isinstance(c, ast.Call) and isinstance(c.func, ast.Name) \
                        and c.func.id == 'isinstance' and len(c.args) == 2 \
                        and isinstance(c.args[0], ast.Name):
                    t = c.args[1]
                    elts = t.elts if isinstance(t, ast.Tuple) else [t]
                    cls = []
                    for e in elts:
                        r = self.resolve_name_expr(fi, e) if isinstance(
                            e, (ast.Name, ast.Attribute)) else None
                        if r and r[0] == 'class':
                            cls.append(r[1])
                        else:
                            cls = None
                            break
                    if cls:
                        out[c.args[0].id] = cls
            return out

        def mark(node, facts):
            if node is None:
                return
            if isinstance(node, ast.BoolOp) and isinstance(node.op, ast.And):
                f2 = dict(facts)
                for v in node.values:
                    mark(v, f2)
                    f2 = dict(f2)
                    f2.update(facts_of(v))
                return
            if isinstance(node, ast.IfExp):
                mark(node.test, facts)
                f2 = dict(facts)
                f2.update(facts_of(node.test))
                mark(node.body, f2)
                mark(node.orelse, facts)
                return
            if facts:
                res[id(node)] = facts
            for c in ast.iter_child_nodes(node):
                if isinstance(c, (ast.FunctionDef, ast.AsyncFunctionDef,
                                  ast.Lambda, ast.ClassDef)):
                    continue
                mark(c, facts)

        def killed(st, facts):
            # an assignment to a narrowed name invalidates the fact
            names = {n.id for n in ast.walk(st) if isinstance(n, ast.Name)
                     and isinstance(n.ctx, ast.Store)}
            if names & set(facts):
                return {k: v for k, v in facts.items() if k not in names}
            return facts

        def walk(body, facts):
            for st in body:
                if isinstance(st, (ast.FunctionDef, ast.AsyncFunctionDef,
                                   ast.ClassDef)):
                    continue
                if isinstance(st, ast.If):
                    mark(st.test, facts)
                    f2 = dict(facts)
                    f2.update(facts_of(st.test))
                    walk(st.body, f2)
                    walk(st.orelse, facts)
                    continue
                subs = False
                for fld in ('body', 'orelse', 'finalbody'):
                    sub = getattr(st, fld, None)
                    if isinstance(sub, list) and sub and isinstance(
                            sub[0], ast.stmt):
                        subs = True
                if subs or getattr(st, 'handlers', None):
                    from .model import _stmt_exprs
                    for e in _stmt_exprs(st):
                        mark(e, facts)
                    inner = killed(st, facts) if isinstance(
                        st, (ast.For, ast.While, ast.With)) else facts
                    for fld in ('body', 'orelse', 'finalbody'):
                        sub = getattr(st, fld, None)
                        if isinstance(sub, list) and sub and isinstance(
                                sub[0], ast.stmt):
                            walk(sub, inner)
                    for h in getattr(st, 'handlers', []) or []:
                        walk(h.body, inner)
                else:
                    mark(st, facts)
                facts = killed(st, facts)

        self._narrow[fi.fq] = res  # breaks recursion through param facts
        if not fi.is_lambda:
            walk(fi.node.body, self._param_facts(fi))
        else:
            mark(fi.node.body, {})
        return res

    def _param_facts(self, fi):
        """Class facts for the parameters of a private method, taken from its
        call sites: `_m` is only called as `self._m(x, ...)` from methods of its
        own class, and at every such call `x` is a name narrowed by an
        enclosing isinstance test.  (Extracting a helper from a method must not
        lose what the method knew about its variables.)"""
        if fi.cls is None or fi.parent is not None or not fi.name.startswith(
                '_') or fi.name.startswith('__') or not fi.params:
            return {}
        sites = []
        for m in fi.cls.methods.values():
            if m is fi or not m.params:
                continue
            sn = m.params[0]
            for n in own_nodes(m):
                if isinstance(n, ast.Call) and isinstance(
                        n.func, ast.Attribute) and n.func.attr == fi.name and \
                        isinstance(n.func.value, ast.Name) and \
                        n.func.value.id == sn:
                    sites.append((m, n))
        if not sites:
            return {}
        # any other mention of the name in the package makes the set of call
        # sites unknown
        for g in self.p.functions.values():
            if g.cls is fi.cls:
                continue
            for n in own_nodes(g):
                if isinstance(n, ast.Attribute) and n.attr == fi.name:
                    return {}
        out = {}
        for i, prm in enumerate(fi.params[1:]):
            classes, ok = [], True
            for m, n in sites:
                if i >= len(n.args) or not isinstance(n.args[i], ast.Name):
                    ok = False
                    break
                facts = self.narrow_facts(m).get(id(n), {})
                cl = facts.get(n.args[i].id)
                if not cl:
                    ok = False
                    break
                classes += [c for c in cl if c not in classes]
            if ok and classes:
                out[prm] = classes
        return out

    def receiver_class(self, fi, expr, at=None):
        """Class of a receiver expression when statically evident."""
        if isinstance(expr, ast.Name) and at is not None:
            facts = self.narrow_facts(fi).get(id(at))
            if facts and expr.id in facts:
                cls = facts[expr.id]
                if len(cls) == 1:
                    return cls[0], True
                return tuple(cls), True
        if isinstance(expr, ast.Name):
            if expr.id in ('self', 'cls') and fi_cls(fi) is not None and \
                    expr.id in _first_params(fi):
                return fi_cls(fi), True
            f = fi
            while f is not None:
                lt = self.local_types(f)
                if expr.id in lt:
                    return lt[expr.id], False
                if expr.id in self.locals_of(f):
                    return None, False
                f = f.parent
            r = self.p.resolve_global(fi.module, expr.id)
            if r and r[0] == 'class':
                return r[1], False
        elif isinstance(expr, ast.Call):
            c = self._ctor_class(fi, expr)
            if c is not None:
                return c, False
        return None, False

    def _method_call(self, fi, expr, node, kind, nargs):
        attr = expr.attr
        recv = expr.value
        # super().m / super(X, self).m
        if isinstance(recv, ast.Call) and isinstance(recv.func, ast.Name) and \
                recv.func.id == 'super':
            cls = fi_cls(fi)
            if recv.args:
                r = self.resolve_name_expr(fi, recv.args[0])
                if r and r[0] == 'class':
                    cls = r[1]
            if cls is None:
                return []
            mro = self.p.mro(cls)[1:]
            for c in mro:
                if attr in c.methods:
                    return [Edge(fi, c.methods[attr], kind, 'exact', node, nargs)]
            return [Edge(fi, '%s.%s' % (b, attr), kind, 'exact', node, nargs)
                    for b in self.p.ext_bases(cls)] or []
        cls, dynamic = self.receiver_class(fi, recv, at=expr)
        if isinstance(cls, tuple):
            out = []
            for c in cls:
                m = self.p.find_method(c, attr)
                if m is not None:
                    out.append(Edge(fi, m, kind, 'exact', node, nargs))
                for sub in self.p.subclasses(c):
                    if sub is not c and attr in sub.methods and \
                            sub.methods[attr] is not m:
                        out.append(Edge(fi, sub.methods[attr], kind, 'exact',
                                        node, nargs))
            if out:
                return out
            cls = None
        if cls is not None:
            out = []
            m = self.p.find_method(cls, attr)
            if m is not None:
                out.append(Edge(fi, m, kind, 'exact', node, nargs))
            if dynamic:
                for sub in self.p.subclasses(cls):
                    if sub is not cls and attr in sub.methods and \
                            sub.methods[attr] is not m:
                        out.append(Edge(fi, sub.methods[attr], kind, 'exact',
                                        node, nargs))
            if not out:
                a = self.p.find_class_attr(cls, attr)
                if a is not None and isinstance(a[1], (ast.Name, ast.Attribute)):
                    r = self.p.resolve_expr(a[0].module, a[1])
                    if r and r[0] in ('class', 'func'):
                        return self._edges_from_res(fi, r, node, kind, nargs)
            if not out:
                # data attribute holding a callable, or inherited from ext base
                for b in self.p.ext_bases(cls):
                    out.append(Edge(fi, '%s.%s' % (b, attr), kind, 'exact',
                                    node, nargs))
            return out
        # unknown receiver: class-hierarchy analysis by method name
        out = []
        for m in self.methods_by_name.get(attr, []):
            out.append(Edge(fi, m, kind, 'cha', node, nargs))
        # ext attribute call by name (e.g. x.ravel()) recorded as '?.<name>'
        out.append(Edge(fi, '?.%s' % attr, kind, 'cha', node, nargs))
        return out

    def _attr_read(self, fi, n):
        out = []
        r = self.resolve_name_expr(fi, n)
        if r is not None and r[0] in ('func', 'ext', 'var'):
            return self._edges_from_res(fi, r, n, 'ref', None)
        attr = n.attr
        if attr in self.props_by_name:
            cls, dynamic = self.receiver_class(fi, n.value, at=n)
            if isinstance(cls, tuple):
                for c in cls:
                    m = self.p.find_method(c, attr)
                    if m is not None and _is_property(m):
                        out.append(Edge(fi, m, 'prop', 'exact', n))
                    for sub in self.p.subclasses(c):
                        if attr in sub.methods and sub.methods[attr] is not m:
                            out.append(Edge(fi, sub.methods[attr], 'prop',
                                            'exact', n))
                if out:
                    return out
                cls = None
            if cls is not None:
                m = self.p.find_method(cls, attr)
                if m is not None and _is_property(m):
                    out.append(Edge(fi, m, 'prop', 'exact', n))
                    if dynamic:
                        for sub in self.p.subclasses(cls):
                            if attr in sub.methods and sub.methods[attr] is not m:
                                out.append(Edge(fi, sub.methods[attr], 'prop',
                                                'exact', n))
                    return out
            for m in self.props_by_name[attr]:
                out.append(Edge(fi, m, 'prop', 'cha', n))
        elif attr.startswith(('has_', 'get_')) and \
                attr not in self.methods_by_name:
            for m in self.token_getattr:
                out.append(Edge(fi, m, 'prop', 'cha', n))
        return out

    # -- queries -------------------------------------------------------------
    def out(self, fi):
        return self.edges.get(fi.fq, [])

    def reachable(self, roots, follow=lambda e: True):
        """Functions reachable from roots; returns dict fq -> (FuncInfo, parent Edge)."""
        seen = {}
        stack = []
        for r in roots:
            if r.fq not in seen:
                seen[r.fq] = (r, None)
                stack.append(r)
        while stack:
            f = stack.pop()
            for e in self.out(f):
                if e.is_ext or not follow(e):
                    continue
                if e.dst.fq not in seen:
                    seen[e.dst.fq] = (e.dst, e)
                    stack.append(e.dst)
        return seen

    def rta(self, roots, classes=()):
        """Rapid type analysis: reachability where a call on an unknown
        receiver (CHA edge) only targets methods of classes instantiated in
        reachable code.  Returns (reach map, instantiated classes, allowed edge ids)."""
        inst = set(classes)
        reach = {}
        for r in roots:
            reach[r.fq] = (r, None)
        allowed = set()  # (src fq, dst fq) pairs
        changed = True
        while changed:
            changed = False
            # methods available on instantiated classes
            avail = set()
            for c in inst:
                for k in self.p.mro(c):
                    for m in k.methods.values():
                        avail.add(m.fq)
            for fq in list(reach):
                f = reach[fq][0]
                for c in self.instantiations.get(fq, ()):
                    if c not in inst:
                        inst.add(c)
                        changed = True
                for e in self.out(f):
                    if e.is_ext:
                        continue
                    if e.precision == 'cha' and e.dst.fq not in avail:
                        continue
                    allowed.add((f.fq, e.dst.fq))
                    if e.dst.fq not in reach:
                        reach[e.dst.fq] = (e.dst, e)
                        changed = True
        return reach, inst, allowed

    def path_to(self, reach, fq):
        """Witness path (list of strings) from a root to fq in a reach map."""
        steps = []
        cur = fq
        guard = 0
        while cur in reach and reach[cur][1] is not None and guard < 200:
            e = reach[cur][1]
            steps.append('%s:%s %s -> %s [%s/%s]' % (
                e.src.module.rel, getattr(e.node, 'lineno', '?'),
                e.src.qualname, e.dst.qualname, e.kind, e.precision))
            cur = e.src.fq
            guard += 1
        return list(reversed(steps))


def fi_cls(fi):
    f = fi
    while f is not None:
        if f.cls is not None:
            return f.cls
        f = f.parent
    return None


def _first_params(fi):
    f = fi
    names = set()
    while f is not None:
        if f.cls is not None and f.parent is None and f.params:
            names.add(f.params[0])
        f = f.parent
    return names


def _is_property(f):
    for d in f.decorators():
        if isinstance(d, ast.Name) and d.id == 'property':
            return True
        if isinstance(d, ast.Attribute) and d.attr in ('setter', 'getter'):
            return True
    return False
