"""Child process of the self-test: run one property's rules on a directory, print JSON."""
import importlib
import json
import sys
import traceback

from .model import AnalysisError
from . import report


def main():
    prop, repo = sys.argv[1], sys.argv[2]
    out = {'code': 0, 'findings': [], 'error': ''}
    try:
        from .cli import Ctx
        mod = importlib.import_module('sa.rules.%s' % prop.lower())
        ctx = Ctx(repo, 'quick', 0)
        ctx._run = mod.run
        results = mod.run(ctx)
        entries = report.known_for(prop)
        undecided, floors = [], []
        for r in results:
            if getattr(r, 'undecided', None):
                undecided.append(r.undecided)
            elif r.instances < r.floor:
                floors.append('floor %s: %d < %d' % (
                    r.rule, r.instances, r.floor))
            for f in r.findings:
                out['findings'].append({
                    'rule': f.rule, 'key': f.key,
                    'known': report.match_known(f, entries) is not None,
                    'message': f.message[:300]})
        # same precedence as report.emit: a violation stands whatever else
        # stayed undecided; without one an undecided rule makes the run exit 2
        if any(not f['known'] for f in out['findings']):
            out['code'] = 1
        elif undecided or floors:
            raise AnalysisError('; '.join(undecided + floors))
    except AnalysisError as ex:
        out['code'], out['error'] = 2, str(ex)
    except Exception:
        out['code'], out['error'] = 2, traceback.format_exc()[-1500:]
    print(json.dumps(out))


if __name__ == '__main__':
    main()
