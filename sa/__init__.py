"""Static analysis of vinci1it2000/formulas (stdlib only; never imports the package under analysis)."""
